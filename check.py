#!/venv/bin/python
"""One CLI for all checks.

    check.py <PROP> [--tier quick|thorough] [--replay FILE] [--root /repo]

exit 0  property holds on everything analysed (KNOWN-FINDING lines allowed)
exit 1  VIOLATION property=<id> replay=<path>
exit 2  ANALYSIS-ERROR (anchor vanished / undecided obligation / floor not met / internal)
"""
from __future__ import annotations

import argparse
import importlib
import json
import os
import sys
import traceback

HERE = os.path.dirname(os.path.abspath(__file__))
sys.path.insert(0, HERE)

from sa.repo import AnalysisError, Model  # noqa: E402
from sa.report import Report, finalize  # noqa: E402

PROPS = [f"C{i:02d}" for i in range(1, 21)]


def run_property(prop: str, tier: str, root: str, overlay=None, quiet=False) -> Report:
    model = Model(root, overlay=overlay)
    rep = Report(prop, tier)
    rep.stats["modules_parsed"] = len(model.modules)
    rep.stats["functions_parsed"] = len(model.all_functions)
    rep.stats["classes_parsed"] = len(model.all_classes)
    mod = importlib.import_module(f"sa.props.{prop}")
    _install_signatures(model)
    try:
        mod.check(model, rep, tier)
    except AnalysisError as e:
        rep.error(str(e))
    return rep


def _install_signatures(model: Model) -> None:
    """Positional parameter lists of the repository's callables, by simple name, where that name has one parameter list package-wide (sa/match.py compares
    calls of such callees as parameter -> argument bindings, so positional and keyword spellings of one call are the same construct)."""
    from sa import match as _m
    table: dict[str, list] = {}
    clash = set()
    for f in model.all_functions:
        if f.is_overload or f.parent is not None:
            continue
        a = f.node.args
        if a.vararg is not None:
            clash.add(f.name)
            continue
        ps = [x.arg for x in list(a.posonlyargs) + list(a.args)]
        if f.cls is not None and not f.is_staticmethod and ps:
            ps = ps[1:]
        name = f.name
        if name == "__init__" and f.cls is not None:
            name = f.cls.name
        if name.startswith("__") and name.endswith("__"):
            continue
        table.setdefault(name, [])
        if ps not in table[name]:
            table[name].append(ps)
    for nm in clash:
        table.pop(nm, None)
    # constructors: the __init__ found through the class hierarchy
    for ci in model.all_classes:
        init = ci.find_method("__init__")
        if init is not None and init.node.args.vararg is None and ci.name not in table:
            a = init.node.args
            table[ci.name] = [[x.arg for x in list(a.posonlyargs) + list(a.args)][1:]]
    # `cls(...)` inside classmethods: any constructor of the package (the matcher keeps the candidates that know the keywords used at the call)
    table["cls"] = []
    for ci in model.all_classes:
        init = ci.find_method("__init__")
        if init is not None and init.node.args.vararg is None:
            a = init.node.args
            ps = [x.arg for x in list(a.posonlyargs) + list(a.args)][1:]
            if ps and ps not in table["cls"]:
                table["cls"].append(ps)
    # module-level functions are also reachable as `<module>.<name>`: that spelling is unambiguous even when the bare name is not
    for f in model.all_functions:
        if f.cls is None and f.parent is None and not f.is_overload and f.node.args.vararg is None:
            a = f.node.args
            table[f.module.name.rsplit(".", 1)[-1] + "." + f.name] = [[x.arg for x in list(a.posonlyargs) + list(a.args)]]
    _m.set_signatures(table)


_ANCHORED = None


def anchored_names() -> frozenset:
    """Short names of every function some property is anchored in (they stay calls in the `inline` view)."""
    global _ANCHORED
    if _ANCHORED is None:
        names = set()
        for p in PROPS:
            if not os.path.exists(os.path.join(HERE, "sa", "props", f"{p}.py")):
                continue
            try:
                mod = importlib.import_module(f"sa.props.{p}")
            except Exception:
                continue
            for attr in dir(mod):
                v = getattr(mod, attr)
                if isinstance(v, (list, tuple)) and v and all(isinstance(x, str) for x in v):
                    for x in v:
                        if "::" in x:
                            names.add(x.split("::")[1].split(".")[-1].split("@")[0])
        # module constants that rules refer to by name (they must stay names in the views)
        import re as _re
        for fn_ in os.listdir(os.path.join(HERE, "sa", "props")):
            if fn_.endswith(".py"):
                names |= set(_re.findall(r"\b_[A-Z][A-Z0-9_]{2,}\b", open(os.path.join(HERE, "sa", "props", fn_), encoding="utf-8").read()))
        _ANCHORED = frozenset(names)
    return _ANCHORED


def reconcile_with_views(prop: str, tier: str, root: str, rep: Report, overlay=None) -> Report:
    """Structural rules look for a construct; when one is not found the obligation is re-evaluated on behaviour-preserving views of the same
    program (sa/views.py: private helpers inlined, comprehensions unrolled).  It is refuted only if it is refuted on every view."""
    bad = [o for o in rep.new_refuted()] + [o for o in rep.undecided()]
    floor_errs = [e for e in rep.errors if "hand-confirmed floor" in str(e)]
    if not bad and not floor_errs:
        return rep
    from sa.views import view_overlays
    keep = anchored_names()
    model = Model(root, overlay=overlay)
    sources = {m.relpath: m.source for m in model.modules.values()} if isinstance(model.modules, dict) else {m.relpath: m.source for m in model.modules}
    for name, ov in view_overlays(sources, keep):
        pending = [o for o in rep.obligations if o.status in ("refuted", "undecided") and o in bad]
        if not pending and not floor_errs:
            break
        try:
            vrep = run_property(prop, tier, root, overlay=ov)
        except Exception:
            continue
        good = {}
        for o in vrep.obligations:
            if o.status == "discharged":
                good.setdefault((o.rule, o.where, o.desc), o)
        still_bad = {(o.rule, o.where, o.desc) for o in vrep.obligations if o.status != "discharged"}
        by_site: dict = {}
        for o in vrep.obligations:
            by_site.setdefault((o.rule, o.where), []).append(o.status == "discharged")
        known_descs = {(o.rule, o.where, o.desc) for o in vrep.obligations}
        for o in pending:
            k = (o.rule, o.where, o.desc)
            # the view may not even raise the question ("construct not found" has no counterpart when the construct is found): then every
            # obligation of the same rule at the same site must hold on the view
            absent_ok = k not in known_descs and by_site.get((o.rule, o.where)) and all(by_site[(o.rule, o.where)])
            if (k in good and k not in still_bad) or absent_ok:
                o.status = "discharged"
                o.detail = f"holds on the equivalent view `{name}` of the program (as written: {o.detail[:160]})"
        if floor_errs and not any("hand-confirmed floor" in str(e) for e in vrep.errors):
            # the rule instances are all there once private helpers are inlined: the count on the program as written is not a sign of blindness
            rep.errors = [e for e in rep.errors if e not in floor_errs]
            floor_errs = []
        rep.note(f"re-evaluated on the equivalent view `{name}`")
    # errors raised only because of constructs that the views resolved (floors) stay as they are: they were computed on the program as written
    return rep


def decide_property(prop: str, tier: str, root: str, overlay=None) -> Report:
    """The analysis of the program as written, reconciled with its equivalent views: what every entry point (CLI, self-test, seed evaluation) uses."""
    rep = run_property(prop, tier, root, overlay=overlay)
    return reconcile_with_views(prop, tier, root, rep, overlay=overlay)


def main(argv=None) -> int:
    ap = argparse.ArgumentParser()
    ap.add_argument("prop")
    ap.add_argument("--tier", default=os.environ.get("VERIF_TIER", "quick"), choices=["quick", "thorough"])
    ap.add_argument("--replay", default=None)
    ap.add_argument("--root", default=os.environ.get("ACRYO_ROOT", "/repo"))
    ns = ap.parse_args(argv)
    seed = int(os.environ.get("VERIF_SEED", "0") or 0)
    prop = ns.prop
    try:
        if prop not in PROPS or not os.path.exists(os.path.join(HERE, "sa", "props", f"{prop}.py")):
            print(f"ANALYSIS-ERROR unknown or unclaimed property {prop}")
            return 2
        rep = decide_property(prop, ns.tier, ns.root)
        if ns.replay:
            with open(ns.replay) as f:
                rp = json.load(f)
            hit = [o for o in rep.obligations if o.key(prop) == rp.get("key")]
            if not hit:
                print(f"replay: obligation {rp.get('key')} ({rp.get('rule')} at {rp.get('construct')}) no longer "
                      f"exists in the current tree with that statement; current status of the property follows")
            for o in hit:
                print(f"replay: {o.rule} {o.where} at {o.loc}: {o.desc}\n  status={o.status}\n  detail={o.detail}\n  statement={o.stmt}")
            if hit and all(o.status == "discharged" for o in hit):
                return 0
            if hit and any(o.status == "refuted" for o in hit):
                print(f"VIOLATION property={prop} replay={ns.replay}")
                return 1
        if ns.tier == "thorough":
            try:
                from selftest.run import run_selftest
                run_selftest(prop, rep, ns.root)
            except ImportError:
                rep.note("self-test corpus not available")
        return finalize(rep, seed)
    except Exception:
        print(f"ANALYSIS-ERROR property={prop} internal exception")
        traceback.print_exc()
        return 2


if __name__ == "__main__":
    sys.exit(main())
