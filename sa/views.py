"""Equivalent views of the source: behaviour-preserving normalisations applied before a rule is re-tried.

A structural rule that does not find its construct in a function is re-evaluated on these views of the *same* program; the obligation
holds if it holds on any of them (the transformations preserve behaviour, so a program and its view satisfy the same properties).

inline      calls to private helpers (``_name`` functions of the same module, ``self._name`` / ``cls._name`` / ``Class._name`` methods of the
            same class) that appear as a whole statement (``x = _h(..)``, ``return _h(..)``, ``_h(..)``, ``yield _h(..)``) are replaced by
            the helper's body: parameters bound to the arguments, locals renamed, tail returns turned into assignments.  Helpers with loops
            that return, generators, nested functions, recursion, *args/**kwargs or decorators (other than staticmethod/classmethod) are left alone.
loops       ``x = [e for a in xs if c]`` becomes ``x = []; for a in xs: if c: x.append(e)`` (single generator, plain name target).

`views(sources)` yields (name, {relpath: source}).
"""
from __future__ import annotations

import ast
import copy


# ----------------------------------------------------------------------------------------------------------------- helper inlining
class _NotInlinable(Exception):
    pass


def _tail_returns_to_assign(stmts: list[ast.stmt], target: ast.expr | None) -> list[ast.stmt]:
    """Rewrite a function body whose returns are all in tail position so that every ``return v`` becomes ``target = v`` (or ``v`` dropped when
    target is None).  Early ``if c: return v`` gets the rest of the block as its else branch."""
    out: list[ast.stmt] = []
    i = 0
    while i < len(stmts):
        st = stmts[i]
        last = i == len(stmts) - 1
        if isinstance(st, ast.Return):
            if not last:
                raise _NotInlinable("code after return")
            if target is not None:
                out.append(ast.Assign(targets=[copy.deepcopy(target)], value=st.value if st.value is not None else ast.Constant(value=None)))
            elif st.value is not None:
                out.append(ast.Expr(value=st.value))
            return out
        if isinstance(st, ast.If) and _contains_return(st):
            rest = stmts[i + 1:]
            body_ret = _always_returns(st.body)
            else_ret = _always_returns(st.orelse) if st.orelse else False
            if body_ret:
                # the code after the if belongs to the path on which the body was not taken
                tail = list(st.orelse) + ([] if else_ret else list(rest))
                out.append(ast.If(test=st.test, body=_tail_returns_to_assign(st.body, target), orelse=_tail_returns_to_assign(tail, target) if tail else []))
                return out
            if else_ret:
                out.append(ast.If(test=st.test, body=_tail_returns_to_assign(list(st.body) + list(rest), target), orelse=_tail_returns_to_assign(st.orelse, target)))
                return out
            raise _NotInlinable("return in a non-tail if")
        if _contains_return(st):
            raise _NotInlinable("return inside a loop / try / with")
        out.append(st)
        i += 1
    # fell off the end: implicit return None (unless the block ends by raising)
    if target is not None and not (out and isinstance(out[-1], ast.Raise)):
        out.append(ast.Assign(targets=[copy.deepcopy(target)], value=ast.Constant(value=None)))
    return out


def _contains_return(st: ast.AST) -> bool:
    for x in ast.walk(st):
        if isinstance(x, ast.Return):
            return True
    return False


def _always_returns(stmts: list[ast.stmt]) -> bool:
    if not stmts:
        return False
    last = stmts[-1]
    if isinstance(last, (ast.Return, ast.Raise)):
        return True
    if isinstance(last, ast.If):
        return _always_returns(last.body) and _always_returns(last.orelse)
    return False


def _inlinable(fd: ast.FunctionDef) -> bool:
    if fd.args.vararg or fd.args.kwarg:
        return False
    for d in fd.decorator_list:
        if ast.unparse(d) not in ("staticmethod", "classmethod"):
            return False
    for x in ast.walk(fd):
        if isinstance(x, (ast.Yield, ast.YieldFrom, ast.Await, ast.Global, ast.Nonlocal)):
            return False
        if isinstance(x, (ast.FunctionDef, ast.AsyncFunctionDef, ast.ClassDef, ast.Lambda)) and x is not fd:
            return False
        if isinstance(x, ast.Call) and isinstance(x.func, ast.Name) and x.func.id == fd.name:
            return False
        if isinstance(x, ast.Call) and isinstance(x.func, ast.Attribute) and x.func.attr == fd.name:
            return False
    return True


class _Renamer(ast.NodeTransformer):
    def __init__(self, mapping: dict[str, ast.expr | str]):
        self.mapping = mapping

    def visit_Name(self, n):
        m = self.mapping.get(n.id)
        if m is None:
            return n
        if isinstance(m, str):
            return ast.copy_location(ast.Name(id=m, ctx=n.ctx), n)
        if isinstance(n.ctx, ast.Load):
            return copy.deepcopy(m)
        return n


class _BetaReduce(ast.NodeTransformer):
    """`(lambda a, b: E)(x, y)` -> E[a := x, b := y] for plain positional calls whose arguments are names / constants / attributes (evaluated once anyway)."""

    def visit_Call(self, n):
        self.generic_visit(n)
        f = n.func
        if isinstance(f, ast.Lambda) and not n.keywords and len(n.args) == len(f.args.args) and not f.args.posonlyargs and \
                not any(isinstance(a, ast.Starred) for a in n.args) and \
                all(isinstance(a, (ast.Name, ast.Constant)) or (isinstance(a, ast.Attribute) and isinstance(a.value, ast.Name)) or
                    sum(1 for x in ast.walk(f.body) if isinstance(x, ast.Name) and x.id == p.arg) == 1 for a, p in zip(n.args, f.args.args)):
            params = [a.arg for a in f.args.args]
            inner_bound = {x.id for x in ast.walk(f.body) if isinstance(x, ast.Name) and isinstance(x.ctx, ast.Store)}
            if not (set(params) & inner_bound):
                return _Renamer(dict(zip(params, n.args))).visit(copy.deepcopy(f.body))
        return n


def _inline_call(fd: ast.FunctionDef, call: ast.Call, drop_first: bool, first_value: ast.expr | None, target: ast.expr | None, uid: int) -> list[ast.stmt]:
    params = [a.arg for a in fd.args.posonlyargs + fd.args.args]
    bound: dict[str, ast.expr] = {}
    if drop_first and params:
        if first_value is not None:
            bound[params[0]] = first_value
        params = params[1:]
    kwonly = [a.arg for a in fd.args.kwonlyargs]
    if any(isinstance(a, ast.Starred) for a in call.args) or any(k.arg is None for k in call.keywords) or len(call.args) > len(params):
        raise _NotInlinable("argument binding")
    for p, a in zip(params, call.args):
        bound[p] = a
    for k in call.keywords:
        if k.arg not in params + kwonly or k.arg in bound:
            raise _NotInlinable("keyword binding")
        bound[k.arg] = k.value
    pos_all = [a.arg for a in fd.args.posonlyargs + fd.args.args]
    for p, d in zip(pos_all[len(pos_all) - len(fd.args.defaults):], fd.args.defaults):
        bound.setdefault(p, d)
    for p, d in zip(kwonly, fd.args.kw_defaults):
        if d is not None:
            bound.setdefault(p, d)
    if any(p not in bound for p in params + kwonly):
        raise _NotInlinable("missing argument")
    body = list(fd.body)
    if body and isinstance(body[0], ast.Expr) and isinstance(body[0].value, ast.Constant) and isinstance(body[0].value.value, str):
        body = body[1:]
    body = copy.deepcopy(body)
    # parameters that are re-bound in the helper, or whose argument is not a plain name/constant/attribute, become fresh locals (evaluated once)
    stored = {x.id for st in body for x in ast.walk(st) if isinstance(x, ast.Name) and isinstance(x.ctx, (ast.Store, ast.Del))}
    mapping: dict[str, ast.expr | str] = {}
    pre: list[ast.stmt] = []

    def simple(e):
        return isinstance(e, (ast.Name, ast.Constant)) or (isinstance(e, ast.Attribute) and simple(e.value))

    for p, v in bound.items():
        if isinstance(v, ast.Lambda) and p not in stored and not v.args.defaults and not v.args.vararg and not v.args.kwarg and not v.args.kwonlyargs and \
                all(isinstance(c, ast.Call) and c.func is x for x in (y for st in body for y in ast.walk(st) if isinstance(y, ast.Name) and y.id == p)
                    for c in [next((c2 for st in body for c2 in ast.walk(st) if isinstance(c2, ast.Call) and c2.func is x), None)]):
            # a function object that the helper only *calls*: substitute it and beta-reduce the calls below (`func(df)` with func = lambda d: d.head(n))
            mapping[p] = v
            continue
        if p in stored or not simple(v):
            nm = f"__h{uid}_{p}"
            pre.append(ast.Assign(targets=[ast.Name(id=nm, ctx=ast.Store())], value=copy.deepcopy(v)))
            mapping[p] = nm
        else:
            mapping[p] = v
    for nm in stored:
        if nm not in mapping:
            mapping[nm] = f"__h{uid}_{nm}"
    body = [_Renamer(mapping).visit(st) for st in body]  # rename first: the caller's target may be spelled like a local of the helper
    body = [_BetaReduce().visit(st) for st in body]
    body = _tail_returns_to_assign(body, target)
    return pre + body


def inline_private_helpers(tree: ast.Module, keep: frozenset = frozenset(), package_funcs: dict | None = None, overridden: frozenset = frozenset()) -> ast.Module:
    """``keep``: names of functions the rules are anchored in - calls to them are part of the architecture the rules know and stay calls."""
    tree = copy.deepcopy(tree)
    mod_funcs = {st.name: st for st in tree.body if isinstance(st, ast.FunctionDef)}
    for st in tree.body:
        if isinstance(st, (ast.If, ast.Try)):
            for sub in ast.walk(st):
                if isinstance(sub, ast.FunctionDef):
                    mod_funcs.setdefault(sub.name, sub)
    # private functions of other modules of the package that this module imports by name (from x import _helper)
    if package_funcs:
        imported = {a.asname or a.name for n in ast.walk(tree) if isinstance(n, ast.ImportFrom) for a in n.names}
        for nm in imported:
            if nm in package_funcs and nm not in mod_funcs:
                mod_funcs[nm] = package_funcs[nm]
    classes = {st.name: st for st in tree.body if isinstance(st, ast.ClassDef)}
    counter = [0]

    def methods_of(cd: ast.ClassDef):
        return {x.name: x for x in cd.body if isinstance(x, ast.FunctionDef)}

    def resolve(call: ast.Call, cls: ast.ClassDef | None, current: ast.FunctionDef):
        f = call.func
        fd, drop, first = None, False, None
        local = None
        if isinstance(f, ast.Name) and current is not None:
            # a closure defined directly in the body of the current function whose free variables are bound at most once there (so that the value seen at the
            # definition is the value seen at the call)
            for st_ in current.body:
                if isinstance(st_, ast.FunctionDef) and st_.name == f.id:
                    inner_names = {a.arg for a in st_.args.args + st_.args.posonlyargs + st_.args.kwonlyargs} | \
                        {x.id for x in ast.walk(st_) if isinstance(x, ast.Name) and isinstance(x.ctx, ast.Store)}
                    free = {x.id for x in ast.walk(st_) if isinstance(x, ast.Name) and isinstance(x.ctx, ast.Load)} - inner_names
                    stores = {}
                    for x in ast.walk(current):
                        if isinstance(x, ast.Name) and isinstance(x.ctx, (ast.Store, ast.Del)) and x.id in free and not any(x is y for y in ast.walk(st_)):
                            stores[x.id] = stores.get(x.id, 0) + 1
                    if all(v <= 1 for v in stores.values()) and not st_.decorator_list:
                        local = st_
        if local is not None:
            fd = local
            if not _inlinable(fd):
                return None
            return fd, False, None
        if isinstance(f, ast.Name) and f.id in mod_funcs:
            fd = mod_funcs[f.id]
        elif isinstance(f, ast.Attribute) and isinstance(f.value, ast.Name):
            owner = None
            if f.value.id in ("self", "cls") and cls is not None:
                owner = cls
            elif f.value.id in classes:
                owner = classes[f.value.id]
            if owner is not None:
                fd = methods_of(owner).get(f.attr)
                if fd is not None and f.attr in overridden and f.value.id in ("self", "cls"):
                    fd = None  # dynamic dispatch: another class defines a method of this name, the callee is not known statically
                if fd is not None:
                    decs = [ast.unparse(d) for d in fd.decorator_list]
                    drop = "staticmethod" not in decs
                    first = f.value if drop else None
        if fd is None or fd is current or not fd.name.startswith("_") or fd.name.startswith("__") or fd.name in keep or not _inlinable(fd):
            return None
        return fd, drop, first

    def rewrite_block(stmts: list[ast.stmt], cls, current, depth=0) -> list[ast.stmt]:
        out: list[ast.stmt] = []
        for st in stmts:
            for fld in ("body", "orelse", "finalbody"):
                sub = getattr(st, fld, None)
                if isinstance(sub, list) and sub and isinstance(sub[0], ast.stmt) and not isinstance(st, (ast.FunctionDef, ast.AsyncFunctionDef, ast.ClassDef)):
                    setattr(st, fld, rewrite_block(sub, cls, current, depth))
            if isinstance(st, ast.Try):
                for h in st.handlers:
                    h.body = rewrite_block(h.body, cls, current, depth)
            call, target, kind = None, None, None
            if isinstance(st, ast.Assign) and len(st.targets) == 1 and isinstance(st.value, ast.Call):
                call, target, kind = st.value, st.targets[0], "assign"
            elif isinstance(st, ast.AnnAssign) and isinstance(st.value, ast.Call):
                call, target, kind = st.value, st.target, "assign"
            elif isinstance(st, ast.Return) and isinstance(st.value, ast.Call):
                call, kind = st.value, "return"
            elif isinstance(st, ast.Expr) and isinstance(st.value, ast.Call):
                call, kind = st.value, "expr"
            elif isinstance(st, ast.Expr) and isinstance(st.value, ast.Yield) and isinstance(st.value.value, ast.Call):
                call, kind = st.value.value, "yield"
            done = False
            if call is not None and depth < 3:
                r = resolve(call, cls, current)
                if r is not None:
                    fd, drop, first = r
                    counter[0] += 1
                    uid = counter[0]
                    try:
                        if kind in ("return", "yield"):
                            tmp = ast.Name(id=f"__h{uid}_ret", ctx=ast.Store())
                            body = _inline_call(fd, call, drop, first, tmp, uid)
                            load = ast.Name(id=f"__h{uid}_ret", ctx=ast.Load())
                            tail = ast.Return(value=load) if kind == "return" else ast.Expr(value=ast.Yield(value=load))
                            new = body + [tail]
                        elif kind == "assign":
                            new = _inline_call(fd, call, drop, first, target, uid)
                        else:
                            new = _inline_call(fd, call, drop, first, None, uid)
                        new = rewrite_block(new, cls, current, depth + 1)
                        out.extend(new)
                        done = True
                    except _NotInlinable:
                        done = False
            if not done:
                out.append(st)
        return out

    # private module-level constants bound once to a literal
    consts: dict[str, ast.expr] = {}
    bind_count: dict[str, int] = {}
    for st in tree.body:
        if isinstance(st, ast.Assign):
            for t in st.targets:
                if isinstance(t, ast.Name):
                    bind_count[t.id] = bind_count.get(t.id, 0) + 1
    for st in tree.body:
        if isinstance(st, ast.Assign) and len(st.targets) == 1 and isinstance(st.targets[0], ast.Name) and st.targets[0].id.startswith("_") and \
                bind_count.get(st.targets[0].id) == 1 and st.targets[0].id not in keep:
            try:
                ast.literal_eval(st.value)
                consts[st.targets[0].id] = st.value
            except Exception:
                pass

    from .match import simple_helper, inline_simple_helper

    class ExprInliner(ast.NodeTransformer):
        def __init__(self, cls, current):
            self.cls, self.current = cls, current

        def visit_Lambda(self, n):
            return n

        def visit_Name(self, n):
            if isinstance(n.ctx, ast.Load) and n.id in consts and not _shadowed(self.current, n.id):
                return copy.deepcopy(consts[n.id])
            return n

        def visit_Call(self, n):
            n = self.generic_visit(n)
            r = resolve(n, self.cls, self.current)
            if r is not None and simple_helper(r[0]):
                inl = inline_simple_helper(r[0], n, r[1])
                if inl is not None:
                    return self.visit(inl)
            return n

    def _shadowed(fn, name):
        for x in ast.walk(fn):
            if isinstance(x, ast.Name) and x.id == name and isinstance(x.ctx, (ast.Store, ast.Del)):
                return True
            if isinstance(x, ast.arg) and x.arg == name:
                return True
        return False

    def expr_pass(fn, cls):
        ei = ExprInliner(cls, fn)
        fn.body = [ei.visit(st) if not isinstance(st, (ast.FunctionDef, ast.AsyncFunctionDef, ast.ClassDef)) else st for st in fn.body]

    def visit_funcs(body, cls):
        for st in body:
            if isinstance(st, ast.FunctionDef):
                st.body = rewrite_block(st.body, cls, st)
                expr_pass(st, cls)
            elif isinstance(st, ast.ClassDef):
                visit_funcs(st.body, st)
            elif isinstance(st, (ast.If, ast.Try)):
                for sub in ast.iter_child_nodes(st):
                    if isinstance(sub, ast.stmt):
                        visit_funcs([sub], cls)

    visit_funcs(tree.body, None)
    ast.fix_missing_locations(tree)
    return tree


# ----------------------------------------------------------------------------------------------------------------- comprehensions -> loops
def comprehensions_to_loops(tree: ast.Module) -> ast.Module:
    tree = copy.deepcopy(tree)

    def rewrite_block(stmts):
        out = []
        for st in stmts:
            for fld in ("body", "orelse", "finalbody"):
                sub = getattr(st, fld, None)
                if isinstance(sub, list) and sub and isinstance(sub[0], ast.stmt) and not isinstance(st, ast.ClassDef):
                    setattr(st, fld, rewrite_block(sub))
            if isinstance(st, ast.Try):
                for h in st.handlers:
                    h.body = rewrite_block(h.body)
            tgt = val = None
            if isinstance(st, ast.Assign) and len(st.targets) == 1 and isinstance(st.targets[0], ast.Name):
                tgt, val = st.targets[0], st.value
            elif isinstance(st, ast.AnnAssign) and isinstance(st.target, ast.Name) and st.value is not None:
                tgt, val = st.target, st.value
            if tgt is not None and isinstance(val, ast.ListComp) and len(val.generators) == 1 and not val.generators[0].is_async:
                g = val.generators[0]
                app = ast.Expr(value=ast.Call(func=ast.Attribute(value=ast.Name(id=tgt.id, ctx=ast.Load()), attr="append", ctx=ast.Load()), args=[val.elt], keywords=[]))
                body: list[ast.stmt] = [app]
                for cond in reversed(g.ifs):
                    body = [ast.If(test=cond, body=body, orelse=[])]
                out.append(ast.Assign(targets=[ast.Name(id=tgt.id, ctx=ast.Store())], value=ast.List(elts=[], ctx=ast.Load())))
                out.append(ast.For(target=g.target, iter=g.iter, body=body, orelse=[]))
                continue
            out.append(st)
        return out

    for n in ast.walk(tree):
        if isinstance(n, (ast.FunctionDef, ast.AsyncFunctionDef)):
            n.body = rewrite_block(n.body)
    ast.fix_missing_locations(tree)
    return tree


_EXIT = (ast.Return, ast.Raise, ast.Continue, ast.Break)


def _exits(stmts: list[ast.stmt]) -> bool:
    if not stmts:
        return False
    last = stmts[-1]
    if isinstance(last, _EXIT):
        return True
    if isinstance(last, ast.If) and last.orelse:
        return _exits(last.body) and _exits(last.orelse)
    return False


_NEG = {ast.IsNot: ast.Is, ast.NotEq: ast.Eq, ast.NotIn: ast.In}


def _positive(st: ast.If) -> ast.If:
    """`if not c / a is not b / a != b / a not in b: A else: B`  ->  positive test, branches swapped (only with a non-empty else)."""
    if not st.orelse:
        return st
    t = st.test
    if isinstance(t, ast.UnaryOp) and isinstance(t.op, ast.Not):
        st.test, st.body, st.orelse = t.operand, st.orelse, st.body
    elif isinstance(t, ast.Compare) and len(t.ops) == 1 and type(t.ops[0]) in _NEG:
        st.test = ast.Compare(left=t.left, ops=[_NEG[type(t.ops[0])]()], comparators=t.comparators)
        st.body, st.orelse = st.orelse, st.body
    return st


def control_flow_normal_form(tree: ast.Module) -> ast.Module:
    """Structured normal form of early exits: `if c: <exit>` followed by R becomes `if c: <exit> else: R`; a `try ... else` whose handlers all exit
    continues after the try; negative tests with an else are made positive; a trailing `continue` is dropped.  Guard inversion, early return /
    continue and nested if/else are the same program in this form."""
    tree = copy.deepcopy(tree)

    def split_ifexp(st):
        """`x = a if c else b` / `return a if c else b`  ->  if c: x = a else: x = b   (the conditional expression is the whole right-hand side)."""
        v = getattr(st, "value", None)
        if isinstance(st, (ast.Assign, ast.Return, ast.AnnAssign)) and isinstance(v, ast.IfExp) and not any(isinstance(x, ast.NamedExpr) for x in ast.walk(v)):
            a, b = copy.deepcopy(st), copy.deepcopy(st)
            a.value, b.value = v.body, v.orelse
            return ast.copy_location(ast.If(test=v.test, body=[a], orelse=[b]), st)
        return st

    def norm_block(stmts: list[ast.stmt]) -> list[ast.stmt]:
        stmts = [split_ifexp(s_) for s_ in stmts]
        out: list[ast.stmt] = []
        for i, st in enumerate(stmts):
            if isinstance(st, (ast.FunctionDef, ast.AsyncFunctionDef, ast.ClassDef)):
                out.append(st)
                continue
            for fld in ("body", "orelse", "finalbody"):
                sub = getattr(st, fld, None)
                if isinstance(sub, list) and sub and isinstance(sub[0], ast.stmt):
                    setattr(st, fld, norm_block(sub))
            if isinstance(st, ast.Try):
                for h in st.handlers:
                    h.body = norm_block(h.body)
                if st.orelse and not st.finalbody and st.handlers and all(_exits(h.body) for h in st.handlers):
                    rest = st.orelse
                    st.orelse = []
                    out.append(st)
                    return out + norm_block(rest + stmts[i + 1:])
            if isinstance(st, (ast.For, ast.While, ast.AsyncFor)):
                st.body = _drop_tail_continue(st.body)
            if isinstance(st, ast.If):
                rest = stmts[i + 1:]
                if not st.orelse and _exits(st.body) and rest:
                    st.orelse = norm_block(rest)
                    out.append(_positive(st))
                    return out
                st = _positive(st)
            out.append(st)
        return out

    def _drop_tail_continue(body: list[ast.stmt]) -> list[ast.stmt]:
        if not body:
            return body
        last = body[-1]
        if isinstance(last, ast.Continue):
            body = body[:-1] or [ast.Pass()]
        elif isinstance(last, ast.If):
            last.body = _drop_tail_continue(last.body)
            if last.orelse:
                last.orelse = _drop_tail_continue(last.orelse)
        return body

    for n in ast.walk(tree):
        if isinstance(n, (ast.FunctionDef, ast.AsyncFunctionDef)):
            n.body = norm_block(n.body)
    ast.fix_missing_locations(tree)
    return tree


_FLIP = {ast.In: ast.NotIn, ast.NotIn: ast.In, ast.Eq: ast.NotEq, ast.NotEq: ast.Eq, ast.Is: ast.IsNot, ast.IsNot: ast.Is, ast.Lt: ast.GtE, ast.GtE: ast.Lt,
         ast.Gt: ast.LtE, ast.LtE: ast.Gt}


def _negate(t: ast.expr) -> ast.expr:
    if isinstance(t, ast.UnaryOp) and isinstance(t.op, ast.Not):
        return t.operand
    if isinstance(t, ast.Compare) and len(t.ops) == 1 and type(t.ops[0]) in _FLIP:
        return ast.Compare(left=t.left, ops=[_FLIP[type(t.ops[0])]()], comparators=t.comparators)
    return ast.UnaryOp(op=ast.Not(), operand=t)


def append_loops_to_comprehensions(tree: ast.Module) -> ast.Module:
    """`xs = []` followed (directly) by `for v in it: [t = e]* ; xs.append(E)`  ->  `xs = [E' for v in it]` with the loop-local temporaries substituted.
    Conditions: the temporaries are plain names assigned once in the body and used nowhere outside the loop, the target variables are not used after the
    loop, nothing else in the body, no else-clause.  (The converse of comprehensions_to_loops: either spelling can be the one a rule was written for.)"""
    tree = copy.deepcopy(tree)

    def names_in(n, ctx=(ast.Load, ast.Store, ast.Del)):
        return {x.id for x in ast.walk(n) if isinstance(x, ast.Name) and isinstance(x.ctx, ctx)}

    def rewrite_block(stmts, outer_rest_names):
        out = []
        i = 0
        while i < len(stmts):
            st = stmts[i]
            for fld in ("body", "orelse", "finalbody"):
                sub = getattr(st, fld, None)
                if isinstance(sub, list) and sub and isinstance(sub[0], ast.stmt) and not isinstance(st, (ast.ClassDef, ast.FunctionDef, ast.AsyncFunctionDef)):
                    after = set()
                    for r in stmts[i + 1:]:
                        after |= names_in(r)
                    setattr(st, fld, rewrite_block(sub, outer_rest_names | after | (names_in(st) if isinstance(st, (ast.For, ast.While)) else set())))
            if isinstance(st, ast.Try):
                for h in st.handlers:
                    h.body = rewrite_block(h.body, outer_rest_names)
            tgt = None
            if isinstance(st, ast.Assign) and len(st.targets) == 1 and isinstance(st.targets[0], ast.Name) and isinstance(st.value, ast.List) and not st.value.elts:
                tgt = st.targets[0].id
            elif isinstance(st, ast.AnnAssign) and isinstance(st.target, ast.Name) and isinstance(st.value, ast.List) and not st.value.elts:
                tgt = st.target.id
            nxt = stmts[i + 1] if i + 1 < len(stmts) else None
            if tgt is not None and isinstance(nxt, ast.For) and not nxt.orelse and nxt.body:
                body = list(nxt.body)
                conds: list[ast.expr] = []
                # filters: `if C: continue` in front, `if C: <append>` / `if C: pass|continue else: <append>` around the append
                while body and isinstance(body[0], ast.If) and not body[0].orelse and len(body[0].body) == 1 and isinstance(body[0].body[0], ast.Continue) and len(body) > 1:
                    conds.append(_negate(body[0].test))
                    body = body[1:]
                if len(body) == 1 and isinstance(body[0], ast.If):
                    i0 = body[0]
                    if not i0.orelse:
                        conds.append(i0.test)
                        body = list(i0.body)
                    elif len(i0.body) == 1 and isinstance(i0.body[0], (ast.Pass, ast.Continue)):
                        conds.append(_negate(i0.test))
                        body = list(i0.orelse)
                if not body:
                    out.append(st)
                    i += 1
                    continue
                last = body[-1]
                temps = {}
                ok = isinstance(last, ast.Expr) and isinstance(last.value, ast.Call) and isinstance(last.value.func, ast.Attribute) and last.value.func.attr == "append" and \
                    isinstance(last.value.func.value, ast.Name) and last.value.func.value.id == tgt and len(last.value.args) == 1 and not last.value.keywords
                if ok:
                    for b in body[:-1]:
                        if isinstance(b, ast.Assign) and len(b.targets) == 1 and isinstance(b.targets[0], ast.Name) and b.targets[0].id not in temps and \
                                not any(isinstance(x, (ast.Yield, ast.YieldFrom, ast.Await, ast.NamedExpr, ast.Lambda)) for x in ast.walk(b.value)):
                            temps[b.targets[0].id] = b.value
                        else:
                            ok = False
                            break
                if ok:
                    rest_names = set(outer_rest_names)
                    for r in stmts[i + 2:]:
                        rest_names |= names_in(r)
                    loop_vars = names_in(nxt.target, (ast.Store,))
                    if (set(temps) | loop_vars) & rest_names or tgt in names_in(nxt.iter) or any(tgt in names_in(v) for v in temps.values()) or \
                            tgt in names_in(last.value.args[0]) or (set(temps) & loop_vars):
                        ok = False
                if ok:
                    # a temporary that is read more than once must not be re-evaluated if its value involves a call (it might not be pure)
                    reads = {}
                    for b in list(body[:-1]) + [last]:
                        for x in ast.walk(b.value if isinstance(b, ast.Assign) else b):
                            if isinstance(x, ast.Name) and isinstance(x.ctx, ast.Load) and x.id in temps:
                                reads[x.id] = reads.get(x.id, 0) + 1
                    if any(reads.get(nm, 0) > 1 and any(isinstance(x, ast.Call) for x in ast.walk(v)) for nm, v in temps.items()):
                        ok = False
                if ok:
                    elt = copy.deepcopy(last.value.args[0])
                    # substitute temporaries in definition order (a later temporary may use an earlier one)
                    defs = {}
                    for nm, v in temps.items():
                        defs[nm] = _Renamer(dict(defs)).visit(copy.deepcopy(v))
                    elt = _Renamer(defs).visit(elt)
                    if conds and any(names_in(c) & set(temps) for c in conds):
                        out.append(st)
                        i += 1
                        continue
                    comp = ast.ListComp(elt=elt, generators=[ast.comprehension(target=nxt.target, iter=nxt.iter, ifs=conds, is_async=0)])
                    new = copy.deepcopy(st)
                    new.value = comp
                    out.append(ast.copy_location(new, st))
                    i += 2
                    continue
            out.append(st)
            i += 1
        return out

    for n in ast.walk(tree):
        if isinstance(n, (ast.FunctionDef, ast.AsyncFunctionDef)):
            n.body = rewrite_block(n.body, set())
    ast.fix_missing_locations(tree)
    return tree


def unroll_literal_comprehensions(tree: ast.Module) -> ast.Module:
    """`[f(x) for x in (a, b)]` -> `[f(a), f(b)]` (single generator over a tuple / list display of at most 4 plain names or constants, no condition)."""
    tree = copy.deepcopy(tree)

    class T(ast.NodeTransformer):
        def _unroll(self, n):
            if len(n.generators) != 1:
                return None
            g = n.generators[0]
            if g.ifs or g.is_async or not isinstance(g.target, ast.Name) or not isinstance(g.iter, (ast.Tuple, ast.List)) or not (1 <= len(g.iter.elts) <= 4):
                return None
            if not all(isinstance(e, (ast.Name, ast.Constant)) for e in g.iter.elts):
                return None
            if any(isinstance(x, (ast.Lambda, ast.ListComp, ast.GeneratorExp, ast.SetComp, ast.DictComp, ast.NamedExpr)) for x in ast.walk(n.elt)):
                return None
            return [_Renamer({g.target.id: e}).visit(copy.deepcopy(n.elt)) for e in g.iter.elts]

        def visit_ListComp(self, n):
            self.generic_visit(n)
            el = self._unroll(n)
            return ast.copy_location(ast.List(elts=el, ctx=ast.Load()), n) if el is not None else n

        def visit_Call(self, n):
            self.generic_visit(n)
            if len(n.args) >= 1 and isinstance(n.args[0], ast.GeneratorExp):
                el = self._unroll(n.args[0])
                if el is not None:
                    n.args[0] = ast.copy_location(ast.List(elts=el, ctx=ast.Load()), n.args[0])
            return n

    tree = T().visit(tree)
    ast.fix_missing_locations(tree)
    return tree


VIEWS = [("inline", [inline_private_helpers, unroll_literal_comprehensions]), ("loops", [unroll_literal_comprehensions, comprehensions_to_loops]),
         ("inline+loops", [inline_private_helpers, unroll_literal_comprehensions, comprehensions_to_loops]),
         ("cfnorm", [control_flow_normal_form]),
         ("comps", [append_loops_to_comprehensions]), ("inline+comps", [inline_private_helpers, unroll_literal_comprehensions, append_loops_to_comprehensions]),
         ("inline+loops+cfnorm", [inline_private_helpers, unroll_literal_comprehensions, comprehensions_to_loops, control_flow_normal_form])]


def view_overlays(sources: dict[str, str], keep: frozenset = frozenset()):
    """sources: {relpath: source}; yields (view name, overlay dict) for every view."""
    # module-level private functions with a package-wide unique name
    seen: dict[str, list] = {}
    for rel, src in sources.items():
        try:
            t = ast.parse(src)
        except SyntaxError:
            continue
        for st in t.body:
            if isinstance(st, ast.FunctionDef) and st.name.startswith("_") and not st.name.startswith("__"):
                seen.setdefault(st.name, []).append(st)
    package_funcs = {k: v[0] for k, v in seen.items() if len(v) == 1}
    # method names defined by more than one class anywhere in the package (possible overriding)
    mcount: dict[str, int] = {}
    for rel, src in sources.items():
        try:
            t = ast.parse(src)
        except SyntaxError:
            continue
        for c in ast.walk(t):
            if isinstance(c, ast.ClassDef):
                for st in c.body:
                    if isinstance(st, ast.FunctionDef):
                        mcount[st.name] = mcount.get(st.name, 0) + 1
    overridden = frozenset(k for k, v in mcount.items() if v > 1)
    for name, fns in VIEWS:
        ov = {}
        for rel, src in sources.items():
            try:
                tree = ast.parse(src)
                for fn in fns:
                    tree = fn(tree, keep, package_funcs, overridden) if fn is inline_private_helpers else fn(tree)
                new = ast.unparse(tree) + "\n"
                compile(new, rel, "exec")
                ov[rel] = new
            except Exception:
                ov[rel] = src
        yield name, ov
