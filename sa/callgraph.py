"""E0 - resolved call graph, dask task-entry discovery and reachability."""
from __future__ import annotations

import ast

from .repo import FuncInfo, Model, calls_in, dotted, norm_src, walk_no_nested

TASK_WRAPPERS = {"delayed", "from_func", "construct_mapping_tasks", "iter_mapping_tasks", "map", "map_overlap", "map_blocks"}


class CallGraph:
    def __init__(self, model: Model):
        self.model = model
        self.edges: dict[FuncInfo, set[FuncInfo]] = {}
        self.precise: dict[FuncInfo, set[FuncInfo]] = {}
        self.n_sites = 0
        self.n_resolved = 0
        self.n_external = 0
        for fn in model.all_functions:
            outs, prec = set(), set()
            for c in calls_in(fn, include_nested=False):
                self.n_sites += 1
                kind, tg = model.resolve_call(fn, c)
                if kind in ("repo", "fallback"):
                    self.n_resolved += 1
                    for t in tg:
                        if not t.is_overload:
                            outs.add(t)
                            if kind == "repo":
                                prec.add(t)
                elif kind == "class":
                    self.n_resolved += 1
                    for ci in tg:
                        for m in ("__init__", "__post_init__"):
                            f = ci.find_method(m)
                            if f is not None:
                                outs.add(f)
                                prec.add(f)
                else:
                    self.n_external += 1
                # functions passed as values (callbacks) are reachable too
                for a in list(c.args) + [k.value for k in c.keywords]:
                    for t in self._func_value(fn, a):
                        outs.add(t)
            # property getters / setters touched through attribute access on self
            if fn.cls is not None:
                for n in walk_no_nested(fn.node):
                    if isinstance(n, ast.Attribute) and isinstance(n.value, ast.Name) and n.value.id == "self":
                        for m in model.resolve_self_method(fn.cls, n.attr):
                            if m.is_property:
                                outs.add(m)
                                prec.add(m)
            # nested defs are reachable from their parent
            for sub in model.all_functions:
                if sub.parent is fn:
                    outs.add(sub)
                    prec.add(sub)
            self.edges[fn] = outs
            self.precise[fn] = prec

    def _local_class(self, fn: FuncInfo, name: str):
        """Class of a local bound by calling a parameter annotated ``type[C]`` (e.g. model = alignment_model(...))."""
        import re
        for n in walk_no_nested(fn.node):
            if isinstance(n, ast.Assign) and any(isinstance(t, ast.Name) and t.id == name for t in n.targets) and isinstance(n.value, ast.Call) \
                    and isinstance(n.value.func, ast.Name):
                for p in fn.params():
                    if p.arg == n.value.func.id and p.annotation is not None:
                        m = re.search(r"type\[([A-Za-z_][A-Za-z0-9_]*)\]", norm_src(p.annotation))
                        if m:
                            r = self.model.resolve_dotted(fn.module, m.group(1))
                            from .repo import ClassInfo
                            if isinstance(r, ClassInfo):
                                return r
        return None

    def _func_value(self, fn: FuncInfo, e: ast.expr) -> list[FuncInfo]:
        if isinstance(e, ast.Attribute) and isinstance(e.value, ast.Name):
            ci = self._local_class(fn, e.value.id)
            if ci is not None:
                ms = self.model.resolve_self_method(ci, e.attr)
                if ms:
                    return [t for t in ms if not t.is_overload]
        if isinstance(e, (ast.Name, ast.Attribute)):
            kind, tg = self.model.resolve_callee(fn, e)
            if kind == "repo":
                return [t for t in tg if not t.is_overload]
            if kind == "fallback" and isinstance(e, ast.Attribute):
                return [t for t in tg if not t.is_overload]
        return []

    # ------------------------------------------------------------------ task entries
    def task_entries(self) -> list[tuple[FuncInfo, ast.Call | None, list[FuncInfo], str]]:
        """(site function, call node, entry functions, how) for every place where a function is handed to dask."""
        out = []
        for fn in self.model.all_functions:
            if fn.has_decorator("delayed"):
                out.append((fn, None, [fn], "@delayed"))
            for c in calls_in(fn):
                name = c.func.attr if isinstance(c.func, ast.Attribute) else (c.func.id if isinstance(c.func, ast.Name) else "")
                if name not in TASK_WRAPPERS or not c.args:
                    continue
                if name == "map" and not (isinstance(c.func, ast.Attribute)):
                    continue
                a0 = c.args[0]
                targets = self._func_value(fn, a0)
                if isinstance(a0, ast.Lambda):
                    targets = []
                    for x in ast.walk(a0.body):
                        if isinstance(x, ast.Call):
                            kind, tg = self.model.resolve_call(fn, x)
                            if kind in ("repo", "fallback"):
                                targets += tg
                if targets or isinstance(a0, (ast.Attribute, ast.Name, ast.Lambda)):
                    out.append((fn, c, targets, f"{name}({norm_src(a0)[:40]})"))
        return out

    def reachable(self, roots, precise_only=False) -> set[FuncInfo]:
        g = self.precise if precise_only else self.edges
        seen = set(roots)
        stack = list(roots)
        while stack:
            f = stack.pop()
            for t in g.get(f, ()):
                if t not in seen:
                    seen.add(t)
                    stack.append(t)
        return seen

    def path(self, roots, target, precise_only=False) -> list[FuncInfo] | None:
        g = self.precise if precise_only else self.edges
        prev = {r: None for r in roots}
        queue = list(roots)
        while queue:
            f = queue.pop(0)
            if f is target:
                out = []
                while f is not None:
                    out.append(f)
                    f = prev[f]
                return list(reversed(out))
            for t in g.get(f, ()):
                if t not in prev:
                    prev[t] = f
                    queue.append(t)
        return None
