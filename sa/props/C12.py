"""C12 - table operations keep a molecule's position, orientation and features together (DESIGN 5, C12)."""
from __future__ import annotations

import ast

from ..cfg import CFG
from ..effects import EffectAnalysis
from ..absint import TOP, Const, Domain, Interp, ListOf, Tup
from ..repo import calls_in, dotted, norm_src, walk_no_nested
from ..match import Matcher, src as msrc
from .common import kwarg, need_funcs
from .C03 import partition_clause

MC = "acryo/molecules/core.py::Molecules."
ANCHORS = [MC + n for n in ("__init__", "features@setter", "subset", "filter", "sort", "head", "tail", "sample", "concat", "concat_with", "append",
                            "with_features", "drop_features", "group_by", "cutby", "to_dataframe", "from_dataframe", "copy", "from_axes")] + \
          ["acryo/molecules/_group.py::MoleculeGroup.__iter__", "acryo/molecules/_cut.py::MoleculeCutGroup.__iter__",
           "acryo/pick/_base.py::BasePickerModel.pick_molecules"]

FIELDS = {"_pos", "_rotator", "_features"}
# field -> methods that may store to it on self (frozen after reading; DESIGN Appendix C, S5)
OWNERS = {
    "_features": {"__init__", "features"},  # features = the validating setter
    "_pos": {"__init__", "translate", "append"},
    "_rotator": {"__init__", "rotate_by", "append"},
}


class _SubsetDom(Domain):
    """Provenance for Molecules.subset: which container is indexed by which selector, and what reaches the constructor."""
    name = "SEL"

    def __init__(self):
        self.n = 0

    def const(self, interp, value, node):
        return Const(value)

    def seed_param(self, interp, fn, arg):
        return ("sym", arg.arg)

    def seed_field(self, interp, obj, name, node):
        if name in ("_pos", "pos"):
            return ("base", "pos")
        if name in ("_features", "features"):
            return ("base", "feat")
        return TOP

    def attr(self, interp, val, name, node):
        if type(val).__name__ == "Obj" and name == "pos":
            return ("base", "pos")
        if type(val).__name__ == "Obj" and name == "features":
            return ("base", "feat")
        return NotImplemented

    def call_repo(self, interp, funcs, bound, args, kwargs, node):
        names = {f.name for f in funcs}
        if names & {"quaternion"}:
            return ("base", "quat")
        if names & {"pos"}:
            return ("base", "pos")
        if names & {"_is_boolean_array"}:
            return TOP
        return NotImplemented

    def call_external(self, interp, name, recv, args, kwargs, node):
        last = (name or "").rsplit(".", 1)[-1]
        if last == "filter" and isinstance(recv, tuple) and recv[:1] == ("base",) and args:
            return ("sel", recv[1], args[0])
        if last == "slice":
            return ("slice",) + tuple(repr(a) for a in args)
        if last == "Rotation" and args:
            return ("rot", args[0])
        return TOP

    def subscript(self, interp, val, index_node, index_val, node):
        if isinstance(val, tuple) and val[:1] == ("base",):
            return ("sel", val[1], index_val)
        return NotImplemented

    def binop(self, interp, op, l, r, node):
        return ("expr", norm_src(node))

    def compare(self, interp, node, vals):
        return TOP

    def truth(self, interp, val):
        return None

    def join(self, interp, a, b):
        return a if a == b else TOP


class _ConcatDom(Domain):
    """Provenance of what Molecules.concat hands to the constructor: per-input field lists concatenated in input order."""
    name = "CAT"

    def __init__(self):
        self.ctor = []

    def const(self, interp, value, node):
        return Const(value)

    def seed_param(self, interp, fn, arg):
        if arg.arg == "moles":
            return ListOf(("elem",))
        if arg.arg == "cls":
            return ("cls",)
        return TOP

    def elem(self, interp, val, node):
        return NotImplemented

    def attr(self, interp, val, name, node):
        if val == ("elem",) and name in ("pos", "_pos"):
            return ("f", "pos")
        if val == ("elem",) and name in ("features", "_features"):
            return ("f", "feat")
        return NotImplemented

    def call_external(self, interp, name, recv, args, kwargs, node):
        last = (name or "").rsplit(".", 1)[-1]
        if recv == ("elem",) and last == "quaternion":
            return ("f", "quat")
        if last == "concatenate" and args and isinstance(args[0], ListOf) and isinstance(args[0].elem, tuple) and args[0].elem[:1] == ("f",):
            ax = kwargs.get("axis")
            return ("cat", args[0].elem[1]) if isinstance(ax, Const) and ax.value == 0 else TOP
        if last == "concat" and args and isinstance(args[0], ListOf) and isinstance(args[0].elem, tuple) and args[0].elem[:1] == ("f",):
            return ("cat", args[0].elem[1])
        if last == "Rotation" and args:
            return ("rot", args[0])
        return TOP

    def call_value(self, interp, callee, args, kwargs, node):
        return NotImplemented

    def join(self, interp, a, b):
        if a == b:
            return a
        if isinstance(a, Const) and a.value is None:
            return b
        if isinstance(b, Const) and b.value is None:
            return a
        return TOP


def lockstep_clause(model, rep, funcs):
    f = funcs.get(MC + "subset")
    if f is not None:
        rep.instance("LOCK", f.loc())
        M = Matcher(f)
        b: dict = {}
        ok, why = M.all_of(["$pos = self.pos[$sel]", "$quat = self.quaternion(canonical=False)[$sel]",
                            "if _is_boolean_array($sel):\n    return self.__class__($pos, Rotation($quat), self._features.filter($sel))",
                            "return self.__class__($pos, Rotation($quat), self._features[$sel])"], b)
        if not ok:
            b = {}
            ok, why = M.all_of(["$pos = self._pos[$sel]", "$quat = self.quaternion(canonical=False)[$sel]",
                                "if _is_boolean_array($sel):\n    return self.__class__($pos, Rotation($quat), self._features.filter($sel))",
                                "return self.__class__($pos, Rotation($quat), self._features[$sel])"], b)
        # every constructor call gets the selected positions and rotations
        ctor = [c for c in calls_in(f) if norm_src(c.func) == "self.__class__"]
        forms = ["self.__class__($pos, Rotation($quat))", "self.__class__($pos, Rotation($quat), self._features.filter($sel))",
                 "self.__class__($pos, Rotation($quat), self._features[$sel])"]
        ctor_ok = bool(ok) and len(ctor) == sum(M.count(fm, b) for fm in forms)
        if ok and not ctor_ok:
            why = "a constructor call in subset does not take positions, rotations and features through the same selector"
        if not (ok and ctor_ok):
            # decided semantically: on every path the constructor receives pos[s], Rotation(quat[s]) and, when there are features, features[s] / features.filter(s)
            sd = _SubsetDom()
            it_s = Interp(model, sd, depth=0)
            ctor_args = []

            def _oc2(interp, fn, node, callee, args, kwargs, env):
                if norm_src(node.func) == "self.__class__":
                    ctor_args.append((args, kwargs))

            it_s.on_call.append(_oc2)
            it_s.run(f)
            good = bool(ctor_args)
            for args_, kw_ in ctor_args:
                # positional or keyword (Molecules.__init__(pos, rot, features))
                a0 = args_[0] if args_ else kw_.get("pos")
                a1 = args_[1] if len(args_) > 1 else kw_.get("rot")
                a2 = args_[2] if len(args_) > 2 else kw_.get("features")
                if not isinstance(a0, tuple):
                    good = False
                    continue
                if not (isinstance(a0, tuple) and a0[:2] == ("sel", "pos") and isinstance(a1, tuple) and a1[:1] == ("rot",) and isinstance(a1[1], tuple) and
                        a1[1][:2] == ("sel", "quat") and a1[1][2] == a0[2]):
                    good = False
                if a2 is not None and not (isinstance(a2, Const) and a2.value is None) and not (isinstance(a2, tuple) and a2[:2] == ("sel", "feat") and a2[2] == a0[2]):
                    good = False
            if good and any((len(a_) > 2 or "features" in k_) for a_, k_ in ctor_args):
                ok, ctor_ok, why = True, True, ""
        rep.ob("LOCK", f.anchor, "subset applies one selector to positions, quaternions and features (index or boolean filter) and rebuilds from exactly those",
               bool(ok and ctor_ok), why or f"constructor calls built from the selected rows: {ctor_ok}", node=f.node, fn=f,
               clause="1 lock-step", stmt="def subset")
        # integer index guards
        raises = [n for n in walk_no_nested(f.node) if isinstance(n, ast.Raise)]
        rep.ob("GUARD", f.anchor, "integer selectors are range-checked (negative / out of range rejected)", len(raises) >= 2, f"{len(raises)} guard(s)", node=f.node,
               fn=f, clause="3 guards", stmt="def subset guards")
    for name, op in (("filter", "filter"), ("head", "head"), ("tail", "tail"), ("sample", "sample"), ("sort", "sort")):
        f = funcs.get(MC + name)
        if f is None:
            continue
        rep.instance("LOCK", f.loc())
        rets = [r for r in walk_no_nested(f.node) if isinstance(r, ast.Return) and r.value is not None]
        ok = False
        det = ""
        assigns = {norm_src(n.targets[0]): n.value for n in walk_no_nested(f.node) if isinstance(n, ast.Assign)}
        ML = Matcher(f)
        for r in rets:
            c = ML.expr(r.value)  # temporaries expanded: `df = self.to_dataframe(); out = cls.from_dataframe(df.head(n)); return out` is one expression
            if isinstance(c, ast.Call) and norm_src(c.func).endswith("from_dataframe") and len(c.args) == 1:
                a = c.args[0]
                det = norm_src(a)[:80]
                if isinstance(a, ast.Call) and isinstance(a.func, ast.Attribute) and a.func.attr == op:
                    base = a.func.value
                    if isinstance(base, ast.Name):  # not expanded inside a call with starred arguments
                        base = ML.expr(assigns.get(base.id, base))
                    ok = norm_src(base) == "self.to_dataframe()"
                    params = f.param_names()[1:]
                    used = {x.id for x in ast.walk(a) if isinstance(x, ast.Name)}
                    star = {f.node.args.vararg.arg} if f.node.args.vararg else set()
                    if not set(params) | star <= used | {"self"}:
                        ok = False
                        det += f" (parameters {params} not all forwarded)"
        rep.ob("LOCK", f.anchor, f"{name} = from_dataframe(to_dataframe().{op}(<same arguments>)): rows of the single table move together", ok, det, node=f.node,
               fn=f, clause="1 lock-step", stmt=f"def {name}")
    # concatenations: same operand order in all three containers
    f = funcs.get(MC + "concat")
    if f is not None:
        rep.instance("LOCK", f.loc())
        M = Matcher(f)
        ok, why = M.all_of(["for $m in moles:\n    $pos.append($m.pos)\n    $quat.append($m.quaternion())\n    $feat.append($m.features)",
                            "$ap = np.concatenate($pos, axis=0)", "$aq = np.concatenate($quat, axis=0)", "$af = pl.concat($feat, how=$$how)",
                            "return cls($ap, Rotation($aq), features=$af)"])
        def _regroup(sink):
            undecided_ = None
            # a list handed to concatenate / pl.concat is the list collected from the inputs, not a re-bound one: regrouping one of the three lists (e.g. stacking the frames
            # that share a schema first) changes its row order while the other two keep the input order (seeded change C12-16)
            cat_names = {a_.id for c_ in calls_in(f) if (dotted(c_.func) or "") in ("np.concatenate", "pl.concat", "numpy.concatenate", "polars.concat") and c_.args
                         for a_ in [c_.args[0]] if isinstance(a_, ast.Name)}
            inputs_ = {"moles", "list(moles)", "tuple(moles)"}
            for st in ast.walk(f.node):  # locals bound to the materialised input sequence
                if isinstance(st, ast.Assign) and len(st.targets) == 1 and isinstance(st.targets[0], ast.Name) and norm_src(st.value) in ("moles", "list(moles)", "tuple(moles)"):
                    inputs_ |= {st.targets[0].id}
            for nm_ in sorted(cat_names):
                binds = [st for st in ast.walk(f.node) if isinstance(st, (ast.Assign, ast.AnnAssign)) and st.value is not None and
                         any(isinstance(t, ast.Name) and t.id == nm_ for t in (st.targets if isinstance(st, ast.Assign) else [st.target]))]
                for st in binds:
                    v_ = st.value
                    if isinstance(v_, ast.List) and not v_.elts or (isinstance(v_, ast.Call) and dotted(v_.func) == "list" and not v_.args):
                        continue
                    comp_over_moles = isinstance(v_, ast.ListComp) and len(v_.generators) == 1 and not v_.generators[0].ifs and norm_src(v_.generators[0].iter) in inputs_
                    if comp_over_moles:
                        continue
                    src_ = norm_src(v_)
                    if any(k in src_ for k in (".values()", ".items()", "groupby", "sorted(", "reversed(", "set(")):
                        sink.append(("regrouped", f"{nm_} = {src_[:80]}"))
                    else:
                        undecided_ = f"`{nm_} = {src_[:70]}` re-binds a list that is concatenated: cannot establish that it keeps one entry per input in input order"
                # the same in loop form: every loop that appends to a concatenated list runs over the inputs
                for lp in ast.walk(f.node):
                    if isinstance(lp, ast.For) and any(isinstance(c_, ast.Call) and isinstance(c_.func, ast.Attribute) and c_.func.attr == "append" and
                                                       isinstance(c_.func.value, ast.Name) and c_.func.value.id == nm_ for c_ in ast.walk(lp)):
                        src_ = norm_src(lp.iter)
                        if src_ in inputs_:
                            continue
                        if any(k in src_ for k in (".values()", ".items()", "groupby", "sorted(", "reversed(", "set(")):
                            sink.append(("regrouped", f"for ... in {src_[:60]}: {nm_}.append(...)"))
                        else:
                            undecided_ = f"`for ... in {src_[:60]}` fills `{nm_}`, a list that is concatenated: cannot establish one entry per input in input order"
            return undecided_

        if ok:
            sink_: list = []
            u_ = _regroup(sink_)
            if sink_:
                ok, why = False, f"{sink_[0]!r}: one of the three concatenated lists is regrouped while the other two keep the input order"
            elif u_ is not None:
                ok, why = None, u_
        elif not ok:
            # the same rule decided semantically: what reaches the constructor, whatever loop / comprehension builds the three lists
            dom = _ConcatDom()
            it_ = Interp(model, dom, depth=0)

            def _oc(interp, fn, node, callee, args, kwargs, env, _d=dom):
                nm_ = getattr(callee, "name", "") or ""
                if isinstance(node.func, ast.Attribute) and node.func.attr in ("insert", "reverse", "sort", "appendleft", "pop", "remove") or nm_.endswith(("reversed", "sorted")):
                    _d.ctor.append(("reordered", norm_src(node)))  # the abstraction of lists is order-blind: any re-ordering operation is not accepted
                if type(callee).__name__ == "ClassRef" or callee == ("cls",):
                    feat = kwargs.get("features", args[2] if len(args) > 2 else None)
                    _d.ctor.append((args[0] if args else None, args[1] if len(args) > 1 else None, None if isinstance(feat, Const) and feat.value is None else feat))

            it_.on_call.append(_oc)
            it_.run(f)
            for c_ in calls_in(f):  # list mutators are interpreted as statements, not calls: look for re-ordering operations in the source as well
                if (isinstance(c_.func, ast.Attribute) and c_.func.attr in ("insert", "reverse", "sort", "appendleft", "pop", "remove")) or \
                        (dotted(c_.func) or "") in ("reversed", "sorted"):
                    dom.ctor.append(("reordered", norm_src(c_)))
            undecided_ = _regroup(dom.ctor)
            if dom.ctor and all(c == (("cat", "pos"), ("rot", ("cat", "quat")), ("cat", "feat")) or c == (("cat", "pos"), ("rot", ("cat", "quat")), None) for c in dom.ctor):
                ok, why = (True, "") if undecided_ is None else (None, undecided_)
            elif dom.ctor:
                why = f"the constructor receives {dom.ctor[0]!r}"
        rep.ob("LOCK", f.anchor, "concat collects position, quaternion and features of each input in one loop and concatenates the three lists in that order",
               ok, why, node=f.node, fn=f, clause="1 lock-step", stmt="def concat")
    for name in ("concat_with", "append"):
        f = funcs.get(MC + name)
        if f is None:
            continue
        rep.instance("LOCK", f.loc())
        cats = [c for c in calls_in(f) if (dotted(c.func) or "") in ("np.concatenate", "pl.concat") and c.args and isinstance(c.args[0], ast.List)]
        orders = []
        MCW = Matcher(f)
        for c in cats:
            els = [norm_src(MCW.expr(e)) for e in c.args[0].elts]  # `feat_self = self.features` ... `[feat_self, feat_other]` is `[self.features, other.features]`
            orders.append(tuple("self" if e.startswith("self") else "other" if e.startswith("other") else "?" for e in els))
        ok = len(cats) == 3 and all(o == ("self", "other") for o in orders)
        kinds = [norm_src(MCW.expr(c.args[0].elts[0])).split(".", 1)[1] if "." in norm_src(MCW.expr(c.args[0].elts[0])) else "" for c in cats]
        ok = ok and sorted(kinds) == sorted(["pos", "quaternion()", "features"])
        rep.ob("LOCK", f.anchor, f"{name} concatenates positions, quaternions and features with the same operand order (self, other)", ok,
               f"orders {orders}, parts {kinds}", node=f.node, fn=f, clause="1 lock-step", stmt=f"def {name} order")
    for name, attr in (("with_features", "with_columns"), ("drop_features", "drop")):
        f = funcs.get(MC + name)
        if f is None:
            continue
        rep.instance("LOCK", f.loc())
        c = [x for x in calls_in(f) if norm_src(x.func) == "self.__class__"]
        # the constructor call as parameter -> argument bindings (positional or keyword), temporaries expanded
        MWF = Matcher(f)
        ok = len(c) == 1 and any(MWF.has(p_) for p_ in (f"self.__class__(self.pos, self.rotator, features=self.features.{attr}(...))",
                                                        f"self.__class__(pos=self.pos, rot=self.rotator, features=self.features.{attr}(...))",
                                                        f"self.__class__(self.pos, rot=self.rotator, features=self.features.{attr}(...))"))
        rep.ob("LOCK", f.anchor, f"{name} keeps positions and rotations and only replaces the feature table (same row count enforced by the constructor)", ok, "",
               node=f.node, fn=f, clause="1 lock-step", stmt=f"def {name}")
    for a, drop in (("acryo/molecules/_group.py::MoleculeGroup.__iter__", False), ("acryo/molecules/_cut.py::MoleculeCutGroup.__iter__", True)):
        f = funcs.get(a)
        if f is None:
            continue
        rep.instance("LOCK", f.loc())
        loops = [lp for lp in walk_no_nested(f.node) if isinstance(lp, ast.For)]
        ok = len(loops) == 1 and norm_src(loops[0].iter) == "self._group" and isinstance(loops[0].target, ast.Tuple)
        if ok:
            dfv = norm_src(loops[0].target.elts[1])
            fd = [c for c in ast.walk(loops[0]) if isinstance(c, ast.Call) and norm_src(c.func).endswith("from_dataframe")]
            ok = len(fd) == 1 and (norm_src(fd[0].args[0]) == dfv or (drop and norm_src(fd[0].args[0]) == f"{dfv}.drop(self._label)"))
            ys = [y for y in ast.walk(loops[0]) if isinstance(y, ast.Yield)]
            ok = ok and len(ys) == 1
        rep.ob("LOCK", a, "each group is rebuilt from that group's own rows of the single table", ok, "", node=f.node, fn=f, clause="1 lock-step",
               stmt="group __iter__")


def ownership_clause(model, rep, funcs):
    mol = model.cls("acryo/molecules/core.py::Molecules")
    n = 0
    for fn in model.all_functions:
        for node in walk_no_nested(fn.node):
            tgts = []
            if isinstance(node, ast.Assign):
                tgts = node.targets
            elif isinstance(node, (ast.AugAssign, ast.AnnAssign)):
                tgts = [node.target]
            for t in tgts:
                for x in ast.walk(t) if isinstance(t, (ast.Tuple, ast.List)) else [t]:
                    if isinstance(x, ast.Attribute) and x.attr in FIELDS:
                        owner_is_mol = fn.cls is not None and fn.cls.is_subclass_of(mol) and norm_src(x.value) == "self"
                        if not owner_is_mol and not ("mol" in norm_src(x.value).lower() or norm_src(x.value) in ("out", "self")):
                            continue
                        if fn.cls is not None and not fn.cls.is_subclass_of(mol) and norm_src(x.value) == "self":
                            continue  # a field of the same name on another class (e.g. loaders' _molecules are different fields)
                        n += 1
                        rep.instance("S5", fn.loc(node))
                        if owner_is_mol:
                            ok = fn.name in OWNERS[x.attr]
                            det = f"`{norm_src(node)[:60]}` in {fn.short}; allowed writers of {x.attr}: {sorted(OWNERS[x.attr])}"
                            if x.attr == "_features" and fn.name == "features" and not fn.is_setter:
                                ok = False
                            rep.ob("S5", fn.anchor, f"Molecules.{x.attr} is written only by its owners (the validating setter / constructor / documented in-place methods)",
                                   ok, det, node=node, fn=fn, clause="2 ownership")
                        else:
                            # external write: only on an object created in the same function
                            base = norm_src(x.value)
                            fresh = any(isinstance(s, ast.Assign) and norm_src(s.targets[0]) == base and isinstance(s.value, ast.Call) and
                                        ("Molecules" in norm_src(s.value.func) or norm_src(s.value.func).endswith((".concat", ".copy", "to_molecules", "__class__")))
                                        for s in walk_no_nested(fn.node))
                            rep.ob("S5", fn.anchor, f"external store to Molecules.{x.attr} only on an object created in the same function", fresh,
                                   f"`{norm_src(node)[:70]}`", node=node, fn=fn, clause="2 ownership")
    rep.floor("S5", 7, "(stores to _pos/_rotator/_features)")


def to_dataframe_guard_obligation(rep, f, clause="3 guards"):
    """Feature names that collide with the coordinate columns are rejected before the table is assembled (with_columns replaces a same-named column: a guard placed
    after the merge can never fire and the feature silently overwrites a coordinate)."""
    rep.instance("GUARD", f.loc())
    cfg = CFG(f.node)
    builds = [n for n in cfg.nodes if n.kind == "stmt" and any(isinstance(c, ast.Call) and (dotted(c.func) or "").endswith("DataFrame") for c in ast.walk(n.node))]

    MGD = Matcher(f)

    def is_dup_guard(c):
        # the test is (a name bound to) the intersection of the feature names with _CSV_COLUMNS, and the true branch raises
        if c.kind != "test":
            return False
        t = c.node.test
        neg = False
        while isinstance(t, ast.UnaryOp) and isinstance(t.op, ast.Not):
            t, neg = t.operand, not neg
        if isinstance(t, ast.NamedExpr):
            t = t.value
        tx = norm_src(MGD.expr(t))
        if "intersection(_CSV_COLUMNS)" not in tx and "& set(_CSV_COLUMNS)" not in tx:
            return False
        branch = c.node.orelse if neg else c.node.body
        rest = []
        if neg and not c.node.orelse:
            # `if not dup: return` followed by the raise
            body_ = f.node.body
            rest = body_[body_.index(c.node) + 1:] if c.node in body_ else []
            return bool(rest) and isinstance(rest[0], ast.Raise)
        return any(isinstance(x, ast.Raise) for st in branch for x in ast.walk(st))

    ok = bool(builds) and all(cfg.must_pass_through(n, is_dup_guard) for n in builds)
    rep.ob("GUARD", f.anchor, "feature names colliding with the coordinate columns are rejected before the table is built", ok, "", node=f.node, fn=f,
           clause=clause, stmt="def to_dataframe guard")


def guards_clause(model, rep, funcs):
    # length check dominates the store in the features setter
    f = funcs.get(MC + "features@setter")
    if f is not None:
        cfg = CFG(f.node)
        for n in cfg.nodes:
            if n.kind == "stmt" and isinstance(n.node, ast.Assign) and norm_src(n.node.targets[0]) == "self._features" and not (
                    isinstance(n.node.value, ast.Constant) and n.node.value.value is None):
                rep.instance("GUARD", f.loc(n.node))

                MLG = Matcher(f)

                def is_len_guard(c):
                    # `<row count of the table> != <number of molecules>` with the true branch raising; both sides with temporaries expanded
                    if c.kind != "test" or not any(isinstance(x, ast.Raise) for st in c.node.body for x in ast.walk(st)):
                        return False
                    t = MLG.expr(c.node.test)
                    if not (isinstance(t, ast.Compare) and len(t.ops) == 1 and isinstance(t.ops[0], ast.NotEq)):
                        return False
                    sides = [norm_src(t.left).replace(" ", ""), norm_src(t.comparators[0]).replace(" ", "")]
                    rows = lambda s_: s_.startswith("len(") and "pos" not in s_ or s_.endswith(".height") or (s_.endswith(".shape[0]") and "pos" not in s_)
                    mols = lambda s_: s_ in ("self.pos.shape[0]", "self._pos.shape[0]", "len(self.pos)", "len(self._pos)", "self.count()", "len(self)")
                    return (rows(sides[0]) and mols(sides[1])) or (rows(sides[1]) and mols(sides[0]))
                ok = cfg.must_pass_through(n, is_len_guard)
                rep.ob("GUARD", f.anchor, "a feature table is stored only after its length was compared with the number of positions (mismatch raises)", ok,
                       f"`{norm_src(n.node)}` reachable without the length guard", node=n.node, fn=f, clause="3 guards")
    f = funcs.get(MC + "features@setter")
    if f is not None:
        # the only inputs stored as "no features" are None and the table without any column
        MS = Matcher(f)
        allowed = ["value is None", "$df.shape == (0, 0)", "len($df.columns) == 0", "$df.width == 0"]
        drops = []
        for n in ast.walk(f.node):
            if isinstance(n, ast.If) and any(isinstance(x, ast.Assign) and norm_src(x.targets[0]) == "self._features" and isinstance(x.value, ast.Constant) and
                                             x.value.value is None for x in n.body):
                drops.append(n)
        rep.instance("GUARD", f.loc())
        badd = [n for n in drops if not any(MS.find(pat, within=n.test) for pat in allowed)]
        rep.ob("GUARD", f.anchor, "a feature table is discarded (stored as None) only when it is None or has no columns at all; every other table goes through the length check",
               bool(drops) and not badd, "; ".join(f"`if {norm_src(n.test)}` drops the table and skips the length check (a 0-row table with columns is accepted for N > 0 "
                                                  f"molecules and loses its columns)" for n in badd), node=(badd[0] if badd else f.node), fn=f, clause="3 guards",
               stmt="features setter bypass")
    f = funcs.get(MC + "__init__")
    if f is not None:
        s = norm_src(f.node)
        rep.instance("GUARD", f.loc())
        M = Matcher(f)
        b = {}
        ok = M.all_of(["$p = np.atleast_2d(pos).astype($$t)", "if $p.shape[1] != 3:\n    raise $$_", "$n = $p.shape[0]", "self._pos = $p", "self._rotator = rot",
                       "self.features = features"], b)[0] and \
            (M.has("if $n > 0 and $n != len(rot):\n    raise $$_", b) or M.has("if $n != len(rot):\n    raise $$_", b)) and s.count("raise") >= 3
        rep.ob("GUARD", f.anchor, "the constructor rejects (N,3)-violating positions and rotation-count mismatch and routes features through the validating setter",
               ok, "", node=f.node, fn=f, clause="3 guards", stmt="def __init__ guards")
    f = funcs.get(MC + "to_dataframe")
    if f is not None:
        to_dataframe_guard_obligation(rep, f)
    f = funcs.get(MC + "from_axes")
    if f is not None:
        rep.instance("GUARD", f.loc())
        ok = "!= 2" in norm_src(f.node) and "raise TypeError" in norm_src(f.node)
        rep.ob("GUARD", f.anchor, "from_axes requires exactly two of the three axes", ok, "", node=f.node, fn=f, clause="3 guards", stmt="def from_axes guard")
    # append: validates before it mutates, and stores features through the validating path
    f = funcs.get(MC + "append")
    if f is not None:
        cfg = CFG(f.node)
        rep.instance("GUARD", f.loc())
        stores = [n for n in cfg.nodes if n.kind == "stmt" and isinstance(n.node, ast.Assign) and norm_src(n.node.targets[0]) in ("self._pos", "self._rotator", "self._features", "self.features")]
        raises_after = False
        first_store = min((n.lineno for n in stores), default=10**9)
        for n in cfg.nodes:
            if n.kind == "stmt" and isinstance(n.node, ast.Raise) and n.lineno > first_store:
                raises_after = True
        uses_setter = any(norm_src(n.node.targets[0]) == "self.features" for n in stores)
        direct = [n for n in stores if norm_src(n.node.targets[0]) == "self._features"]
        MAP_ = Matcher(f)

        def _len_test(c):
            # a raising test that compares the row count of the feature table with the number of positions (temporaries expanded)
            if c.kind != "test" or not any(isinstance(x, ast.Raise) for st in c.node.body for x in ast.walk(st)):
                return False
            t = norm_src(MAP_.expr(c.node.test))
            return "len(" in t and "pos" in t

        lenguard = any(_len_test(c) for c in cfg.nodes)
        ok = (uses_setter or (direct and lenguard)) and lenguard and not raises_after
        det = []
        if direct and not lenguard:
            det.append("`self._features = feat` bypasses the length validation: appending molecules whose feature table has a different number of rows "
                       "(e.g. no features) leaves positions and features with different lengths")
        if not lenguard:
            det.append("no feature-length check before the in-place update")
        if raises_after:
            det.append("a guard can still raise after self was partially updated")
        rep.ob("GUARD", f.anchor, "append checks that the combined feature table has one row per combined position before it mutates self", ok, "; ".join(det),
               node=(direct[0].node if direct else f.node), fn=f, clause="3 guards", stmt=("self._features = feat" if direct and not lenguard else "def append guards"))
        extra = Matcher(f).all_of(["$feat = pl.concat([self.features, other.features], how='diagonal')",
                                   "if len($feat.columns) != len(self.features.columns):\n    ...", "self.features = $feat"])[0] and "raise ValueError" in norm_src(f.node)
        rep.ob("GUARD", f.anchor, "append rejects molecules that bring extra feature columns", extra, "", node=f.node, fn=f, clause="3 guards",
               stmt="def append extra columns")


def purity_clause(model, rep, funcs):
    ea = EffectAnalysis(model)
    pure = ["subset", "filter", "sort", "head", "tail", "sample", "concat_with", "with_features", "drop_features", "group_by", "cutby", "to_dataframe", "copy",
            "affine_matrix", "local_coordinates", "matrix", "euler_angle", "quaternion", "rotvec", "to_csv", "to_parquet", "to_file", "count",
            "rotate_by_rotvec_internal", "translate_internal", "linear_transform", "rotate_random", "translate_random"]
    for name in pure:
        try:
            f = model.func(MC + name)
        except Exception as e:
            rep.error(f"anchor vanished: {e}")
            continue
        rep.instance("S18", f.anchor)
        effs = [e for e in ea.summary(f).effects if e.kind in ("store", "mutate") and (e.root == "self" or e.root.startswith("param:"))]
        rep.ob("S18", f.anchor, "non-mutating table operation writes nothing to self or to its arguments (its own body)", not effs,
               "; ".join(e.describe() for e in effs[:2]), node=(effs[0].node if effs else f.node), fn=f, clause="4 purity",
               stmt=(None if effs else f"def {name} pure"))


def filter_paths_clause(model, rep, funcs):
    """Molecules.filter selects rows with polars' own filter on the assembled table, for every kind of predicate the signature admits (expression, column name,
    boolean Series with nulls, list, array): a null is "not selected" there.  Every returning path must hand the predicate to `DataFrame.filter`; a side path that
    converts the predicate itself (`np.asarray(predicate)`) has other semantics for nulls and non-boolean input."""
    f = funcs.get(MC + "filter")
    if f is None:
        return
    M = Matcher(f)
    pn = f.param_names()[1] if len(f.param_names()) > 1 else "predicate"
    rets = [r for r in walk_no_nested(f.node) if isinstance(r, ast.Return) and r.value is not None]
    for r in rets:
        rep.instance("SLOT.filter", f.loc(r))
        ex = M.expr(r.value)
        through = any(isinstance(c, ast.Call) and isinstance(c.func, ast.Attribute) and c.func.attr == "filter" and
                      any(isinstance(x, ast.Name) and x.id == pn for a_ in list(c.args) + [k.value for k in c.keywords] for x in ast.walk(a_)) for c in ast.walk(ex))
        rep.ob("SLOT", f.anchor, "every path of filter() selects the rows with DataFrame.filter(predicate)", through,
               f"`{norm_src(r)[:70]}` does not pass `{pn}` through DataFrame.filter: nulls in a boolean mask and non-boolean input are treated differently on this path",
               node=r, fn=f, clause="features")


def helper_column_clause(model, rep):
    """TMPCOL.  A helper column that a Molecules method adds next to the user's feature columns (`expr.alias(name)` then `with_columns`) must have a name no user
    feature carries: polars replaces an existing column of that name, so the user's feature would be overwritten (and dropped with the helper afterwards).  A fixed
    name therefore needs a freshness guard on the frame's columns (a `while name in ....columns` loop, or a rejecting test)."""
    n = 0
    for fn in model.all_functions:
        if not fn.module.relpath.startswith("acryo/molecules/") or fn.parent is not None:
            continue
        for c in ast.walk(fn.node):
            if not (isinstance(c, ast.Call) and isinstance(c.func, ast.Attribute) and c.func.attr == "alias" and len(c.args) == 1):
                continue
            x = c.args[0]
            fixed = isinstance(x, ast.Constant) and isinstance(x.value, str)
            var = x.id if isinstance(x, ast.Name) else None
            if var is not None:
                defs = [st.value for st in ast.walk(fn.node) if isinstance(st, ast.Assign) and any(isinstance(t, ast.Name) and t.id == var for t in st.targets)]
                fixed = any(isinstance(d, ast.Constant) and isinstance(d.value, str) for d in defs)
                if var in fn.param_names():
                    continue  # the caller chose the name
            if not fixed:
                continue
            n += 1
            rep.instance("TMPCOL", fn.loc(c))
            guard = False
            if var is not None:
                for g in ast.walk(fn.node):
                    if isinstance(g, (ast.While, ast.If)) and getattr(g, "lineno", 0) < getattr(c, "lineno", 0):
                        t = norm_src(g.test) + " " + norm_src(Matcher(fn).expr(g.test, keep=(var,)))
                        if var in t and ".columns" in t and (" in " in t):
                            if isinstance(g, ast.While) or any(isinstance(y, ast.Raise) for st in g.body for y in ast.walk(st)):
                                guard = True
            rep.ob("TMPCOL", fn.anchor, "a helper column gets a name that no user feature carries (freshness loop / rejecting test on the frame's columns)", guard,
                   f"`{norm_src(c)[:70]}` uses the fixed name {norm_src(x) if var is None else var + ' = ' + norm_src([d for d in defs if isinstance(d, ast.Constant)][0])}"
                   f" without looking at the existing columns: a user feature of that name is overwritten", node=c, fn=fn, clause="features")
    rep.floor("TMPCOL", 1, "(cutby adds the bin label next to the features)")


def check(model, rep, tier):
    rep.decided += ["C12.1 one selector / one table for positions, orientations and features in every row-returning method; same operand order in concatenations",
                    "C12.2 _pos/_rotator/_features are written only by their owners", "C12.3 validation guards dominate the stores they protect",
                    "C12.4 non-mutating methods are pure; group_by keeps order"]
    rep.not_decided += ["polars semantics (filter/sort/group_by/concat)", "dtype preservation"]
    funcs = need_funcs(model, rep, ANCHORS)
    lockstep_clause(model, rep, funcs)
    ownership_clause(model, rep, funcs)
    guards_clause(model, rep, funcs)
    purity_clause(model, rep, funcs)
    helper_column_clause(model, rep)
    filter_paths_clause(model, rep, funcs)
    partition_clause(model, rep, {"acryo/loader/_group.py::LoaderGroupByIterator.__iter__": None})
