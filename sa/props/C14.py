"""C14 - simulated tomograms contain the template at the requested poses (DESIGN 5, C14)."""
from __future__ import annotations

import ast
from fractions import Fraction

from ..absint import TOP, Const, ExtRef, FuncRef, Interp, ListOf, Obj, Tup
from ..domains.affine import A, Poly, mkA
from ..domains.arrays import ArrayDomain, Vec3
from ..domains.frames import FramesDomain, Rot
from ..domains.units import PX, UnitsDomain
from ..repo import calls_in, dotted, norm_src, walk_no_nested
from ..match import Matcher, src as msrc
from .common import consumed_after_loop_obligations,  kwarg, need_funcs
from .C03 import local_assignments

S = "acryo/simulator.py::"
ANCHORS = [S + "TomogramSimulator." + n for n in ("_simulate", "_simulate_with_color", "simulate_2d", "simulate_projection", "simulate_tilt_series", "_get_image")] + \
          [S + n for n in ("_prep_iterators", "_compose_affine_matrices", "_prep_slices", "_simulate_one", "_simulate_color_one", "_simulate_2d_one",
                           "_simulate_projection_one")] + ["acryo/_utils.py::make_slice_and_pad"]


class PlaceDomain(ArrayDomain):
    """Affine domain with the few seeds the placement identity needs."""

    def attr(self, interp, val, name, node):
        if isinstance(val, Obj) and val.cls.name == "Molecules" and name == "pos":
            return self.sym("pos")
        return super().attr(interp, val, name, node)

    def seed_field(self, interp, obj, name, node):
        if name in ("pos", "_pos"):
            return self.sym("pos")
        if name in ("rotator", "_rotator"):
            return ExtRef("rotation")
        return TOP

    def call_repo(self, interp, funcs, bound, args, kwargs, node):
        if {f.name for f in funcs} == {"_compose_affine_matrices"}:
            return ("mtx", args, kwargs)
        return super().call_repo(interp, funcs, bound, args, kwargs, node)


def placement_clause(model, rep, funcs):
    f = funcs.get(S + "_prep_iterators")
    if f is not None:
        for parity in ("even", "odd"):
            dom = PlaceDomain(model, integer_syms={"k"}, positive_syms={"k", "scale"}, nonneg_syms={"pos"})
            it = Interp(model, dom, depth=1)
            k = dom.sym("k")
            n = dom.add(k, k) if parity == "even" else dom.add(dom.add(k, k), mkA(1))
            mol = Obj(model.cls("acryo/molecules/core.py::Molecules"))
            out = it.run(f, args={"mol": mol, "shape": n, "scale": dom.sym("scale")})
            rep.instance("A.place", f"{f.loc()} {parity}")
            if not (isinstance(out, Tup) and len(out.items) == 3 and isinstance(out.items[0], A) and isinstance(out.items[2], tuple)):
                rep.ob("A", f.anchor, f"placement forms evaluated ({parity} box)", None, f"got {out!r}"[:200], node=f.node, fn=f, clause="1 placement",
                       stmt=f"def _prep_iterators #{parity}")
                continue
            starts, stops, (_, margs, mkw) = out.items
            oc = mkw.get("output_center", margs[2] if len(margs) > 2 else None)
            oc = dom.lift(oc) if oc is not None else None
            p = dom.div(dom.sym("pos"), dom.sym("scale"))
            if oc is None:
                rep.ob("A", f.anchor, f"output_center handed to the matrix builder evaluated ({parity} box)", None, "", node=f.node, fn=f, clause="1 placement",
                       stmt=f"def _prep_iterators oc #{parity}")
                continue
            diff = dom.add(dom.add(starts, oc), dom.neg(p))
            ok = diff.equals(mkA(0))
            det = ""
            if not ok:
                w = None
                for kv in (1, 2, 3):
                    for pv in (Fraction(21, 2), Fraction(10), Fraction(37, 5), Fraction(-1, 2), Fraction(-37, 5)):  # molecules may straddle the low face
                        v = dom.eval_form(diff, {"k": Fraction(kv), "pos": pv, "scale": Fraction(1)})
                        if v is not None and v != 0:
                            w = (kv, pv, v)
                            break
                    if w:
                        break
                if w:
                    ok = False
                    det = (f"start + output_center - pos/scale = {diff!r}: for a box of {2 * w[0] if parity == 'even' else 2 * w[0] + 1} voxels at position {float(w[1])} "
                           f"the template centre lands {float(w[2])} px away from the molecule")
                else:
                    ok = None
                    det = f"residual form {diff!r} not identically zero, no witness found"
            rep.ob("A", f.anchor, f"template centre lands on the molecule: start + output_center == pos/scale ({parity} box sizes)", ok, det, node=f.node, fn=f,
                   clause="1 placement", stmt=f"def _prep_iterators #{parity}")
            ln = dom.add(stops, dom.neg(starts))
            rep.ob("A", f.anchor, f"output region has the template's size: stop - start == shape ({parity})", ln.equals(n), f"{ln!r}", node=f.node, fn=f,
                   clause="1 placement", stmt=f"def _prep_iterators len #{parity}")
            c_in = dom.lift(margs[0]) if margs else None
            want_c = dom.div(dom.add(n, mkA(-1)), mkA(2))
            rep.ob("A", f.anchor, f"rotation centre in the template is (shape - 1)/2 ({parity})", c_in.equals(want_c) if c_in is not None else None, f"{c_in!r}",
                   node=f.node, fn=f, clause="1 placement", stmt=f"def _prep_iterators centre #{parity}")
    # units: pos / scale
    if f is not None:
        udom = UnitsDomain(model)
        it = Interp(model, udom, depth=0)
        seen = []

        MU = Matcher(f)
        pm = [x for x in MU.find("$ip = $pos.astype(np.int32)") if isinstance(x[1]["pos"][1], ast.Name) and ".pos" in msrc(MU._exp.canon(x[1]["pos"][1]))]
        pname = msrc(pm[0][1]["pos"][1]) if pm and isinstance(pm[0][1]["pos"][1], ast.Name) else None

        def on_stmt(interp, fn, st, env):
            if fn is f and pm and st is pm[0][0]:
                seen.append(env.get(pname))

        it.on_stmt.append(on_stmt)
        it.run(f)
        u = udom._lift(seen[0]) if seen else None
        rep.instance("U", f.loc())
        rep.ob("U", f.anchor, "molecule positions are converted to pixels (pos / scale) before they are split into integer start and residue",
               u.fits(frozenset({PX})) if u is not None else None, f"pos is {u!r}", node=f.node, fn=f, clause="1 placement", stmt="def _prep_iterators units")
    # simulate_2d: the virtual z extent handed to the worker is in pixels
    f2 = funcs.get(S + "TomogramSimulator.simulate_2d")
    if f2 is not None:
        udom = UnitsDomain(model)
        it = Interp(model, udom, depth=0)
        got2 = []

        def on_call2(interp, fn, node, callee, args, kwargs, env):
            if fn is f2 and isinstance(node.func, ast.Attribute) and node.func.attr == "add_task" and len(args) >= 5:
                got2.append(args[4])

        it.on_call.append(on_call2)
        it.run(f2)
        rep.instance("U", f2.loc())
        u = udom._lift(got2[0]) if got2 else None
        clash = [msg for kind, fn_, node_, msg in udom.events if fn_ is f2]
        ok = (u.fits(frozenset({PX})) and not clash) if u is not None else (False if clash else None)
        rep.ob("U", f2.anchor, "the virtual volume shape handed to the 2-D worker is in pixels (max z position / scale + template size)", ok,
               "; ".join(clash)[:300] or f"shape is {u!r}", node=f2.node, fn=f2, clause="1 placement", stmt="def simulate_2d units")
    # projection worker
    g = funcs.get(S + "_simulate_projection_one")
    if g is not None:
        dom = PlaceDomain(model, integer_syms={"n1", "n2", "n0"}, positive_syms={"n0", "n1", "n2"})
        it = Interp(model, dom, depth=1)
        got = []

        def on_call(interp, fn, node, callee, args, kwargs, env):
            if fn is g and isinstance(callee, FuncRef) and callee.funcs[0].name == "_compose_affine_matrices":
                got.append((args, env))

        it.on_call.append(on_call)
        from ..domains.arrays import Arr
        n = tuple(dom.sym(x) for x in ("n0", "n1", "n2"))
        it.run(g, args={"yx": Vec3((dom.sym("y"), dom.sym("x"))), "shape": Tup([dom.sym("H"), dom.sym("W")]), "image": Arr(n),
                        "rotator": ExtRef("rotation"), "glob_rotator": ExtRef("rotation")})
        rep.instance("A.place", g.loc())
        ok = None
        det = "matrix builder call not reached"
        if got:
            args, env = got[-1]
            oc = dom.vec(args[2]) if len(args) > 2 else None
            im = Matcher(g).find("$lo = $m.astype(np.int32)")
            imin = dom.vec(env.get(msrc(im[0][1]["lo"][1]))) if im else None
            if oc and imin and len(oc) == 3 and len(imin) == 2:
                ok = True
                det = ""
                for j, (nm, axis) in enumerate((("y", 1), ("x", 2))):
                    tot = dom.add(imin[j], oc[axis])
                    cen = dom.add(dom.div(n[axis], mkA(2)), mkA(Fraction(-1, 2)))
                    want = dom.add(dom.sym(nm), mkA(0))
                    # template centre in projection coordinates: int_min + output_center  ==  yx   (centre (n-1)/2 cancels the -n/2+1/2 of min_)
                    if not tot.equals(want):
                        ok = False
                        det += f"{nm}: int_min + output_center = {tot!r}, required {want!r}; "
                if not oc[0].equals(dom.add(dom.div(n[0], mkA(2)), mkA(Fraction(-1, 2)))):
                    ok = False
                    det += f"z output centre {oc[0]!r} is not the template centre (no residue along the projection axis)"
        rep.ob("A", g.anchor, "projected template centre lands on the requested (y, x): int_min + output_center == yx for every template size", ok, det,
               node=g.node, fn=g, clause="1 placement", stmt="def _simulate_projection_one placement")


def frames_clause(model, rep, funcs):
    f = funcs.get(S + "_prep_iterators")
    if f is not None:
        calls = [c for c in calls_in(f) if (dotted(c.func) or "").endswith("_compose_affine_matrices")]
        rep.instance("F.sim", f.loc())
        ok = len(calls) == 1 and Matcher(f).has("_compose_affine_matrices($$c, mol.rotator.inv(), ...)")
        rep.ob("F", f.anchor, "the fragment (output, tomogram axes) samples the template (input, molecule axes): rotation handed to the matrix is the inverse of "
               "the molecule's rotation (W -> M)", ok, norm_src(calls[0].args[1]) if calls and len(calls[0].args) > 1 else "", node=f.node, fn=f, clause="2 frames",
               stmt="def _prep_iterators rotation")
    g = funcs.get(S + "_compose_affine_matrices")
    if g is not None:
        rep.instance("F.sim", g.loc())
        MG0 = Matcher(g)
        pre0 = None
        for cand in (["$dz, $dy, $dx = center", "$t0 = np.array([[1.0, 0.0, 0.0, $dz], [0.0, 1.0, 0.0, $dy], [0.0, 0.0, 1.0, $dx], [0.0, 0.0, 0.0, 1.0]], ...)"],
                     ["$t0 = np.eye(4, ...)", "$t0[:3, 3] = center"], ["$dz, $dy, $dx = center", "$t0 = np.eye(4, ...)", "$t0[:3, 3] = ($dz, $dy, $dx)"],
                     ["$t0 = np.eye(4, ...).copy()", "$t0[:3, 3] = center"]):
            if MG0.all_of(cand)[0]:
                pre0 = cand
                break
        ok, det = Matcher(g).all_of((pre0 or ["$dz, $dy, $dx = center",
                                     "$t0 = np.array([[1.0, 0.0, 0.0, $dz], [0.0, 1.0, 0.0, $dy], [0.0, 0.0, 1.0, $dx], [0.0, 0.0, 0.0, 1.0]], ...)"]) + [
                                     "$n = len(rotator)", "$t1 = _eyes($n)", "$t1[:, :3, 3] = -output_center", "$r = _eyes($n)", "$r[:, :3, :3] = rotator.as_matrix()",
                                     "return np.einsum('ij,njk,nkl->nil', $t0, $r, $t1)"])
        try:
            ey = model.func(S + "_eyes")
        except Exception:
            ey = None
        if ey is not None:
            ok = ok and Matcher(ey).has("return np.stack([np.eye(4, ...)] * n, axis=0)")
        else:
            # the stack of identity matrices is built in place (the private helper was inlined); T(+center) as a literal or as an identity with its last column set
            MGc = Matcher(g)
            tail_ = ["$t1 = np.stack([np.eye(4, ...)] * len(rotator), axis=0)", "$t1[:, :3, 3] = -output_center",
                     "$r = np.stack([np.eye(4, ...)] * len(rotator), axis=0)", "$r[:, :3, :3] = rotator.as_matrix()",
                     "return np.einsum('ij,njk,nkl->nil', $t0, $r, $t1)"]
            ok, det = MGc.all_of(["$t0 = np.eye(4, ...).copy()", "$t0[:3, 3] = center"] + tail_)
            if not ok:
                ok, det = MGc.all_of(["$dz, $dy, $dx = center",
                                      "$t0 = np.array([[1.0, 0.0, 0.0, $dz], [0.0, 1.0, 0.0, $dy], [0.0, 0.0, 1.0, $dx], [0.0, 0.0, 0.0, 1.0]], ...)"] + tail_)
        rep.ob("F", g.anchor, "matrix is T(+center) @ R @ T(-output_center) for every molecule (x_in = center + R (x_out - output_center))", ok, det, node=g.node,
               fn=g, clause="2 frames", stmt="def _compose_affine_matrices")
    h = funcs.get(S + "_simulate_projection_one")
    if h is not None:
        calls = [c for c in calls_in(h) if (dotted(c.func) or "").endswith("_compose_affine_matrices")]
        rep.instance("F.sim", h.loc())
        ok = len(calls) == 1 and Matcher(h).has("_compose_affine_matrices($$c, rotator.inv() * glob_rotator, ...)")
        rep.ob("F", h.anchor, "projection: template is sampled through inverse molecule rotation composed with the projection frame", ok,
               norm_src(calls[0].args[1]) if calls and len(calls[0].args) > 1 else "", node=h.node, fn=h, clause="2 frames", stmt="def _simulate_projection_one rotation")


def tasks_clause(model, rep, funcs):
    for name in ("_simulate", "_simulate_with_color", "simulate_2d"):
        f = funcs.get(S + "TomogramSimulator." + name)
        if f is None:
            continue
        rep.instance("O.sim", f.loc())
        outer = [lp for lp in walk_no_nested(f.node) if isinstance(lp, ast.For) and "self._components.values()" in norm_src(lp.iter)]
        ok = len(outer) == 1
        det = ""
        if ok:
            lp = outer[0]
            prep = [n for n in ast.walk(lp) if isinstance(n, ast.Assign) and isinstance(n.value, ast.Call) and (dotted(n.value.func) or "").endswith("_prep_iterators")]
            ok = len(prep) == 1 and isinstance(prep[0].targets[0], ast.Tuple) and len(prep[0].targets[0].elts) == 3
            if ok:
                names = [norm_src(e) for e in prep[0].targets[0].elts]
                # no re-binding of the three sequences between _prep_iterators and the task loop
                rebinds = [n for n in ast.walk(lp) if isinstance(n, ast.Assign) and n is not prep[0] and
                           any(norm_src(x) in names for t in n.targets for x in (t.elts if isinstance(t, ast.Tuple) else [t]))]
                # the task call receives, position by position, the element of each of the three sequences at the place the inner loop is at: a zip loop
                # (`for a, b, c in zip(xs, ys, zs)`) and an index loop (`for i in range(len(xs)): f(xs[i], ys[i], zs[i])`) have the same canonical form
                MT_ = Matcher(f)
                inner = [x for x in ast.walk(lp) if isinstance(x, ast.For) and x is not lp]
                adds = [c for c in ast.walk(lp) if isinstance(c, ast.Call) and isinstance(c.func, ast.Attribute) and c.func.attr == "add_task"]
                zip_ok = False
                if len(adds) == 1 and len(inner) == 1 and any(x is adds[0] for x in ast.walk(inner[0])):
                    got = [norm_src(MT_.expr(a_, keep=tuple(names))) for a_ in adds[0].args]
                    want = [f"__elem__({nm})" for nm in names]
                    zip_ok = [g_ for g_ in got if g_.startswith("__elem__(")] == want
                ok = not rebinds and zip_ok and len(adds) == 1
                det = f"rebinding of {names}: {[norm_src(r)[:70] for r in rebinds]}; zip ok: {zip_ok}; add_task calls: {len(adds)}"
                if rebinds:
                    det = (f"`{norm_src(rebinds[0])[:80]}` drops/reorders molecules between _prep_iterators and the task loop: not every molecule of the component gets a task; "
                           + det)
                mol_arg = prep[0].value.args[0] if prep[0].value.args else None
                comp_ok = isinstance(lp.target, ast.Tuple) and mol_arg is not None and norm_src(mol_arg) == norm_src(lp.target.elts[0])
                if not comp_ok:
                    ok = False
                    det += "; _prep_iterators is not given the component's own molecules"
        rep.ob("O", f.anchor, "one task per molecule of every component: the (start, stop, matrix) triples of _prep_iterators are zipped unmodified", ok, det,
               node=f.node, fn=f, clause="3 one task per molecule", stmt=f"def {name} tasks")
    for name in ("simulate_projection", "simulate_tilt_series"):
        f = funcs.get(S + "TomogramSimulator." + name)
        if f is None:
            continue
        rep.instance("O.sim", f.loc())
        M = Matcher(f)
        b: dict = {}
        ok, why = M.all_of(["for $mol, $image in self._components.values():\n    ...", "$ps = ($mol.pos - $rc) / self.scale",
                            "$coords = np.stack(($yc, $xc), axis=1)", "for $i, $yx in enumerate($coords):\n    ..."], b)
        if ok:
            inner = M.find("for $i, $yx in enumerate($coords):\n    ...", b)[0][0]
            adds = [c for c in ast.walk(inner) if isinstance(c, ast.Call) and isinstance(c.func, ast.Attribute) and c.func.attr == "add_task"]
            ok = len(adds) == 1 and bool(M.find("$pool.add_task($yx, $$shape, $$img, $mol.rotator[$i], ...)", b, within=inner))
            # every row of coords is one molecule: columns are the y and x projections of the scaled positions
            ok = ok and M.has("$yc = $ps.dot($$ey) + $$cy", b) and M.has("$xc = $ps.dot($$ex) + $$cx", b)
        rep.ob("O", f.anchor, "one task per molecule, position and rotation taken at the same index", ok, "", node=f.node, fn=f,
               clause="3 one task per molecule", stmt=f"def {name} tasks")


def accumulation_clause(model, rep, funcs):
    for name, buf in (("_simulate", "tomogram"), ("_simulate_with_color", "tomogram"), ("simulate_2d", "projection"), ("simulate_projection", "projection"),
                      ("simulate_tilt_series", "tilt_series")):
        f = funcs.get(S + "TomogramSimulator." + name)
        if f is None:
            continue
        rep.instance("S20", f.loc())
        M = Matcher(f)
        b = {}
        ok, det = M.all_of(["$buf = np.zeros(...)", "$res = $pool.compute()", "for $sl, $frag in $res:\n    if $frag is not None:\n        $buf[$sl] += $frag",
                            "return $buf"], b)
        if not ok:
            over = M.find("for $sl, $frag in $res:\n    if $frag is not None:\n        $buf[$sl] = $frag")
            if over:
                det = (f"`{norm_src(over[0][0].body[0].body[0])}` overwrites instead of accumulating: overlapping molecules erase each other, result depends on task order")
        else:
            # nothing else writes the buffer
            stores = [n for n in walk_no_nested(f.node) if isinstance(n, (ast.Assign, ast.AugAssign)) and
                      any(isinstance(t, ast.Subscript) and norm_src(t.value) == msrc(b["buf"][1]) for t in (n.targets if isinstance(n, ast.Assign) else [n.target]))]
            if len(stores) != 1:
                ok, det = False, f"{len(stores)} stores into the result buffer"
        rep.ob("S20", f.anchor, "fragments are accumulated with `buffer[slice] += fragment` into a zero-initialised buffer (additive, order independent)", ok, det,
               node=f.node, fn=f, clause="4 accumulation", stmt=f"def {name} accumulate")
    f = funcs.get(S + "_simulate_2d_one")
    if f is not None:
        s = norm_src(f.node)
        rep.instance("S20", f.loc())
        ok = Matcher(f).all_of(["$src, $dst = _prep_slices(start, stop, shape, img.shape)", "$t = affine_transform(img, mtx, ...)",
                                "$p = np.sum($t[$src], axis=0)", "return $dst[1:], $p"])[0] or \
            Matcher(f).all_of(["$dst, $frag = _simulate_one(img, start, stop, mtx, shape, order)", "$p = np.sum($frag, axis=0)", "return $dst[1:], $p"])[0]
        rep.ob("S20", f.anchor, "the 2-D worker sums the clipped fragment along z and drops the z slice", ok, "", node=f.node, fn=f, clause="4 accumulation",
               stmt="def _simulate_2d_one")
    for name in ("_simulate_one", "_simulate_color_one", "_simulate_2d_one"):
        f = funcs.get(S + name)
        if f is None:
            continue
        at = [c for c in calls_in(f) if (dotted(c.func) or "").endswith("affine_transform")]
        rep.instance("S20", f.loc())
        if not at and name != "_simulate_one" and Matcher(f).has("$dst, $frag = _simulate_one(img, start, stop, mtx, shape, order)"):
            # the worker delegates the transform to the verified 3-D worker with its own arguments, unchanged
            rep.ob("SLOT", f.anchor, "worker transforms the template with its matrix, zero fill, the simulator's spline order", True, "delegates to _simulate_one", node=f.node,
                   fn=f, clause="4 accumulation", stmt=f"def {name} transform")
            rep.ob("SLOT", f.anchor, "every pasted fragment is the output of the worker's affine_transform (no path returns the spline-filtered input itself)", True, "",
                   node=f.node, fn=f, clause="4 accumulation", stmt=f"def {name} all paths transformed")
            continue
        ok = len(at) == 1 and norm_src(kwarg(at[0], "mode") or ast.Constant(0)) == "'constant'" and norm_src(kwarg(at[0], "cval") or ast.Constant(1)) == "0.0" and \
            norm_src(kwarg(at[0], "order") or ast.Constant(-1)) == "order" and [norm_src(a) for a in at[0].args[:2]] == ["img", "mtx"]
        rep.ob("SLOT", f.anchor, "worker transforms the template with its matrix, zero fill, the simulator's spline order", ok, norm_src(at[0])[:100] if at else "",
               node=f.node, fn=f, clause="4 accumulation", stmt=f"def {name} transform")
        # every fragment that is pasted went through that transform: `img` holds spline coefficients for order > 1 (spline_filter in _get_image), so a
        # shortcut that returns img[...] itself pastes coefficients, not the template
        MW = Matcher(f)
        bad = []
        for r in walk_no_nested(f.node):
            if isinstance(r, ast.Return) and isinstance(r.value, ast.Tuple) and len(r.value.elts) == 2:
                v = r.value.elts[1]
                if isinstance(v, ast.Constant) and v.value is None:
                    continue
                ex = MW.expr(v)
                if not any(isinstance(x, ast.Call) and (dotted(x.func) or "").endswith("affine_transform") for x in ast.walk(ex)):
                    bad.append(f"`{norm_src(r)[:80]}` returns data that did not pass through affine_transform")
        rep.ob("SLOT", f.anchor, "every pasted fragment is the output of the worker's affine_transform (no path returns the spline-filtered input itself)", not bad,
               "; ".join(bad), node=f.node, fn=f, clause="4 accumulation", stmt=f"def {name} all paths transformed")


def clipping_clause(model, rep, funcs):
    f = funcs.get(S + "_prep_slices")
    if f is None:
        return
    s = norm_src(f.node)
    rep.instance("A.clip", f.loc())
    ok, why = Matcher(f).all_of(["for $s, $e, $size, $tsize in zip(start, stop, tomogram_shape, template_shape):\n    ...",
                                 "$sl, $pads, $oob = _utils.make_slice_and_pad($s, $e, $size)", "$dl.append($sl)", "$s0, $s1 = $pads",
                                 "if $oob:\n    ...\nelse:\n    $srcl.append(slice(None))", "$srcl.append(slice($s0, $tsize - $s1))",
                                 "$src = tuple($srcl)", "$dst = tuple($dl)", "return $src, $dst"])
    rep.ob("A", f.anchor, "clipping: destination slice from make_slice_and_pad, source slice [pad_before : template_size - pad_after]", ok, why, node=f.node, fn=f,
           clause="5 clipping", stmt="def _prep_slices")
    hs = [h for n in walk_no_nested(f.node) if isinstance(n, ast.Try) for h in n.handlers]
    ok2 = len(hs) == 1 and any(isinstance(x, ast.Return) and "None" in norm_src(x) for x in ast.walk(hs[0]))  # which classes it catches: decided below
    rep.ob("A", f.anchor, "molecules wholly outside the volume are ignored (out-of-bound error mapped to 'no fragment')", ok2, "", node=f.node, fn=f,
           clause="5 clipping", stmt="def _prep_slices out-of-bound")
    # the handler's type really is the raised class or one of its ancestors (class hierarchy of acryo + the builtin exception tree)
    if hs:
        import builtins
        try:
            ecls = model.cls("acryo/_utils.py::SubvolumeOutOfBoundError")
        except Exception as e:
            rep.error(f"anchor vanished: {e}")
            return
        chain = []
        for k in ecls.mro():
            chain.append(k.name)
            for b in k.base_exprs:
                bn = b.split(".")[-1]
                bt = getattr(builtins, bn, None)
                if isinstance(bt, type):
                    chain += [c.__name__ for c in bt.__mro__]
        ht = norm_src(hs[0].type).split(".")[-1] if hs[0].type is not None else "BaseException"
        names = [ht] if not isinstance(hs[0].type, ast.Tuple) else [norm_src(e).split(".")[-1] for e in hs[0].type.elts]
        okh = any(nm in chain for nm in names)
        rep.instance("A.clip", f.loc(hs[0]))
        rep.ob("A", f.anchor, "the clipping handler catches the class that make_slice_and_pad raises (SubvolumeOutOfBoundError or one of its base classes)", okh,
               "" if okh else f"`except {norm_src(hs[0].type)}` does not catch SubvolumeOutOfBoundError (bases: {' < '.join(chain[:4])}): a molecule wholly outside the "
               "volume aborts the simulation instead of being ignored", node=hs[0], fn=f, clause="5 clipping", stmt="def _prep_slices handler type")


def check(model, rep, tier):
    rep.decided += ["C14.1 start + output_center == pos/scale for even and odd template sizes (3-D and projection workers); units", "C14.2 matrix = T(c) R^-1 T(-oc)",
                    "C14.3 one task per molecule of every component", "C14.4 additive accumulation into a zero buffer in all five result loops", "C14.5 clipping slices"]
    rep.not_decided += ["interpolation accuracy", "exactness of the paste beyond the placement identity"]
    funcs = need_funcs(model, rep, ANCHORS)
    placement_clause(model, rep, funcs)
    frames_clause(model, rep, funcs)
    tasks_clause(model, rep, funcs)
    accumulation_clause(model, rep, funcs)
    clipping_clause(model, rep, funcs)
    # the workers read their molecules: positions handed out by `Molecules.pos` are the object's own buffer and must not be rescaled in place
    from .generic import inplace_argument_obligations, functions_in
    inplace_argument_obligations(model, rep, functions_in(model, ["acryo/simulator.py"]), "1 placement", through_properties=True)
    rep.floor("PUREARG", 8, "(functions of the simulator)")
    # the slice / pad algebra of make_slice_and_pad (shared with C02): clipped fragments land where the unclipped template would
    from .C02 import slice_pad_clause
    from .common import ClauseView
    slice_pad_clause(model, ClauseView(rep, "5 clipping"), funcs)
    # "loading a subtomogram at a simulated molecule returns the template": the loader's window algebra (centre (n-1)/2, shared with C02)
    from .C02 import window_clause, compose_clause
    f2 = need_funcs(model, rep, ["acryo/_utils.py::prepare_affine", "acryo/_utils.py::prepare_affine_cornersafe", "acryo/_utils.py::compose_matrices",
                                 "acryo/_utils.py::make_slice_and_pad"])
    window_clause(model, ClauseView(rep, "6 load-back"), f2)
    compose_clause(model, ClauseView(rep, "6 load-back"), f2)
    nc = 0
    for name in ("_simulate", "_simulate_with_color", "simulate_2d", "simulate_projection", "simulate_tilt_series"):
        f = funcs.get(S + "TomogramSimulator." + name)
        if f is not None:
            nc += consumed_after_loop_obligations(model, rep, f, "3 one task per molecule")
    rep.floor("S25", 5, "(task pools of the five simulate methods)")
