"""C01 - alignment moves each molecule onto the true particle pose (DESIGN 5, C01)."""
from __future__ import annotations

import ast

from ..absint import TOP, DictV, FuncRef, Interp, ListOf, Obj, Tup, Const
from ..domains.units import NM, PX, U, UnitsDomain
from ..repo import norm_src, walk_no_nested, calls_in
from .common import SinkTable, need_funcs, rotation_centre_obligations

LB = "acryo/loader/_base.py::LoaderBase."
LG = "acryo/loader/_group.py::LoaderGroup."
MC = "acryo/molecules/core.py::Molecules."

ENTRY = [LB + "align", LB + "align_multi_templates", LB + "construct_landscape", LB + "score",
         LG + "align", LG + "align_multi_templates"]
WRITEBACK = [LB + "_post_align", LB + "_post_align_multi_templates"]
ANCHORS = ENTRY + WRITEBACK + [
    LB + "align_no_template", LG + "align_no_template",
    MC + "linear_transform", MC + "translate", MC + "translate_internal", MC + "rotate_by",
    MC + "rotate_by_rotvec", MC + "rotate_by_rotvec_internal",
    "acryo/alignment/_base.py::AlignmentResult.affine_matrix", "acryo/alignment/_base.py::BaseAlignmentModel.fit",
    "acryo/alignment/_base.py::RotationImplemented.fit",
    "acryo/alignment/_base.py::RotationImplemented._get_template_and_mask_input",
    "acryo/_utils.py::compose_matrices", "acryo/loader/_misc.py::get_feature_list", "acryo/loader/_misc.py::allocate",
]

MODEL_METHODS = {"align", "landscape", "score"}
MAPPERS = {"construct_mapping_tasks", "iter_mapping_tasks"}
POSE_WRITERS = {"linear_transform": 0, "translate_internal": 0, "translate": 0}

PXSET = frozenset({PX})
NMSET = frozenset({NM})


def _fits(val, dom, required):
    u = dom._lift(val)
    if u is None or val is TOP:
        return None, "TOP"
    return u.fits(required), repr(u)


def units_clause(model, rep, funcs):
    dom = UnitsDomain(model)
    sinks = SinkTable()

    def on_call(interp, fn, node, callee, args, kwargs, env):
        if not isinstance(callee, FuncRef):
            return
        names = {f.name for f in callee.funcs}
        if names & MAPPERS:
            # first positional argument: model.<align|landscape|score>
            a0 = node.args[0] if node.args else None
            if not (isinstance(a0, ast.Attribute) and a0.attr in MODEL_METHODS):
                return
            if fn.name in MAPPERS:
                return  # the forwarding call inside construct_mapping_tasks itself
            if "max_shifts" in kwargs:
                ok, d = _fits(kwargs["max_shifts"], dom, PXSET)
                sinks.observe(fn, node, "max_shifts", ok, f"max_shifts reaches model.{a0.attr} as {d}, pixels required",
                              f"max_shifts handed to model.{a0.attr} is in pixels (nm / scale exactly once)")
            vk = kwargs.get("var_kwarg")
            if isinstance(vk, DictV) and "pos" in vk.items:
                ok, d = _fits(vk.items["pos"], dom, PXSET)
                sinks.observe(fn, node, "pos", ok, f"pos reaches model.{a0.attr} as {d}, pixels required",
                              f"pos handed to model.{a0.attr} is in pixels (molecules.pos / scale)")
        pw = names & set(POSE_WRITERS)
        if pw and fn.anchor in WRITEBACK:
            if args:
                ok, d = _fits(args[0], dom, NMSET)
                sinks.observe(fn, node, "shift->" + sorted(pw)[0], ok, f"shift handed to Molecules.{sorted(pw)[0]} is {d}, nm required",
                              "pixel shift is multiplied by the scale exactly once before the pose update")
        if "get_feature_list" in names and fn.anchor in WRITEBACK and len(args) >= 2:
            ok, d = _fits(args[1], dom, NMSET)
            sinks.observe(fn, node, "align-d*", ok, f"align-dz/dy/dx columns are built from {d}, nm required",
                          "align-d* feature columns carry the nm shift")

    for a in ENTRY + WRITEBACK:
        f = funcs.get(a)
        if f is None:
            continue
        it = Interp(model, dom, depth=3)
        it.on_call.append(on_call)
        it.run(f)
    sinks.emit(rep, "U", clause="1 units")
    rep.floor("U", 14, "(px sinks at model.align/landscape/score + nm sinks in the write-back)")
    for kind, fn, node, msg in dom.events:
        if fn is not None and fn.anchor in ENTRY + WRITEBACK:
            rep.ob("U", fn.anchor, "operands of +/- have a common unit", False, msg, node=node, fn=fn, clause="1 units")


def same_source_clause(model, rep, funcs):
    """Clause 3: the feature columns are computed from the very variables used for the pose update."""
    for a in WRITEBACK:
        f = funcs.get(a)
        if f is None:
            continue
        pose_calls = [c for c in calls_in(f) if isinstance(c.func, ast.Attribute) and c.func.attr in
                      ("linear_transform", "translate_internal", "translate", "rotate_by_rotvec_internal", "rotate_by", "rotate_by_rotvec")]
        feat_calls = [c for c in calls_in(f) if (isinstance(c.func, ast.Attribute) and c.func.attr == "get_feature_list") or
                      (isinstance(c.func, ast.Name) and c.func.id == "get_feature_list")]
        if not pose_calls or not feat_calls:
            rep.ob("SAME", a, "write-back has a pose update and a feature list", None,
                   f"pose calls={len(pose_calls)} feature calls={len(feat_calls)}", node=f.node, fn=f, clause="3 same-source",
                   stmt=f.name)
            continue
        pose_names = set()
        for c in pose_calls:
            for x in ast.walk(c):
                if isinstance(x, ast.Name) and isinstance(x.ctx, ast.Load):
                    pose_names.add(x.id)
        for c in feat_calls:
            rep.instance("SAME", f.loc(c))
            from .common import positional_view
            args = positional_view(model, f, c)
            shift_arg = args[1] if len(args) > 1 else None
            rot_arg = args[2] if len(args) > 2 else None
            ok = True
            det = []
            if not (isinstance(shift_arg, ast.Name) and shift_arg.id in pose_names):
                ok = False
                det.append(f"shift column source `{norm_src(shift_arg) if shift_arg is not None else None}` is not the variable given to the pose update {sorted(pose_names)}")
            rn = {x.id for x in ast.walk(rot_arg) if isinstance(x, ast.Name)} if rot_arg is not None else set()
            if not (rn & pose_names):
                ok = False
                det.append(f"rotation column source `{norm_src(rot_arg) if rot_arg is not None else None}` does not derive from the rotator given to the pose update")
            rep.ob("SAME", a, "score/shift/rotvec feature columns come from the variables used for the pose update", ok, "; ".join(det),
                   node=c, fn=f, clause="3 same-source")


def routing_clause(model, rep, funcs):
    """Clause 4: every align* entry point reaches the write-back only through _post_align*."""
    targets = {
        LB + "align": {"_post_align", "align_multi_templates"},
        LB + "align_multi_templates": {"_post_align_multi_templates"},
        LB + "align_no_template": {"align"},
        LG + "align": {"_post_align"},
        LG + "align_multi_templates": {"_post_align_multi_templates"},
        LG + "align_no_template": {"align"},
    }
    writers = {"linear_transform", "translate", "translate_internal", "rotate_by", "rotate_by_rotvec", "rotate_by_rotvec_internal",
               "rotate_by_quaternion", "rotate_by_matrix", "rotate_by_euler_angle"}
    for a, want in targets.items():
        f = funcs.get(a)
        if f is None:
            continue
        called = {c.func.attr for c in calls_in(f) if isinstance(c.func, ast.Attribute)}
        rep.instance("ROUTE", a)
        direct = called & writers
        missing = want - called
        ok = not direct and not missing
        det = ""
        if direct:
            det += f"updates poses directly via {sorted(direct)} instead of _post_align*; "
        if missing:
            det += f"does not call {sorted(missing)}"
        # every return statement returns the result of a routed call
        rep.ob("ROUTE", a, f"reaches the pose write-back only through {sorted(want)}", ok, det, node=f.node, fn=f,
               clause="4 routing", stmt=f"def {f.name}")


def per_loader_scale_clause(model, rep, funcs):
    """PERLOADER: in a loop over the loaders of a group, the pixel search range handed to loader L is nm / L.scale evaluated for *that* L on every iteration (the
    units domain proves "nm / some scale"; which scale is a matter of where the division is evaluated).  Seeded change C01-17 hoists it behind `if px is None`."""
    n = 0
    for a in (LG + "align", LG + "align_multi_templates"):
        f = funcs.get(a)
        if f is None:
            continue
        for lp in ast.walk(f.node):
            if not isinstance(lp, ast.For):
                continue
            lvars = {x.id for x in ast.walk(lp.target) if isinstance(x, ast.Name)}
            for c in ast.walk(lp):
                if not (isinstance(c, ast.Call) and isinstance(c.func, ast.Attribute) and isinstance(c.func.value, ast.Name) and c.func.value.id in lvars):
                    continue
                kw = {k.arg: k.value for k in c.keywords if k.arg}
                if "max_shifts" not in kw:
                    continue
                L, v = c.func.value.id, kw["max_shifts"]
                n += 1
                rep.instance("PERLOADER", f.loc(c))
                mentions = lambda e: any(isinstance(x, ast.Attribute) and x.attr == "scale" and isinstance(x.value, ast.Name) and x.value.id == L for x in ast.walk(e))
                ok, det = None, ""
                if mentions(v):
                    ok = True
                elif isinstance(v, ast.Name):
                    binds = [(st, par) for par in ast.walk(f.node) for fld in ("body", "orelse", "finalbody") for st in (getattr(par, fld, None) or [])
                             if isinstance(st, (ast.Assign, ast.AnnAssign)) and st.value is not None and
                             any(isinstance(t, ast.Name) and t.id == v.id for t in (st.targets if isinstance(st, ast.Assign) else [st.target]))]
                    inloop = [(st, par) for st, par in binds if par is lp and st in lp.body and mentions(st.value) and not any(isinstance(x, ast.IfExp) for x in ast.walk(st.value))]
                    cond = [(st, par) for st, par in binds if par is not lp and any(x is st for x in ast.walk(lp)) and mentions(st.value)]
                    if inloop and not cond:
                        ok = True
                    elif cond:
                        ok = False
                        det = (f"`{norm_src(cond[0][0])[:80]}` is evaluated only under a condition inside the loop over the loaders (`{norm_src(cond[0][1]).splitlines()[0][:60]}`): "
                               f"later loaders are searched with the pixel range of another loader's scale - for loaders of different scale the range is wrong by the scale ratio")
                    elif binds and not any(any(x is st for x in ast.walk(lp)) for st, _ in binds):
                        ok = False
                        det = f"`{v.id}` is computed outside the loop over the loaders, so it cannot be nm / {L}.scale for each loader"
                rep.ob("PERLOADER", f.anchor, f"the pixel search range handed to {L}.{c.func.attr} is nm / {L}.scale, evaluated for each loader of the group", ok, det,
                       node=c, fn=f, clause="1 units")
    rep.floor("PERLOADER", 2, "(LoaderGroup.align, align_multi_templates)")


def check(model, rep, tier):
    rep.decided += ["C01.1 units of max_shifts/pos/shift at model and Molecules sinks", "C01.3 feature columns share sources with pose update",
                    "C01.4 align* entry points route through _post_align*"]
    rep.not_decided += ["sub-pixel accuracy of the located peak", "that the correlation peak is the true displacement"]
    rep.assumptions += ["unit seeds: parameters annotated nm are nanometres, `scale` is nm/pixel, Molecules.pos is nm, AlignmentResult.shift is pixels"]
    funcs = need_funcs(model, rep, ANCHORS)
    units_clause(model, rep, funcs)
    per_loader_scale_clause(model, rep, funcs)
    same_source_clause(model, rep, funcs)
    routing_clause(model, rep, funcs)
    from . import C01_frames
    C01_frames.frames_clause(model, rep, funcs)
    from .C03 import batch_task_order_obligation
    batch_task_order_obligation(model, rep, "4 routing")
    # "every loader kind": a batch aligns each molecule against the tomogram it was registered with (image-id registry, shared with C03), and the sub-volume
    # handed to the model is sampled on the molecule's own grid for both window constructions (window algebra, shared with C02)
    from .common import ClauseView
    from . import C03 as _C03, C02 as _C02
    try:
        _C03.registry_clause(model, ClauseView(rep, "4 routing"), {_C03.BL + n_: model.func(_C03.BL + n_) for n_ in ("add_tomogram", "replace")})
        f2_ = {a_: model.func(a_) for a_ in ("acryo/_utils.py::prepare_affine", "acryo/_utils.py::prepare_affine_cornersafe", "acryo/_utils.py::compose_matrices",
                                           "acryo/_utils.py::make_slice_and_pad")}
        _C02.window_clause(model, ClauseView(rep, "2 frames"), f2_)
    except KeyError as e:
        rep.error(f"anchor vanished: {e}")
    # the searched rotation set of a (max, step) range is what the user asked for (rule shared with C06)
    from .C06 import angle_grid_obligations
    try:
        angle_grid_obligations(model, rep, model.func("acryo/_rotation.py::_seq_of_max_and_step_to_quat"), "2 frames")
    except KeyError as e:
        rep.error(f"anchor vanished: {e}")
    from .C05 import window_cover_obligations
    window_cover_obligations(model, rep, "1 units")
    rep.floor("COVER.window", 3, "(PCC refinement window, three axes)")
    ncen = 0
    for a in ("acryo/alignment/_base.py::AlignmentResult.affine_matrix", "acryo/alignment/_base.py::RotationImplemented._get_template_and_mask_input"):
        try:
            f = funcs.get(a) or model.func(a)
        except Exception:
            f = None
        if f is not None:
            ncen += rotation_centre_obligations(model, rep, f, "2 frames")
    rep.floor("A.centre", 2, "(affine_matrix and the template bank rotate about (n-1)/2)")
    from .generic import axis_convention_obligations
    axis_convention_obligations(model, rep, ["acryo/backend/_upsample.py", "acryo/backend/_zncc.py", "acryo/backend/_pcc.py", "acryo/backend/_fsc.py", "acryo/backend/_mesh.py"], "2 frames", floor=3)
