"""C17 - Fourier shell correlation is the normalised cross-spectrum per shell (DESIGN 5, C17)."""
from __future__ import annotations

import ast
import re

from ..absint import ExtRef, Interp, Tup
from ..domains.homog import HP, HomogDomain, Lin, cs_form, poly_degree, symmetric_preprocessing, subst_src
from ..repo import calls_in, dotted, norm_src, walk_no_nested
from ..match import Matcher, src as msrc
from .common import kwarg, need_funcs
from .C09 import halves_clause, rng_clause

LB = "acryo/loader/_base.py::LoaderBase."
ANCHORS = ["acryo/_utils.py::fourier_shell_correlation", LB + "fsc", LB + "fsc_with_average", LB + "fsc_with_halfmaps", LB + "average_split",
           "acryo/loader/_group.py::LoaderGroup.fsc", "acryo/loader/_group.py::LoaderGroup.average_split", "acryo/backend/_fsc.py::fsc_landscape",
           "acryo/backend/_fsc.py::_get_radial_label", "acryo/loader/_misc.py::random_splitter", LB + "normalize_mask", LB + "normalize_template"]


def formula_clause(model, rep, funcs):
    f = funcs.get("acryo/_utils.py::fourier_shell_correlation")
    if f is None:
        return
    dom = HomogDomain(model)
    it = Interp(model, dom, depth=2)
    out = it.run(f, args={"img0": HP.atom(Lin("a"), True), "img1": HP.atom(Lin("b"), True)})
    val = out.items[1] if isinstance(out, Tup) and len(out.items) == 2 else out
    rep.instance("H.fsc", f.loc())
    if not isinstance(val, HP):
        rep.ob("H", f.anchor, "FSC expression evaluated to a homogeneity form", None, f"got {out!r}"[:200], node=f.node, fn=f, clause="formula",
               stmt="def fourier_shell_correlation")
        return
    d = poly_degree(val)
    rep.ob("H", f.anchor, "FSC has homogeneity degree (0, 0): unchanged by positive rescaling of either input", d == (0, 0), f"degree {d}", node=f.node, fn=f,
           clause="formula", stmt="fsc degree")
    ok, why, info = cs_form(val)
    rep.ob("H", f.anchor, "FSC = sum_shell Re(F0 conj F1) / sqrt(sum_shell |F0|^2 sum_shell |F1|^2): Cauchy-Schwarz form with one shell reducer "
           "(=> values in [-1, 1], = 1 on every non-empty shell for identical inputs)", ok, why, node=f.node, fn=f, clause="formula", stmt="fsc cs-form")
    if ok:
        rep.ob("H", f.anchor, "per-shell sums use sum_labels over the same labels and index set in numerator and denominator", info["reducer"].startswith("sum_labels"),
               info["reducer"], node=f.node, fn=f, clause="formula", stmt="fsc reducer")
        sok, swhy = symmetric_preprocessing(info)
        rep.ob("H", f.anchor, "both images are transformed identically (fftn), so FSC is symmetric in its two inputs", sok, swhy, node=f.node, fn=f,
               clause="formula", stmt="fsc symmetric")
        swapped = subst_src(subst_src(subst_src(val, "a", "tmp"), "b", "a"), "tmp", "b")
        rep.ob("H", f.anchor, "swapping the two inputs gives the same normal form", swapped == val, "", node=f.node, fn=f, clause="formula", stmt="fsc swap")
    for kind, fn, node, msg in dom.events:
        rep.ob("H", fn.anchor if fn else f.anchor, "added terms have equal degree", False, msg, node=node, fn=fn or f, clause="formula")
    # layout: spectra and radius grid are both fftshift-ed (or neither)
    src = norm_src(f.node)
    M = Matcher(f)
    shifted = M.all_of(["$f0 = np.fft.fftshift(fftn(img0))", "$f1 = np.fft.fftshift(fftn(img1))"])[0]
    plain = M.all_of(["$f0 = fftn(img0)", "$f1 = fftn(img1)"])[0]
    bg: dict = {}
    grid_shift = M.has("$freqs = np.meshgrid(*[np.fft.fftshift(np.fft.fftfreq($s, d=1.0)) for $s in $$shape], indexing='ij')", bg)
    grid_plain = (not grid_shift) and M.has("$freqs = np.meshgrid(*[np.fft.fftfreq($s, d=1.0) for $s in $$shape], indexing='ij')", bg)
    sp_shift = [shifted, shifted] if (shifted or plain) else []
    ok = (shifted and grid_shift) or (plain and grid_plain)
    rep.instance("L.fsc", f.loc())
    rep.ob("L", f.anchor, "the shell-label grid and both spectra are in the same FFT layout (all fftshift-ed, or none)", bool(ok),
           f"spectra shifted: {sp_shift}; frequency grid shifted: {grid_shift}", node=f.node, fn=f, clause="layout", stmt="fsc layout")
    okl = bool(grid_shift or grid_plain) and M.all_of(["$r = np.sqrt(sum($f ** 2 for $f in $freqs))", "$lab = ($r / dfreq).astype($$t)"], bg)[0]
    okshape = "shape" in bg and msrc(M.expr(bg["shape"][1])) in ("img0.shape", "img1.shape")
    # shells 0 .. nlabels-1 are summed (index = arange(0, nlabels)) and reported at (i + 1/2) * dfreq
    inner = [x for x in ast.walk(f.node) if isinstance(x, ast.FunctionDef) and x is not f.node]
    okidx = False
    if okl and len(inner) == 1:
        bi = dict(bg)
        okidx = M.has("$nl = $lab.max()", bi) and isinstance(bi["lab"][1], ast.Name) and isinstance(bi["nl"][1], ast.Name)
        if okidx:
            MI_ = Matcher(inner[0])
            ln_, nn_ = bi["lab"][1].id, bi["nl"][1].id
            direct = MI_.has(f"return sum_labels($$a, labels={ln_}, index=np.arange(0, {nn_}))")
            via = False
            for _, bb_ in MI_.find(f"return sum_labels($$a, labels={ln_}, index=$idx)"):
                # the index array may be built once in the enclosing function
                if isinstance(bb_["idx"][1], ast.Name) and M.has(f"{bb_['idx'][1].id} = np.arange(0, {nn_})"):
                    via = True
            okidx = (direct or via) and M.has("$freq = (np.arange(len($$o)) + 0.5) * dfreq")
    elif okl and not inner:
        # the per-shell sums written out without the local helper: every sum_labels call uses the label grid and index = arange(0, nlabels)
        bi = dict(bg)
        if M.has("$nl = $lab.max()", bi) and isinstance(bi["lab"][1], ast.Name) and isinstance(bi["nl"][1], ast.Name):
            ln_, nn_ = bi["lab"][1].id, bi["nl"][1].id
            sl_calls = [c for c in calls_in(f) if (dotted(c.func) or "").rsplit(".", 1)[-1] == "sum_labels"]

            def _idx_ok(c):
                ix = kwarg(c, "index")
                lb = kwarg(c, "labels")
                ixx = norm_src(M.expr(ix, keep=(nn_,))) if ix is not None else ""
                return lb is not None and norm_src(lb) == ln_ and ixx in (f"np.arange(0, {nn_})", f"np.arange({nn_})")

            okidx = len(sl_calls) >= 3 and all(_idx_ok(c) for c in sl_calls) and M.has("$freq = (np.arange(len($$o)) + 0.5) * dfreq")
    rep.ob("L", f.anchor, "shell i of the output is the sum over label i (index 0 .. nlabels-1) and is reported at frequency (i + 1/2) * dfreq", okidx, "", node=f.node, fn=f,
           clause="layout", stmt="fsc shell index")
    okl = okl and okshape
    rep.ob("L", f.anchor, "shell label = floor(|f| / dfreq) with |f| in cycles per pixel", okl,
           "", node=f.node, fn=f, clause="layout", stmt="fsc labels")


def _alias_members(model, fn, ann_txt: str) -> set[str]:
    """Type names of a (possibly aliased) annotation: {'None','ndarray','ImageProvider','ImageConverter',...}."""
    out = set()
    seen = set()
    work = [ann_txt]
    while work:
        t = work.pop()
        for name in re.findall(r"[A-Za-z_][A-Za-z0-9_\.]*", t):
            base = name.split(".")[-1]
            if base in seen:
                continue
            seen.add(base)
            if base in ("Union", "Optional", "np", "float32", "Callable"):
                continue
            if base == "None":
                out.add("None")
            elif base in ("NDArray", "ndarray"):
                out.add("ndarray")
            elif base in ("ImageProvider", "ImageConverter"):
                out.add(base)
            else:
                # alias defined in this module or in loader/_base.py
                for mod in (fn.module, model.by_relpath.get("acryo/loader/_base.py")):
                    if mod is not None and base in mod.assigns:
                        work.append(norm_src(mod.assigns[base]))
    return out


def dispatch_clause(model, rep, funcs):
    """S21: a type dispatch over `mask` must not let a member of the annotated union fall into a branch that ignores it."""
    sites = [(LB + "fsc_with_halfmaps", "mask"), ("acryo/loader/_group.py::LoaderGroup.fsc", "mask"), (LB + "normalize_mask", "mask")]
    for a, pname in sites:
        f = funcs.get(a)
        if f is None:
            continue
        p = [x for x in f.params() if x.arg == pname]
        if not p or p[0].annotation is None:
            rep.ob("S21", a, f"parameter `{pname}` has a union annotation", None, "", node=f.node, fn=f, clause="mask dispatch", stmt=f"{a} annotation")
            continue
        members = _alias_members(model, f, norm_src(p[0].annotation))
        chain = None
        for n in f.node.body:
            if isinstance(n, ast.If) and pname in {x.id for x in ast.walk(n.test) if isinstance(x, ast.Name)}:
                chain = n
                break
        rep.instance("S21", f.loc(chain) if chain is not None else f.loc())
        if chain is None:
            rep.ob("S21", a, "type dispatch over the mask found", None, "", node=f.node, fn=f, clause="mask dispatch", stmt=f"{a} dispatch")
            continue
        matched = set()
        node = chain
        final_else = None
        while True:
            t = norm_src(node.test)
            if f"{pname} is None" in t:
                matched.add("None")
            for m in re.findall(r"isinstance\(" + pname + r", ([^)]*)\)", t):
                for nm in re.findall(r"[A-Za-z_][A-Za-z0-9_\.]*", m):
                    b = nm.split(".")[-1]
                    matched.add("ndarray" if b in ("ndarray", "NDArray") else b)
            if len(node.orelse) == 1 and isinstance(node.orelse[0], ast.If):
                node = node.orelse[0]
                continue
            final_else = node.orelse
            break
        unmatched = members - matched
        raises_after = False
        if not final_else:
            # fall-through after the chain: does the function raise next?
            idx = f.node.body.index(chain)
            nxt = f.node.body[idx + 1] if idx + 1 < len(f.node.body) else None
            raises_after = isinstance(nxt, ast.Raise)
        if final_else and any(isinstance(x, ast.Raise) for st in final_else for x in ast.walk(st)):
            ok, det = True, f"union {sorted(members)}; matched {sorted(matched)}; everything else raises"
        elif not final_else:
            ok = not unmatched or raises_after
            det = f"union {sorted(members)}; matched {sorted(matched)}; no else branch" + ("; falls through to a raise" if raises_after else "")
        else:
            uses = any(isinstance(x, ast.Name) and x.id == pname for st in final_else for x in ast.walk(st))
            if uses:
                ok = len(unmatched) <= 1
                det = f"else branch uses `{pname}` for the remaining member(s) {sorted(unmatched)}"
            else:
                ok = not unmatched
                det = (f"else branch `{'; '.join(norm_src(st) for st in final_else)[:80]}` ignores `{pname}` although the annotated union still has the "
                       f"unmatched member(s) {sorted(unmatched)}: such a mask is silently dropped") if unmatched else f"all members {sorted(members)} matched"
        rep.ob("S21", a, "every mask kind admitted by the annotation reaches the product as the corresponding array (none falls into the branch that assigns "
               "the neutral mask)", ok, det, node=chain, fn=f, clause="mask dispatch", stmt=f"dispatch over {pname} in {f.short}")


def halfmap_selection_obligations(rep, f, a, clause):
    # the half maps handed back to the caller are the two members of each split: an index on axis 1 of the (n_set, 2, *shape) array.  A reshape
    # re-interprets the memory order, it cannot exchange axes: `halves.reshape((2, n_set) + ...)` mixes maps of different splits for n_set >= 2
    tuples = [c for c in calls_in(f) if (dotted(c.func) or "").rsplit(".", 1)[-1] == "FscTuple" and len(c.args) >= 2]
    for c in tuples:
        hm = Matcher(f).expr(c.args[1])
        if not (isinstance(hm, ast.Tuple) and len(hm.elts) == 2):
            if any(isinstance(x, ast.Call) and isinstance(x.func, ast.Attribute) and x.func.attr in ("reshape", "ravel", "flatten", "view") for x in ast.walk(hm)):
                rep.instance("S11.fsc", f.loc(c))
                rep.ob("S11", a, "the returned half maps are members 0 and 1 of each split (index on axis 1 of the (n_set, 2, ...) array)", False,
                       f"`{norm_src(hm)[:70]}`: a reshape of the split array keeps the memory order, it does not bring member k of every split together", node=c,
                       fn=f, clause=clause)
            continue
        rep.instance("S11.fsc", f.loc(c))
        verdict, dets = True, []
        def _sources(e_, depth=0):
            # the expression and, for plain names, what they were bound to (tuple unpacking included), two levels deep
            out = [e_]
            if depth < 2:
                for nm_ in {x.id for x in ast.walk(e_) if isinstance(x, ast.Name)}:
                    for st in walk_no_nested(f.node):
                        if isinstance(st, ast.Assign):
                            for t in st.targets:
                                names_ = [t.id] if isinstance(t, ast.Name) else [y.id for y in getattr(t, "elts", []) if isinstance(y, ast.Name)]
                                if nm_ in names_:
                                    out += _sources(st.value, depth + 1)
            return out

        for k, e in enumerate(hm.elts):
            srcs_ = _sources(e)
            if any(isinstance(x, ast.Call) and isinstance(x.func, ast.Attribute) and x.func.attr in ("reshape", "ravel", "flatten", "view") for s_ in srcs_ for x in ast.walk(s_)) or \
                    any(isinstance(x, ast.Call) and (dotted(x.func) or "").rsplit(".", 1)[-1] == "reshape" for x in ast.walk(e)):
                verdict = False
                dets.append(f"half map {k} is taken from a reshape of the split array (`{norm_src(e)[:60]}`): reshape keeps the memory order, it does not "
                            f"bring member {k} of every split together")
                continue
            idx = e.slice if isinstance(e, ast.Subscript) else None
            elts = idx.elts if isinstance(idx, ast.Tuple) else ([idx] if idx is not None else [])
            good = len(elts) >= 2 and isinstance(elts[1], ast.Constant) and elts[1].value == k
            if not good and verdict is True:
                verdict = None
                dets.append(f"half map {k}: `{norm_src(e)[:60]}`")
        rep.ob("S11", a, "the returned half maps are members 0 and 1 of each split (index on axis 1 of the (n_set, 2, ...) array)", verdict, "; ".join(dets)[:400],
               node=c, fn=f, clause=clause)


def loader_clause(model, rep, funcs):
    for a in (LB + "fsc_with_halfmaps", "acryo/loader/_group.py::LoaderGroup.fsc"):
        f = funcs.get(a)
        if f is None:
            continue
        rep.instance("S11.fsc", f.loc())
        calls = [c for c in calls_in(f) if (dotted(c.func) or "").endswith("fourier_shell_correlation")]
        ok = len(calls) == 1
        det = ""
        if ok:
            c = calls[0]
            from .common import arg_or_kw
            e0, e1 = arg_or_kw(c, 0, "img0"), arg_or_kw(c, 1, "img1")
            a0, a1 = (norm_src(e0) if e0 is not None else "?"), (norm_src(e1) if e1 is not None else "?")
            ML = Matcher(f)
            bl: dict = {}
            ok, why = ML.all_of(["for $i in range(n_set):\n    ...", "$a, $b = $h[$i]",
                                 "$fr, $fs = _utils.fourier_shell_correlation($a * $m, $b * $m, dfreq=$$df)"], bl)
            if not ok:
                # the same pairing with the splits iterated directly: `for a, b in halves` (loop or comprehension)
                for alt in (["[_utils.fourier_shell_correlation($a * $m, $b * $m, dfreq=$$df) for $a, $b in $h]"],
                            ["for $a, $b in $h:\n    ...", "_utils.fourier_shell_correlation($a * $m, $b * $m, dfreq=$$df)"]):
                    bl = {}
                    ok, why = ML.all_of(alt, bl)
                    if ok:
                        break
            det = why or f"fourier_shell_correlation({a0}, {a1}, ...)"
            if ok:
                # the half-maps come from average_split of this loader, the sampling step from the dfreq argument
                hsrc = msrc(ML.expr(bl["h"][1]))
                ok = "average_split(" in hsrc or ML.has("$h = self.average_split(...)", bl)
                dfs = msrc(ML.expr(bl["df"][1]))
                if isinstance(bl["df"][1], ast.Name) and "dfreq" not in dfs:
                    # a local bound on several paths (if/else instead of a conditional expression): every binding must come from the dfreq argument or be its default
                    vals_ = [st.value for st in walk_no_nested(f.node) if isinstance(st, ast.Assign) and any(isinstance(t, ast.Name) and t.id == bl["df"][1].id for t in st.targets)]
                    if vals_ and any("dfreq" in norm_src(v) for v in vals_) and all("dfreq" in norm_src(v) or "min(" in norm_src(v) for v in vals_):
                        dfs = " | ".join(norm_src(v) for v in vals_)
                ok = ok and "dfreq" in dfs
                det = f"half-maps `{hsrc[:60]}`; dfreq `{dfs[:60]}`"
        rep.ob("S11", a, "FSC is computed between the two half-maps of split i, both multiplied by the same mask", ok, det, node=f.node, fn=f, clause="loader level",
               stmt=f"fsc call ({a})")
        sp = [c for c in calls_in(f) if isinstance(c.func, ast.Attribute) and c.func.attr == "average_split" and norm_src(c.func.value) == "self"]
        ok2 = len(sp) == 1 and norm_src(kwarg(sp[0], "n_set") or ast.Constant(0)) == "n_set" and norm_src(kwarg(sp[0], "seed") or ast.Constant(0)) == "seed" and \
            norm_src(kwarg(sp[0], "squeeze") or ast.Constant(0)) == "False"
        rep.ob("S12", a, "half-maps come from self.average_split with the caller's seed and n_set forwarded unchanged", ok2, norm_src(sp[0])[:90] if sp else "",
               node=f.node, fn=f, clause="loader level", stmt=f"average_split call ({a})")
        halfmap_selection_obligations(rep, f, a, "loader level")
        guard = any(isinstance(n, ast.If) and norm_src(n.test) == "n_set <= 0" and any(isinstance(x, ast.Raise) for x in ast.walk(n)) for n in walk_no_nested(f.node))
        rep.ob("GUARD", a, "n_set <= 0 is rejected", guard, "", node=f.node, fn=f, clause="loader level", stmt=f"n_set guard ({a})")
    f = funcs.get(LB + "fsc")
    g = funcs.get(LB + "fsc_with_average")
    if f is not None and g is not None:
        rep.instance("S11.fsc", f.loc())
        # written with keywords: calls are compared as parameter -> argument bindings under the callee's *current* signature, so a positional call that
        # lands `dfreq` in another parameter after a signature change does not match
        ok = Matcher(f).has("return self.fsc_with_average(mask=mask, seed=seed, n_set=n_set, dfreq=dfreq)[0]") or \
            Matcher(f).has("return self.fsc_with_average(mask=mask, seed=seed, n_set=n_set, dfreq=dfreq, zero_norm=True)[0]")  # the default, spelled out
        ok2 = Matcher(g).has("self.fsc_with_halfmaps(mask=mask, seed=seed, n_set=n_set, dfreq=dfreq, zero_norm=zero_norm, squeeze=False)")
        rep.ob("S12", f.anchor, "fsc -> fsc_with_average -> fsc_with_halfmaps forward mask, seed, n_set and dfreq unchanged", ok and ok2, "", node=f.node, fn=f,
               clause="loader level", stmt="fsc forwarding")


def check(model, rep, tier):
    rep.decided += ["C17 formula: Cauchy-Schwarz form over sum_labels shells, degree (0,0), symmetric; layouts of spectra and label grid agree",
                    "C17 loader level: both halves * same mask, halves from average_split (complementary), seed/n_set forwarded, mask dispatch exhaustive"]
    rep.not_decided += ["shell occupancy / NaNs for tiny boxes", "numerical FSC values"]
    funcs = need_funcs(model, rep, ANCHORS)
    formula_clause(model, rep, funcs)
    dispatch_clause(model, rep, funcs)
    loader_clause(model, rep, funcs)
    halves_clause(model, rep, funcs)
    rng_clause(model, rep, funcs)
    # the landscape form of the FSC (one value per trial shift) obeys the same formula: obligations shared with C07
    from . import C07 as _C07
    from .common import ClauseView
    shared = {}
    for a_ in ("acryo/backend/_fsc.py::fsc_landscape", "acryo/backend/_fsc.py::fsc"):
        try:
            shared[a_] = funcs.get(a_) or model.func(a_)
        except Exception:
            pass
    _C07.formula_clause(model, ClauseView(rep, "formula"), shared)
    rep.floor("H.shellmean", 1, "(fsc_landscape stores one mean per trial shift)")
    from .generic import view_update_obligations, functions_in
    view_update_obligations(model, rep, functions_in(model, ["acryo/loader/_base.py", "acryo/loader/_group.py", "acryo/_utils.py"]), "3 loader")
    from .generic import axis_convention_obligations
    axis_convention_obligations(model, rep, ["acryo/_utils.py"], "1 formula", floor=1)
