"""C13 - saved molecules reload unchanged: serialisation layout agreement (DESIGN 5, C13; rule S10)."""
from __future__ import annotations

import ast

from ..repo import calls_in, dotted, norm_src, walk_no_nested
from ..match import Matcher, src as msrc
from .common import kwarg, need_funcs

MC = "acryo/molecules/core.py::Molecules."
ANCHORS = [MC + n for n in ("to_dataframe", "to_csv", "to_parquet", "to_file", "from_csv", "from_parquet", "from_file", "from_dataframe")]
READERS = ["from_file", "from_csv", "from_parquet", "from_dataframe"]


def _strlist(e):
    if isinstance(e, (ast.List, ast.Tuple)) and all(isinstance(x, ast.Constant) and isinstance(x.value, str) for x in e.elts):
        return [x.value for x in e.elts]
    return None


def passthrough_clause(model, rep, funcs):
    """Rows and options pass through unchanged: the readers never re-bind (filter) the data frame they are given, the writers forward the caller's
    options as they are."""
    for r in ("from_dataframe",):
        f = funcs.get(MC + r)
        if f is None:
            continue
        rep.instance("S10", f.loc())
        reb = [st for st in walk_no_nested(f.node) if isinstance(st, (ast.Assign, ast.AugAssign, ast.AnnAssign)) and
               any(isinstance(t, ast.Name) and t.id == "df" for t in (st.targets if isinstance(st, ast.Assign) else [st.target]))]
        rep.ob("S10", f.anchor, "from_dataframe uses the frame it is given as it is (no row is dropped, reordered or de-duplicated before the columns are read)",
               not reb, f"`{norm_src(reb[0])}` replaces the frame before it is read: rows disappear on reload" if reb else "", node=(reb[0] if reb else f.node), fn=f,
               clause="layout", stmt="from_dataframe frame untouched")
    for w, callee in (("to_csv", "write_csv"), ("to_parquet", "write_parquet")):
        try:
            f = funcs.get(MC + w) or model.func(MC + w)
        except Exception:
            continue
        calls = [c for c in calls_in(f) if isinstance(c.func, ast.Attribute) and c.func.attr == callee]
        rep.instance("S10", f.loc())
        ok = len(calls) == 1
        det = f"{len(calls)} {callee} call(s)"
        if ok:
            c = calls[0]
            params = set(f.param_names())
            for k in c.keywords:
                if k.arg in params and not (isinstance(k.value, ast.Name) and k.value.id == k.arg):
                    ok = False
                    det = f"`{k.arg}={norm_src(k.value)}`: the caller's `{k.arg}` is altered on the way to {callee} (None / 0 no longer mean what the caller asked for)"
            recv = norm_src(c.func.value)
            if recv not in ("self.to_dataframe()", "df") and not recv.startswith("self.to_dataframe()"):
                pass
            if w == "to_parquet" and "shrink" in norm_src(f.node):
                ok = False
                det = "column dtypes are narrowed before writing: values do not reload bit-for-bit"
        rep.ob("S10", f.anchor, f"{w} writes the table of to_dataframe() with the caller's options forwarded unchanged", ok, det if not ok else "", node=f.node, fn=f,
               clause="layout", stmt=f"def {w} passthrough")


def check(model, rep, tier):
    rep.decided += ["C13 column layout: _CSV_COLUMNS == keys/indices written by to_dataframe == default pos_cols + rot_cols of every reader; features after them; "
                    "to_file/from_file dispatch on the same suffix set; readers funnel into from_dataframe, writers into to_dataframe; only the rot-vec is cast to float32"]
    rep.not_decided += ["numerical round-trip precision", "CSV number formatting", "rotation-vector branch cut near pi"]
    funcs = need_funcs(model, rep, ANCHORS)
    try:
        csv_cols = _strlist(model.const("acryo/molecules/core.py::_CSV_COLUMNS"))
    except Exception as e:
        rep.error(str(e))
        return
    rep.instance("S10", "_CSV_COLUMNS")
    want = ["z", "y", "x", "zvec", "yvec", "xvec"]
    rep.ob("S10", "acryo/molecules/core.py::_CSV_COLUMNS", "reserved column names are z, y, x, zvec, yvec, xvec in this order", csv_cols == want, f"{csv_cols}",
           clause="layout", stmt="_CSV_COLUMNS")
    # writer table
    f = funcs.get(MC + "to_dataframe")
    if f is not None:
        dicts = [c.args[0] for c in calls_in(f) if (dotted(c.func) or "").endswith("DataFrame") and c.args and isinstance(c.args[0], ast.Dict)]
        rep.instance("S10", f.loc())
        ok = len(dicts) == 1
        det = ""
        if ok:
            d = dicts[0]
            keys = [k.value if isinstance(k, ast.Constant) else None for k in d.keys]
            ok = keys == csv_cols
            det = f"keys {keys}"
            MT = Matcher(f)
            for k, v in zip(keys, d.values):
                if not (isinstance(v, ast.Subscript) and isinstance(v.slice, ast.Tuple) and len(v.slice.elts) == 2):
                    ok = False
                    det += f"; `{k}` is not a column slice"
                    continue
                col = norm_src(v.slice.elts[1])
                base = norm_src(v.value)
                exp_idx = {"z": "0", "y": "1", "x": "2", "zvec": "0", "yvec": "1", "xvec": "2"}.get(k)
                exp_base = ("self.pos", "self._pos") if k in ("z", "y", "x") else ("self.rotvec().astype(np.float32)",)
                base = norm_src(MT.expr(v.value))
                if col != exp_idx or base not in exp_base:
                    ok = False
                    det += f"; column `{k}` is written from {norm_src(v)} (expected {exp_base[0]}[:, {exp_idx}])"
            # features appended after the six columns
            wc = [c for c in calls_in(f) if isinstance(c.func, ast.Attribute) and c.func.attr == "with_columns"]
            if not (len(wc) == 1 and MT.all_of(["$df = pl.DataFrame($$d)", "$df = $df.with_columns(list(self._features))", "return $df"])[0]):
                ok = False
                det += "; features are not appended with df.with_columns(list(self._features))"
            if "astype" in norm_src(d):
                ok = False
                det += "; positions/rotations are cast inside the table"
        rep.ob("S10", f.anchor, "to_dataframe writes pos[:, 0..2] as z, y, x and rotvec[:, 0..2] (float32) as zvec, yvec, xvec, then the features", ok, det,
               node=f.node, fn=f, clause="layout", stmt="def to_dataframe table")
    # reader defaults
    for r in READERS:
        f = funcs.get(MC + r)
        if f is None:
            continue
        rep.instance("S10", f.loc())
        a = f.node.args
        names = [p.arg for p in a.args]
        defaults = dict(zip(names[len(names) - len(a.defaults):], a.defaults))
        pc, rc = _strlist(defaults.get("pos_cols")), _strlist(defaults.get("rot_cols"))
        ok = pc is not None and rc is not None and pc + rc == csv_cols
        rep.ob("S10", f.anchor, f"{r}: default pos_cols + rot_cols are the writer's six columns in the writer's order", ok, f"pos_cols={pc}, rot_cols={rc}",
               node=f.node, fn=f, clause="layout", stmt=f"def {r} defaults")
    f = funcs.get(MC + "from_dataframe")
    if f is not None:
        s = norm_src(f.node)
        rep.instance("S10", f.loc())
        ok = Matcher(f).all_of(["$pos = df.select(pos_cols)", "$rv = df.select(rot_cols)", "$cols = $pos.columns + $rv.columns",
                                "$fc = [$c for $c in df.columns if $c not in $cols]", "$feat = df.select($fc)", "$rot = Rotation.from_rotvec($rv.to_numpy())",
                                "return cls($pos.to_numpy(), $rot, features=$feat)"])[0]
        rep.ob("S10", f.anchor, "from_dataframe reads positions from pos_cols, the rotation vector from rot_cols and keeps every other column as a feature, in column order",
               ok, "", node=f.node, fn=f, clause="layout", stmt="def from_dataframe body")
    # funnels
    for r, callee in (("from_csv", "from_dataframe"), ("from_parquet", "from_dataframe")):
        f = funcs.get(MC + r)
        if f is None:
            continue
        rets = [x for x in walk_no_nested(f.node) if isinstance(x, ast.Return) and x.value is not None]
        rd = "read_csv" if r == "from_csv" else "read_parquet"
        ok = len(rets) == 1 and Matcher(f).all_of([f"$df = pl.{rd}(path, ...)", f"return cls.{callee}($df, pos_cols, rot_cols)"])[0]
        rep.instance("S10", f.loc())
        rep.ob("S10", f.anchor, f"{r} forwards (df, pos_cols, rot_cols) to from_dataframe", ok, "", node=f.node, fn=f, clause="layout", stmt=f"def {r} funnel")
    for w in ("to_csv", "to_parquet"):
        f = funcs.get(MC + w)
        if f is None:
            continue
        ok = f"self.to_dataframe().write_{w[3:]}(" in norm_src(f.node)
        rep.instance("S10", f.loc())
        rep.ob("S10", f.anchor, f"{w} writes self.to_dataframe()", ok, "", node=f.node, fn=f, clause="layout", stmt=f"def {w} funnel")
    # suffix dispatch
    tf, ff = funcs.get(MC + "to_file"), funcs.get(MC + "from_file")
    if tf is not None and ff is not None:
        def suffixes(f):
            out = []
            for n in walk_no_nested(f.node):
                if isinstance(n, ast.Compare) and "suffix" in norm_src(n.left) and isinstance(n.ops[0], ast.In):
                    out.append(tuple(_strlist(n.comparators[0]) or []))
            return out
        s1, s2 = suffixes(tf), suffixes(ff)
        rep.instance("S10", tf.loc())
        ok = len(s1) == 1 and s1 == s2 and set(s1[0]) == {".pq", ".parquet"}
        rep.ob("S10", tf.anchor, "to_file and from_file choose Parquet for the same suffix set and CSV otherwise", ok, f"writer {s1}, reader {s2}", node=tf.node,
               fn=tf, clause="layout", stmt="suffix dispatch")
        okw = "return self.to_parquet(save_path)" in norm_src(tf.node) and "return self.to_csv(save_path)" in norm_src(tf.node)
        okr = "return cls.from_parquet(path, pos_cols, rot_cols)" in norm_src(ff.node) and "return cls.from_csv(path, pos_cols, rot_cols)" in norm_src(ff.node)
        rep.ob("S10", ff.anchor, "each suffix is read by the reader of the format it was written in", okw and okr, f"writer ok {okw}, reader ok {okr}", node=ff.node,
               fn=ff, clause="layout", stmt="suffix dispatch targets")
    rep.floor("S10", 10, "(I/O table sites)")
    passthrough_clause(model, rep, funcs)
