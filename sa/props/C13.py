"""C13 - saved molecules reload unchanged: serialisation layout agreement (DESIGN 5, C13; rule S10)."""
from __future__ import annotations

import ast
from dataclasses import dataclass

from ..absint import TOP, Const, DictV, Domain, Interp, Obj, Tup
from ..repo import calls_in, dotted, norm_src, walk_no_nested
from ..match import Matcher, src as msrc
from .common import kwarg, need_funcs

MC = "acryo/molecules/core.py::Molecules."
ANCHORS = [MC + n for n in ("to_dataframe", "to_csv", "to_parquet", "to_file", "from_csv", "from_parquet", "from_file", "from_dataframe")]
READERS = ["from_file", "from_csv", "from_parquet", "from_dataframe"]


def _strlist(e):
    if isinstance(e, (ast.List, ast.Tuple)) and all(isinstance(x, ast.Constant) and isinstance(x.value, str) for x in e.elts):
        return [x.value for x in e.elts]
    return None


@dataclass(frozen=True)
class Base:
    name: str
    f32: bool = False


@dataclass(frozen=True)
class Col:
    base: Base
    idx: int


class ColDom(Domain):
    """Which array column ends up under which key of the table built by to_dataframe."""
    name = "COL"

    def __init__(self):
        self.frames = []

    def const(self, interp, value, node):
        return Const(value)

    def seed_param(self, interp, fn, arg):
        return TOP

    def seed_field(self, interp, obj, name, node):
        if name in ("_pos", "pos"):
            return Base("pos")
        if name == "_features":
            return Base("features")
        return TOP

    def attr(self, interp, val, name, node):
        if isinstance(val, Obj) and name == "pos":
            return Base("pos")
        return NotImplemented

    def call_repo(self, interp, funcs, bound, args, kwargs, node):
        names = {f.name for f in funcs}
        if names & {"rotvec"}:
            return Base("rotvec")
        if names & {"pos"}:
            return Base("pos")
        return NotImplemented

    def call_external(self, interp, name, recv, args, kwargs, node):
        last = (name or "").rsplit(".", 1)[-1]
        if last == "astype" and isinstance(recv, Base):
            return Base(recv.name, "float32" in ast.unparse(node))
        if last == "DataFrame":
            self.frames.append((args, kwargs))
            return Base("df")
        if last == "with_columns" and isinstance(recv, Base):
            self.frames.append(("with_columns", args))
            return recv
        return TOP

    def subscript(self, interp, val, index_node, index_val, node):
        if isinstance(val, Base) and isinstance(index_node, ast.Tuple) and len(index_node.elts) == 2 and isinstance(index_val, Tup):
            j = index_val.items[1]
            if isinstance(j, Const) and isinstance(j.value, int):
                return Col(val, j.value)
        if isinstance(val, Tup) and isinstance(index_val, Const) and isinstance(index_val.value, int):
            return val.items[index_val.value]
        return NotImplemented

    def binop(self, interp, op, l, r, node):
        if isinstance(l, Const) and isinstance(r, Const) and isinstance(l.value, int) and isinstance(r.value, int):
            if isinstance(op, ast.Sub):
                return Const(l.value - r.value)
            if isinstance(op, ast.Add):
                return Const(l.value + r.value)
        return TOP

    def compare(self, interp, node, vals):
        if len(vals) == 2 and all(isinstance(v, Const) and isinstance(v.value, int) for v in vals):
            a, b = vals[0].value, vals[1].value
            return Const({ast.Lt: a < b, ast.LtE: a <= b, ast.Gt: a > b, ast.GtE: a >= b, ast.Eq: a == b, ast.NotEq: a != b}[type(node.ops[0])])
        return TOP

    def truth(self, interp, val):
        if isinstance(val, Const) and isinstance(val.value, bool):
            return val.value
        return None

    def join(self, interp, a, b):
        return a if a == b else TOP


def passthrough_clause(model, rep, funcs):
    """Rows and options pass through unchanged: the readers never re-bind (filter) the data frame they are given, the writers forward the caller's
    options as they are."""
    for r in ("from_dataframe",):
        f = funcs.get(MC + r)
        if f is None:
            continue
        rep.instance("S10", f.loc())
        reb = [st for st in walk_no_nested(f.node) if isinstance(st, (ast.Assign, ast.AugAssign, ast.AnnAssign)) and
               any(isinstance(t, ast.Name) and t.id == "df" for t in (st.targets if isinstance(st, ast.Assign) else [st.target]))]
        rep.ob("S10", f.anchor, "from_dataframe uses the frame it is given as it is (no row is dropped, reordered or de-duplicated before the columns are read)",
               not reb, f"`{norm_src(reb[0])}` replaces the frame before it is read: rows disappear on reload" if reb else "", node=(reb[0] if reb else f.node), fn=f,
               clause="layout", stmt="from_dataframe frame untouched")
    for w, callee in (("to_csv", "write_csv"), ("to_parquet", "write_parquet")):
        try:
            f = funcs.get(MC + w) or model.func(MC + w)
        except Exception:
            continue
        calls = [c for c in calls_in(f) if isinstance(c.func, ast.Attribute) and c.func.attr == callee]
        rep.instance("S10", f.loc())
        ok = len(calls) == 1
        det = f"{len(calls)} {callee} call(s)"
        if ok:
            c = calls[0]
            params = set(f.param_names())
            for k in c.keywords:
                if k.arg in params and not (isinstance(k.value, ast.Name) and k.value.id == k.arg):
                    ok = False
                    det = f"`{k.arg}={norm_src(k.value)}`: the caller's `{k.arg}` is altered on the way to {callee} (None / 0 no longer mean what the caller asked for)"
            recv = norm_src(c.func.value)
            if recv not in ("self.to_dataframe()", "df") and not recv.startswith("self.to_dataframe()"):
                pass
            if w == "to_parquet" and "shrink" in norm_src(f.node):
                ok = False
                det = "column dtypes are narrowed before writing: values do not reload bit-for-bit"
        rep.ob("S10", f.anchor, f"{w} writes the table of to_dataframe() with the caller's options forwarded unchanged", ok, det if not ok else "", node=f.node, fn=f,
               clause="layout", stmt=f"def {w} passthrough")


# options of the polars readers / writers that change the values (or dtypes) that come back; acryo itself sets none of them - they are the caller's to choose
VALUE_OPTIONS = {
    "write_csv": {"float_scientific", "null_value", "decimal_comma", "datetime_format", "date_format", "time_format", "quote_style", "separator", "include_header",
                  "has_header", "line_terminator", "quote_char"},
    "read_csv": {"try_parse_dates", "schema", "schema_overrides", "dtypes", "null_values", "ignore_errors", "n_rows", "skip_rows", "skip_rows_after_header",
                 "truncate_ragged_lines", "decimal_comma", "has_header", "new_columns", "columns", "infer_schema_length", "infer_schema", "missing_utf8_is_empty_string",
                 "separator", "quote_char", "comment_prefix", "eol_char", "encoding", "row_index_name", "row_count_name", "raise_if_empty", "use_pyarrow"},
    "write_parquet": set(),
    "read_parquet": {"columns", "n_rows", "row_index_name", "row_count_name", "schema", "hive_partitioning", "use_pyarrow", "allow_missing_columns"},
}


def io_option_clause(model, rep, funcs):
    """Readers and writers add no value-altering option of their own, and the caller's **kwargs dictionary reaches polars as it was given."""
    for name in ("to_csv", "to_parquet", "from_csv", "from_parquet"):
        f = funcs.get(MC + name)
        if f is None:
            continue
        params = set(f.param_names())
        kwname = f.node.args.kwarg.arg if f.node.args.kwarg else None
        for c in calls_in(f):
            last = (dotted(c.func) or norm_src(c.func)).split(".")[-1]
            if last not in VALUE_OPTIONS:
                continue
            rep.instance("S10.options", f.loc(c))
            bad = []
            for k in c.keywords:
                if k.arg is None:
                    continue
                if k.arg in VALUE_OPTIONS[last] and not (isinstance(k.value, ast.Name) and k.value.id in params):
                    bad.append(f"`{k.arg}={norm_src(k.value)[:50]}` is set by acryo itself")
            if kwname:
                for n in ast.walk(f.node):
                    if isinstance(n, ast.Call) and isinstance(n.func, ast.Attribute) and isinstance(n.func.value, ast.Name) and n.func.value.id == kwname and \
                            n.func.attr in ("setdefault", "update", "pop", "__setitem__"):
                        key = n.args[0].value if n.args and isinstance(n.args[0], ast.Constant) else None
                        if key is None or key in VALUE_OPTIONS[last]:
                            bad.append(f"`{norm_src(n)[:60]}` changes how the file is parsed before the caller's options are forwarded")
                    if isinstance(n, (ast.Assign, ast.AugAssign)):
                        for t in (n.targets if isinstance(n, ast.Assign) else [n.target]):
                            if isinstance(t, ast.Subscript) and isinstance(t.value, ast.Name) and t.value.id == kwname:
                                bad.append(f"`{norm_src(n)[:60]}` changes the caller's options")
                            if isinstance(t, ast.Name) and t.id == kwname:
                                bad.append(f"`{norm_src(n)[:60]}` replaces the caller's options")
            rep.ob("S10", f.anchor, f"{name}: no value-altering {last} option is injected (what is written is what is read back, in plain decimal notation and with the "
                   "column types polars infers)", not bad, "; ".join(bad), node=c, fn=f, clause="layout", stmt=f"{name} {last} options")
    rep.floor("S10.options", 4, "(two writers, two readers)")


def check(model, rep, tier):
    rep.decided += ["C13 column layout: _CSV_COLUMNS == keys/indices written by to_dataframe == default pos_cols + rot_cols of every reader; features after them; "
                    "to_file/from_file dispatch on the same suffix set; readers funnel into from_dataframe, writers into to_dataframe; only the rot-vec is cast to float32"]
    rep.not_decided += ["numerical round-trip precision", "CSV number formatting", "rotation-vector branch cut near pi"]
    funcs = need_funcs(model, rep, ANCHORS)
    try:
        csv_cols = _strlist(model.const("acryo/molecules/core.py::_CSV_COLUMNS"))
    except Exception as e:
        rep.error(str(e))
        return
    rep.instance("S10", "_CSV_COLUMNS")
    want = ["z", "y", "x", "zvec", "yvec", "xvec"]
    rep.ob("S10", "acryo/molecules/core.py::_CSV_COLUMNS", "reserved column names are z, y, x, zvec, yvec, xvec in this order", csv_cols == want, f"{csv_cols}",
           clause="layout", stmt="_CSV_COLUMNS")
    # a feature that carries a reserved name would replace that coordinate column in the written table (guard shared with C12)
    f = funcs.get(MC + "to_dataframe")
    if f is not None:
        from .C12 import to_dataframe_guard_obligation
        to_dataframe_guard_obligation(rep, f, "layout")
    # writer table
    f = funcs.get(MC + "to_dataframe")
    if f is not None:
        # the table handed to pl.DataFrame is evaluated by the interpreter (dict literal, loops over _CSV_COLUMNS, ... all give the same abstract dict)
        rep.instance("S10", f.loc())
        dom = ColDom()
        Interp(model, dom, depth=0).run(f)
        tables = [a[0] for a, kw in [fr for fr in dom.frames if fr[0] != "with_columns"] if a and isinstance(a[0], DictV)]
        ok = len(tables) == 1
        det = f"{len(tables)} table(s) built"
        if ok:
            cols = tables[0].items
            keys = list(cols.keys())
            ok = keys == csv_cols
            det = f"keys {keys}"
            for k in keys:
                v = cols[k]
                want_base = Base("pos") if k in ("z", "y", "x") else Base("rotvec", True)
                want_idx = {"z": 0, "y": 1, "x": 2, "zvec": 0, "yvec": 1, "xvec": 2}.get(k)
                if not (isinstance(v, Col) and v.base == want_base and v.idx == want_idx):
                    ok = False
                    det += f"; column `{k}` is written from {v!r} (expected {want_base.name}{' as float32' if want_base.f32 else ''}[:, {want_idx}])"
            MT = Matcher(f)
            wc = [c for c in calls_in(f) if isinstance(c.func, ast.Attribute) and c.func.attr in ("with_columns", "hstack")]
            if not (len(wc) == 1 and (MT.all_of(["$df = pl.DataFrame($$d)", "$df = $df.with_columns(list(self._features))", "return $df"])[0] or
                                      MT.all_of(["$df = pl.DataFrame($$d)", "return $df.with_columns(list(self._features))"])[0] or
                                      MT.all_of(["$df = pl.DataFrame($$d)", "$out = $df.with_columns(list(self._features))", "return $out"])[0] or
                                      # DataFrame.hstack appends the columns of another frame of the same height in order (names are disjoint: guard obligation)
                                      MT.all_of(["$df = pl.DataFrame($$d)", "return $df.hstack(self._features)"])[0] or
                                      MT.all_of(["$df = pl.DataFrame($$d)", "$df = $df.hstack(self._features)", "return $df"])[0])):
                ok = False
                det += "; features are not appended with df.with_columns(list(self._features))"
        rep.ob("S10", f.anchor, "to_dataframe writes pos[:, 0..2] as z, y, x and rotvec[:, 0..2] (float32) as zvec, yvec, xvec, then the features", ok, det,
               node=f.node, fn=f, clause="layout", stmt="def to_dataframe table")
    # reader defaults
    for r in READERS:
        f = funcs.get(MC + r)
        if f is None:
            continue
        rep.instance("S10", f.loc())
        a = f.node.args
        names = [p.arg for p in a.args]
        defaults = dict(zip(names[len(names) - len(a.defaults):], a.defaults))
        pc, rc = _strlist(defaults.get("pos_cols")), _strlist(defaults.get("rot_cols"))
        ok = pc is not None and rc is not None and pc + rc == csv_cols
        rep.ob("S10", f.anchor, f"{r}: default pos_cols + rot_cols are the writer's six columns in the writer's order", ok, f"pos_cols={pc}, rot_cols={rc}",
               node=f.node, fn=f, clause="layout", stmt=f"def {r} defaults")
    f = funcs.get(MC + "from_dataframe")
    if f is not None:
        s = norm_src(f.node)
        rep.instance("S10", f.loc())
        ok = Matcher(f).all_of(["$pos = df.select(pos_cols)", "$rv = df.select(rot_cols)", "$cols = $pos.columns + $rv.columns",
                                "$fc = [$c for $c in df.columns if $c not in $cols]", "$feat = df.select($fc)", "$rot = Rotation.from_rotvec($rv.to_numpy())",
                                "return cls($pos.to_numpy(), $rot, features=$feat)"])[0] or \
            Matcher(f).all_of(["$pos = df.select(pos_cols)", "$rv = df.select(rot_cols)", "$cols = $pos.columns + $rv.columns",
                               # the complement taken by polars itself: every column that is not a position / rotation column, in frame order
                               "$feat = df.drop($cols, ...)", "$rot = Rotation.from_rotvec($rv.to_numpy())",
                               "return cls($pos.to_numpy(), $rot, features=$feat)"])[0]
        rep.ob("S10", f.anchor, "from_dataframe reads positions from pos_cols, the rotation vector from rot_cols and keeps every other column as a feature, in column order",
               ok, "", node=f.node, fn=f, clause="layout", stmt="def from_dataframe body")
    # funnels
    for r, callee in (("from_csv", "from_dataframe"), ("from_parquet", "from_dataframe")):
        f = funcs.get(MC + r)
        if f is None:
            continue
        rets = [x for x in walk_no_nested(f.node) if isinstance(x, ast.Return) and x.value is not None]
        rd = "read_csv" if r == "from_csv" else "read_parquet"
        ok = len(rets) == 1 and Matcher(f).all_of([f"$df = pl.{rd}(path, ...)", f"return cls.{callee}($df, pos_cols, rot_cols)"])[0]
        rep.instance("S10", f.loc())
        rep.ob("S10", f.anchor, f"{r} forwards (df, pos_cols, rot_cols) to from_dataframe", ok, "", node=f.node, fn=f, clause="layout", stmt=f"def {r} funnel")
    for w in ("to_csv", "to_parquet"):
        f = funcs.get(MC + w)
        if f is None:
            continue
        ok = Matcher(f).has(f"self.to_dataframe().write_{w[3:]}(...)")
        rep.instance("S10", f.loc())
        rep.ob("S10", f.anchor, f"{w} writes self.to_dataframe()", ok, "", node=f.node, fn=f, clause="layout", stmt=f"def {w} funnel")
    # suffix dispatch
    tf, ff = funcs.get(MC + "to_file"), funcs.get(MC + "from_file")
    if tf is not None and ff is not None:
        def suffixes(f):
            out = []
            for n in walk_no_nested(f.node):
                if isinstance(n, ast.Compare) and "suffix" in norm_src(n.left) and isinstance(n.ops[0], ast.In):
                    out.append(tuple(_strlist(n.comparators[0]) or []))
            return out
        # dispatch tables by representative evaluation (sa/domains/consts.py): which writer / reader is reached for which value of `<path>.suffix`
        from ..domains.consts import dispatch_table
        cands = sorted({c.value for fn_ in (tf, ff) for c in ast.walk(fn_.node) if isinstance(c, ast.Constant) and isinstance(c.value, str) and c.value.startswith(".")}
                       | {".pq", ".parquet", ".csv", ".txt", "", ".PQ", ".PARQUET", ".Parquet", ".CSV"})
        tw = dispatch_table(model, tf, "suffix", cands, {"to_parquet", "to_csv"})
        tr = dispatch_table(model, ff, "suffix", cands, {"from_parquet", "from_csv"})
        s1 = sorted(v for v, c in tw.items() if c == ["to_parquet"])
        s2 = sorted(v for v, c in tr.items() if c == ["from_parquet"])
        rest_ok = all(c == ["to_csv"] for v, c in tw.items() if v not in s1) and all(c == ["from_csv"] for v, c in tr.items() if v not in s2)
        rep.instance("S10", tf.loc())
        # upper/mixed-case spellings are candidates too: whichever way they go, writer and reader must agree on them (seeded change C13-16: a case-insensitive reader
        # next to a case-sensitive writer reads "x.PARQUET", written as CSV, with the Parquet reader)
        ok = s1 == s2 and [v for v in s1 if v == v.lower()] == [".parquet", ".pq"] and rest_ok
        rep.ob("S10", tf.anchor, "to_file and from_file choose Parquet for the same suffix set and CSV otherwise", ok, f"writer {tw}, reader {tr}"[:300], node=tf.node,
               fn=tf, clause="layout", stmt="suffix dispatch")
        MT_, MF_ = Matcher(tf), Matcher(ff)
        def _routes(fn_, M_, callee_, pname_, rest_=()):
            # `return <recv>.<callee>(<path>, *rest)` where <path> is the path parameter itself or a local bound to Path(<parameter>)
            for r_ in walk_no_nested(fn_.node):
                if isinstance(r_, ast.Return) and isinstance(r_.value, ast.Call) and isinstance(r_.value.func, ast.Attribute) and r_.value.func.attr == callee_ and r_.value.args:
                    a0 = M_.expr(r_.value.args[0])
                    while isinstance(a0, ast.Call) and (dotted(a0.func) or "").rsplit(".", 1)[-1] == "Path" and a0.args:
                        a0 = a0.args[0]
                    if isinstance(a0, ast.Name) and a0.id == pname_ and [norm_src(x) for x in r_.value.args[1:]] == list(rest_):
                        return True
            return False

        okw = (MT_.has("return self.to_parquet(save_path)") and MT_.has("return self.to_csv(save_path)")) or \
            (_routes(tf, MT_, "to_parquet", "save_path") and _routes(tf, MT_, "to_csv", "save_path"))
        okr = (MF_.has("return cls.from_parquet(path, pos_cols, rot_cols)") and MF_.has("return cls.from_csv(path, pos_cols, rot_cols)")) or \
            (_routes(ff, MF_, "from_parquet", "path", ("pos_cols", "rot_cols")) and _routes(ff, MF_, "from_csv", "path", ("pos_cols", "rot_cols")))
        rep.ob("S10", ff.anchor, "each suffix is read by the reader of the format it was written in", okw and okr, f"writer ok {okw}, reader ok {okr}", node=ff.node,
               fn=ff, clause="layout", stmt="suffix dispatch targets")
    rep.floor("S10", 10, "(I/O table sites)")
    io_option_clause(model, rep, funcs)
    passthrough_clause(model, rep, funcs)
