"""Helpers shared by the per-property obligation tables."""
from __future__ import annotations

import ast
from collections import OrderedDict

from ..absint import TOP, Interp
from ..repo import AnchorMissing, FuncInfo, Model, norm_src, walk_no_nested, dotted


def need_funcs(model: Model, rep, anchors: list[str]) -> dict[str, FuncInfo]:
    """Resolve anchors; a vanished anchor is an analysis error (exit 2), never a pass."""
    out = {}
    for a in anchors:
        try:
            out[a] = model.func(a)
        except AnchorMissing as e:
            rep.error(f"anchor vanished: {e}")
    return out


class SinkTable:
    """Collects abstract values observed at sinks over several evaluation contexts.

    A sink is identified by (function anchor, normalised statement text, slot).  Over all
    contexts: any 'refuted' -> refuted; else any 'ok' -> discharged; else undecided (the
    value was TOP in every context).
    """

    def __init__(self):
        self.sinks: "OrderedDict[tuple, dict]" = OrderedDict()

    def observe(self, fn: FuncInfo, node: ast.AST, slot: str, status, detail: str, desc: str, stmt: str | None = None):
        key = (fn.anchor, stmt if stmt is not None else norm_src(node), slot)
        e = self.sinks.setdefault(key, {"fn": fn, "node": node, "slot": slot, "desc": desc, "ok": 0, "bad": [], "top": 0, "stmt": key[1]})
        if status is True:
            e["ok"] += 1
        elif status is False:
            if detail not in e["bad"]:
                e["bad"].append(detail)
        else:
            e["top"] += 1

    def emit(self, rep, rule: str, clause: str = ""):
        for (anchor, stmt, slot), e in self.sinks.items():
            if e["bad"]:
                ok, detail = False, "; ".join(e["bad"])
            elif e["ok"]:
                ok, detail = True, ""
            else:
                ok, detail = None, "abstract value is TOP at the sink in every evaluation context"
            rep.instance(rule, f"{e['fn'].loc(e['node'])} {slot}")
            rep.ob(rule, anchor, f"{e['desc']} [{slot}]", ok, detail, node=e["node"], fn=e["fn"], clause=clause, stmt=stmt)


def stmt_of(fn: FuncInfo, node: ast.AST) -> ast.stmt | None:
    """The simple statement of fn that contains ``node``."""
    best = None
    for st in ast.walk(fn.node):
        if isinstance(st, ast.stmt) and not isinstance(st, (ast.FunctionDef, ast.ClassDef, ast.If, ast.For, ast.While, ast.With, ast.Try)):
            for x in ast.walk(st):
                if x is node:
                    best = st
    return best


def find_calls(fn: FuncInfo, pred) -> list[ast.Call]:
    return [n for n in sorted((x for x in walk_no_nested(fn.node) if isinstance(x, ast.Call)), key=lambda c: (c.lineno, c.col_offset)) if pred(n)]


def call_name(call: ast.Call) -> str:
    f = call.func
    if isinstance(f, ast.Attribute):
        return f.attr
    if isinstance(f, ast.Name):
        return f.id
    return ""


def kwarg(call: ast.Call, name: str) -> ast.expr | None:
    for k in call.keywords:
        if k.arg == name:
            return k.value
    return None


def arg_or_kw(call: ast.Call, pos: int, name: str) -> ast.expr | None:
    v = kwarg(call, name)
    if v is not None:
        return v
    if pos < len(call.args) and not isinstance(call.args[pos], ast.Starred):
        return call.args[pos]
    return None


def rotation_centre_obligations(model, rep, fn, clause, rule="A"):
    """Every ``compose_matrices(centre, rotators)`` call in ``fn`` whose centre is computed from an array shape rotates about the
    array's centre (n - 1) / 2 on every axis (affine normal form; independent of how the expression is spelled)."""
    import ast as _ast
    from ..absint import TOP as _TOP, ExtRef as _Ext, Interp as _Interp, Tup as _Tup
    from ..domains.affine import mkA as _mkA
    from ..domains.arrays import Arr as _Arr, ArrayDomain as _AD
    from ..match import Matcher as _M
    from ..repo import calls_in as _calls, dotted as _dotted
    n = 0
    M = _M(fn)
    for c in _calls(fn):
        if not (_dotted(c.func) or "").endswith("compose_matrices") or not c.args:
            continue
        expr = M.expr(c.args[0])
        if not any(isinstance(x, _ast.Attribute) and x.attr == "shape" for x in _ast.walk(expr)) and \
                not any(isinstance(x, _ast.Name) and "shape" in x.id for x in _ast.walk(expr)):
            continue  # centre given by the caller (checked at the caller)
        dom = _AD(model, integer_syms={"r0", "r1", "r2"}, positive_syms={"r0", "r1", "r2"})
        t = tuple(dom.sym(k) for k in ("r0", "r1", "r2"))
        env = {"np": _Ext("numpy")}
        for x in _ast.walk(expr):
            if isinstance(x, _ast.Name) and x.id not in ("np", "self"):
                env[x.id] = _Tup(list(t)) if "shape" in x.id else _Arr(t)
        # attribute chains rooted at self (self._template.shape): evaluate with the field bound to a 3-D array
        class _D(_AD):
            def seed_field(self, interp, obj, name, node):
                return _Arr(t)
        dom = _D(model, integer_syms={"r0", "r1", "r2"}, positive_syms={"r0", "r1", "r2"})
        it = _Interp(model, dom, depth=0)
        try:
            v = it.eval_in_function(fn, expr, env) if hasattr(it, "eval_in_function") else it.eval(expr, dict(env, **_self_env(it, fn)), fn)
        except Exception:
            v = _TOP
        vv = dom.vec(v) if v is not _TOP else None
        n += 1
        rep.instance(rule + ".centre", fn.loc(c))
        ok = None
        det = f"centre evaluates to {v!r}"[:160]
        if vv and len(vv) == 3:
            ok = all(vv[i].equals(dom.div(dom.add(t[i], _mkA(-1)), _mkA(2))) for i in range(3))
            det = "" if ok else f"rotation centre {vv!r} is not the array centre (n - 1) / 2"
        rep.ob(rule, fn.anchor, "rotations are taken about the array centre (n - 1) / 2 (the same centre on both sides of the transform)", ok, det, node=c, fn=fn,
               clause=clause)
    return n


def _self_env(it, fn):
    from ..absint import Obj
    if fn.cls is not None:
        return {"self": Obj(fn.cls, tag="self")}
    return {}
