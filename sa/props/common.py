"""Helpers shared by the per-property obligation tables."""
from __future__ import annotations

import ast
from collections import OrderedDict

from ..absint import TOP, Interp
from ..repo import AnchorMissing, FuncInfo, Model, norm_src, walk_no_nested, dotted


def need_funcs(model: Model, rep, anchors: list[str]) -> dict[str, FuncInfo]:
    """Resolve anchors; a vanished anchor is an analysis error (exit 2), never a pass."""
    out = {}
    for a in anchors:
        try:
            out[a] = model.func(a)
        except AnchorMissing as e:
            alias = _alias_target(model, a)
            if alias is not None:
                # `from .other import f as _f`: the anchored name is now another definition of the repository; the rules apply to that definition
                if alias.anchor not in anchors:
                    out[a] = alias
                else:
                    rep.instance("ALIAS", a)
                rep.note(f"{a} is an alias of {alias.anchor}" + (" (which is analysed under its own name)" if alias.anchor in anchors else ""))
                continue
            if _private_and_unreferenced(model, a):
                # a private helper that no longer exists and is not mentioned anywhere: it was inlined into (or merged with) its callers, whose own rules
                # still apply; the rules about the helper itself have nothing to look at
                rep.note(f"private helper {a} no longer exists and nothing refers to it (inlined or merged): its own obligations are vacuous")
                continue
            rep.error(f"anchor vanished: {e}")
    return out


def _alias_target(model: Model, anchor: str):
    rel, qual = anchor.split("::")
    if "." in qual:
        return None
    try:
        mod = model.module(rel)
        r = model.resolve_dotted(mod, qual)
    except Exception:
        return None
    return r if isinstance(r, FuncInfo) else None


def _private_and_unreferenced(model: Model, anchor: str) -> bool:
    import re
    name = anchor.split("::")[-1].split(".")[-1].split("@")[0]
    if not name.startswith("_") or (name.startswith("__") and name.endswith("__")):
        return False
    pat = re.compile(r"\b" + re.escape(name) + r"\b")
    mods = model.modules.values() if isinstance(model.modules, dict) else model.modules
    return not any(pat.search(m.source) for m in mods)


class SinkTable:
    """Collects abstract values observed at sinks over several evaluation contexts.

    A sink is identified by (function anchor, normalised statement text, slot).  Over all
    contexts: any 'refuted' -> refuted; else any 'ok' -> discharged; else undecided (the
    value was TOP in every context).
    """

    def __init__(self):
        self.sinks: "OrderedDict[tuple, dict]" = OrderedDict()

    def observe(self, fn: FuncInfo, node: ast.AST, slot: str, status, detail: str, desc: str, stmt: str | None = None):
        key = (fn.anchor, stmt if stmt is not None else norm_src(node), slot)
        e = self.sinks.setdefault(key, {"fn": fn, "node": node, "slot": slot, "desc": desc, "ok": 0, "bad": [], "top": 0, "stmt": key[1]})
        if status is True:
            e["ok"] += 1
        elif status is False:
            if detail not in e["bad"]:
                e["bad"].append(detail)
        else:
            e["top"] += 1

    def emit(self, rep, rule: str, clause: str = ""):
        for (anchor, stmt, slot), e in self.sinks.items():
            if e["bad"]:
                ok, detail = False, "; ".join(e["bad"])
            elif e["ok"]:
                ok, detail = True, ""
            else:
                ok, detail = None, "abstract value is TOP at the sink in every evaluation context"
            rep.instance(rule, f"{e['fn'].loc(e['node'])} {slot}")
            rep.ob(rule, anchor, f"{e['desc']} [{slot}]", ok, detail, node=e["node"], fn=e["fn"], clause=clause, stmt=stmt)


def stmt_of(fn: FuncInfo, node: ast.AST) -> ast.stmt | None:
    """The simple statement of fn that contains ``node``."""
    best = None
    for st in ast.walk(fn.node):
        if isinstance(st, ast.stmt) and not isinstance(st, (ast.FunctionDef, ast.ClassDef, ast.If, ast.For, ast.While, ast.With, ast.Try)):
            for x in ast.walk(st):
                if x is node:
                    best = st
    return best


def find_calls(fn: FuncInfo, pred) -> list[ast.Call]:
    return [n for n in sorted((x for x in walk_no_nested(fn.node) if isinstance(x, ast.Call)), key=lambda c: (c.lineno, c.col_offset)) if pred(n)]


def call_name(call: ast.Call) -> str:
    f = call.func
    if isinstance(f, ast.Attribute):
        return f.attr
    if isinstance(f, ast.Name):
        return f.id
    return ""


def kwarg(call: ast.Call, name: str) -> ast.expr | None:
    for k in call.keywords:
        if k.arg == name:
            return k.value
    return None


def arg_or_kw(call: ast.Call, pos: int, name: str) -> ast.expr | None:
    v = kwarg(call, name)
    if v is not None:
        return v
    if pos < len(call.args) and not isinstance(call.args[pos], ast.Starred):
        return call.args[pos]
    return None


def positional_view(model, fn, call: ast.Call) -> list:
    """The arguments of ``call`` in the order of the callee's positional parameters, whether they were passed by position or by keyword (callee resolved in the
    source model; unresolved callees and starred arguments give the positional arguments as written)."""
    args = list(call.args)
    if any(isinstance(a, ast.Starred) for a in args) or any(k.arg is None for k in call.keywords):
        return args
    try:
        kind, tg = model.resolve_call(fn, call)
    except Exception:
        return args
    callee = None
    if kind == "repo" and tg:
        callee = tg[0]
    elif kind == "class" and tg:
        callee = tg[0].find_method("__init__")
    if callee is None:
        return args
    a = callee.node.args
    ps = [x.arg for x in list(a.posonlyargs) + list(a.args)]
    if callee.cls is not None and callee.parent is None and not callee.is_staticmethod and ps:
        ps = ps[1:]
    kw = {k.arg: k.value for k in call.keywords}
    out = list(args)
    i = len(out)
    while i < len(ps) and ps[i] in kw:
        out.append(kw[ps[i]])
        i += 1
    return out


def rotation_centre_obligations(model, rep, fn, clause, rule="A"):
    """Every ``compose_matrices(centre, rotators)`` call in ``fn`` whose centre is computed from an array shape rotates about the
    array's centre (n - 1) / 2 on every axis (affine normal form; independent of how the expression is spelled)."""
    import ast as _ast
    from ..absint import TOP as _TOP, ExtRef as _Ext, Interp as _Interp, Tup as _Tup
    from ..domains.affine import mkA as _mkA
    from ..domains.arrays import Arr as _Arr, ArrayDomain as _AD
    from ..match import Matcher as _M
    from ..repo import calls_in as _calls, dotted as _dotted
    n = 0
    M = _M(fn)
    for c in _calls(fn):
        if not (_dotted(c.func) or "").endswith("compose_matrices") or not c.args:
            continue
        expr = M.expr(c.args[0])
        if not any(isinstance(x, _ast.Attribute) and x.attr == "shape" for x in _ast.walk(expr)) and \
                not any(isinstance(x, _ast.Name) and "shape" in x.id for x in _ast.walk(expr)):
            continue  # centre given by the caller (checked at the caller)
        dom = _AD(model, integer_syms={"r0", "r1", "r2"}, positive_syms={"r0", "r1", "r2"})
        t = tuple(dom.sym(k) for k in ("r0", "r1", "r2"))
        env = {"np": _Ext("numpy")}
        for x in _ast.walk(expr):
            if isinstance(x, _ast.Name) and x.id not in ("np", "self"):
                env[x.id] = _Tup(list(t)) if "shape" in x.id else _Arr(t)
        # attribute chains rooted at self (self._template.shape): evaluate with the field bound to a 3-D array
        class _D(_AD):
            def seed_field(self, interp, obj, name, node):
                return _Arr(t)
        dom = _D(model, integer_syms={"r0", "r1", "r2"}, positive_syms={"r0", "r1", "r2"})
        it = _Interp(model, dom, depth=0)
        try:
            v = it.eval_in_function(fn, expr, env) if hasattr(it, "eval_in_function") else it.eval(expr, dict(env, **_self_env(it, fn)), fn)
        except Exception:
            v = _TOP
        vv = dom.vec(v) if v is not _TOP else None
        n += 1
        rep.instance(rule + ".centre", fn.loc(c))
        ok = None
        det = f"centre evaluates to {v!r}"[:160]
        if vv and len(vv) == 3:
            ok = all(vv[i].equals(dom.div(dom.add(t[i], _mkA(-1)), _mkA(2))) for i in range(3))
            det = "" if ok else f"rotation centre {vv!r} is not the array centre (n - 1) / 2"
        # a shape that is sliced (`X.shape[-3:]`) belongs to an array that may carry leading axes (a stack of templates): the centre must be that of the
        # last three axes there too
        sliced = any(isinstance(x, _ast.Subscript) and isinstance(x.slice, _ast.Slice) and isinstance(x.value, _ast.Attribute) and x.value.attr == "shape"
                     for x in _ast.walk(expr))
        if ok and sliced:
            class _D4(_AD):
                def seed_field(self, interp, obj, name, node):
                    return _Arr((self.sym("T"),) + t4)
            dom4 = _D4(model, integer_syms={"r0", "r1", "r2", "T"}, positive_syms={"r0", "r1", "r2", "T"})
            t4 = tuple(dom4.sym(k) for k in ("r0", "r1", "r2"))
            env4 = {"np": _Ext("numpy")}
            for x in _ast.walk(expr):
                if isinstance(x, _ast.Name) and x.id not in ("np", "self"):
                    env4[x.id] = _Arr((dom4.sym("T"),) + t4)
            it4 = _Interp(model, dom4, depth=0)
            try:
                v4 = it4.eval(expr, dict(env4, **_self_env(it4, fn)), fn)
            except Exception:
                v4 = _TOP
            vv4 = dom4.vec(v4) if v4 is not _TOP else None
            if vv4 and len(vv4) == 3 and not all(vv4[i].equals(dom4.div(dom4.add(t4[i], _mkA(-1)), _mkA(2))) for i in range(3)):
                ok = False
                det = f"for a stack of shape (T, n0, n1, n2) the rotation centre is {vv4!r}, not the centre of the last three axes"
        rep.ob(rule, fn.anchor, "rotations are taken about the array centre (n - 1) / 2 (the same centre on both sides of the transform)", ok, det, node=c, fn=fn,
               clause=clause)
    return n


def _self_env(it, fn):
    from ..absint import Obj
    if fn.cls is not None:
        return {"self": Obj(fn.cls, tag="self")}
    return {}


def accumulator_scope_obligations(model, rep, fn, clause, rule="S25"):
    """`outer.append(inner)` inside a loop, where `inner` is itself filled by `.append/.extend` inside that loop, needs a fresh `inner` per
    iteration (an assignment to `inner` inside the loop): otherwise every entry of `outer` is the same list holding the items of all iterations."""
    import ast as _ast
    from ..repo import walk_no_nested as _walk, norm_src as _ns
    n = 0
    for lp in _walk(fn.node):
        if not isinstance(lp, _ast.For):
            continue
        inner_nodes = list(_ast.walk(lp))
        filled = {c.func.value.id for c in inner_nodes if isinstance(c, _ast.Call) and isinstance(c.func, _ast.Attribute) and c.func.attr in ("append", "extend")
                  and isinstance(c.func.value, _ast.Name)}
        for c in inner_nodes:
            if isinstance(c, _ast.Call) and isinstance(c.func, _ast.Attribute) and c.func.attr == "append" and isinstance(c.func.value, _ast.Name) and \
                    len(c.args) == 1 and isinstance(c.args[0], _ast.Name) and c.args[0].id in filled and c.args[0].id != c.func.value.id:
                inner = c.args[0].id
                # is the call directly in this loop (not in a deeper loop that would be handled on its own)?
                deeper = [l2 for l2 in inner_nodes if isinstance(l2, _ast.For) and l2 is not lp and any(x is c for x in _ast.walk(l2))]
                if deeper:
                    continue
                fresh = any(isinstance(s, (_ast.Assign, _ast.AnnAssign)) and any(isinstance(t, _ast.Name) and t.id == inner for t in
                            (s.targets if isinstance(s, _ast.Assign) else [s.target])) for s in inner_nodes)
                n += 1
                rep.instance(rule, fn.loc(c))
                rep.ob(rule, fn.anchor, f"the per-iteration list `{inner}` collected by `{_ns(c)}` is created anew in every iteration of the loop",
                       fresh, "" if fresh else f"`{inner}` is created once before the loop: every entry of `{c.func.value.id}` is the same list and holds the items of all "
                       f"iterations (each group gets the data of all groups)", node=c, fn=fn, clause=clause)
    return n


def swapped_argument_obligations(model, rep, fn, call, clause, rule="ARGS"):
    """A bare name passed positionally to a repository callable that has a parameter of exactly that name must land on that parameter
    (``f(stack, mask, n_clusters, n_components)`` against ``def f(stack, mask, n_components, n_clusters)`` silently swaps the two)."""
    import ast as _ast
    from ..repo import norm_src as _ns
    kind, tg = model.resolve_call(fn, call)
    if kind == "class" and tg:
        init = tg[0].find_method("__init__") if hasattr(tg[0], "find_method") else None
        if init is None:
            return 0
        callee = init
    elif kind == "repo" and tg:
        callee = tg[0]
    else:
        return 0
    params = callee.param_names()
    if params and params[0] in ("self", "cls"):
        params = params[1:]
    bad = []
    for i, a in enumerate(call.args):
        if isinstance(a, _ast.Starred) or i >= len(params):
            break
        if isinstance(a, _ast.Name) and a.id != params[i] and a.id in params:
            bad.append(f"argument `{a.id}` is passed in the position of parameter `{params[i]}` of {callee.short}")
    for k in call.keywords:
        if k.arg and isinstance(k.value, _ast.Name) and k.value.id != k.arg and k.value.id in params and k.arg in params:
            other = [k2 for k2 in call.keywords if k2.arg == k.value.id]
            if other and isinstance(other[0].value, _ast.Name) and other[0].value.id == k.arg:
                bad.append(f"keywords `{k.arg}` and `{k.value.id}` receive each other's value")
    rep.instance(rule, fn.loc(call))
    rep.ob(rule, fn.anchor, f"the arguments of `{_ns(call.func)}(...)` reach the parameters they are named after", not bad, "; ".join(bad), node=call, fn=fn, clause=clause,
           stmt=f"arguments of {_ns(call.func)}")
    return 1


def consumed_after_loop_obligations(model, rep, fn, clause, rule="S25"):
    """A collector that is filled inside a loop (`X.append(..)`, `X.add_task(..)`) and consumed after it (`X.compute()`, `return X`, `f(X)`) must be created
    before the loop: created inside, only the items of the last iteration survive."""
    import ast as _ast
    from ..repo import walk_no_nested as _walk, norm_src as _ns
    n = 0
    seen = set()
    body_loops = [lp for lp in _walk(fn.node) if isinstance(lp, _ast.For)]
    for lp in body_loops:
        inside = list(_ast.walk(lp))
        filled = {}
        for c in inside:
            if isinstance(c, _ast.Call) and isinstance(c.func, _ast.Attribute) and c.func.attr in ("append", "extend", "add_task", "add_tasks", "update") and \
                    isinstance(c.func.value, _ast.Name):
                filled.setdefault(c.func.value.id, c)
        if not filled:
            continue
        inside_ids = {id(x) for x in inside}
        for name, call in filled.items():
            used_after = any(isinstance(x, _ast.Name) and x.id == name and isinstance(x.ctx, _ast.Load) and id(x) not in inside_ids and
                             getattr(x, "lineno", 0) > (lp.end_lineno or lp.lineno) for x in _ast.walk(fn.node))
            if not used_after:
                continue
            created_inside = [st for st in inside if isinstance(st, (_ast.Assign, _ast.AnnAssign)) and
                              any(isinstance(t, _ast.Name) and t.id == name for t in (st.targets if isinstance(st, _ast.Assign) else [st.target]))]
            key = (name, id(created_inside[0]) if created_inside else id(call))
            if key in seen:
                continue
            seen.add(key)
            n += 1
            rep.instance(rule, fn.loc(call))
            rep.ob(rule, fn.anchor, f"the collector `{name}` that is consumed after the loop is created before the loop", not created_inside,
                   f"`{_ns(created_inside[0])[:70]}` re-creates `{name}` in every iteration: what earlier iterations collected is dropped (only the last component / group "
                   "contributes)" if created_inside else "", node=(created_inside[0] if created_inside else call), fn=fn, clause=clause)
    return n


def ball_footprint(M, r="$r", radius="radius", binds=None):
    """Is there a boolean array `sum_k offset_k**2 <= radius**2` over the integer offsets -r..r on three axes (a centred ball in a (2r+1)^3 box)?
    The idioms by which numpy code builds such a footprint are enumerated: np.indices shifted by r, np.ogrid / np.mgrid over slice(-r, r+1),
    one np.arange(-r, r+1) broadcast along the three axes.  Summand order is free."""
    import itertools
    b0 = dict(binds or {})
    grids = [
        ([f"$z, $y, $x = np.indices((2 * {r} + 1,) * 3, ...)"], ("($z - {r}) ** 2", "($y - {r}) ** 2", "($x - {r}) ** 2")),
        ([f"$z, $y, $x = np.indices((2 * {r} + 1, 2 * {r} + 1, 2 * {r} + 1), ...)"], ("($z - {r}) ** 2", "($y - {r}) ** 2", "($x - {r}) ** 2")),
        ([f"$z, $y, $x = np.ogrid[slice(-{r}, {r} + 1), slice(-{r}, {r} + 1), slice(-{r}, {r} + 1)]"], ("$z ** 2", "$y ** 2", "$x ** 2")),
        ([f"$z, $y, $x = np.ogrid[-{r}:{r} + 1, -{r}:{r} + 1, -{r}:{r} + 1]"], ("$z ** 2", "$y ** 2", "$x ** 2")),
        ([f"$z, $y, $x = np.mgrid[-{r}:{r} + 1, -{r}:{r} + 1, -{r}:{r} + 1]"], ("$z ** 2", "$y ** 2", "$x ** 2")),
        ([f"$a = np.arange(-{r}, {r} + 1)"], ("$a[:, None, None] ** 2", "$a[None, :, None] ** 2", "$a[None, None, :] ** 2")),
        ([f"$a = np.arange(-{r}, {r} + 1)"], ("$a[:, np.newaxis, np.newaxis] ** 2", "$a[np.newaxis, :, np.newaxis] ** 2", "$a[np.newaxis, np.newaxis, :] ** 2")),
    ]
    for pre, terms in grids:
        for perm in itertools.permutations(terms):
            pats = pre + [(" + ".join(perm) + f" <= {radius} ** 2").replace("{r}", r)]
            pats = [q.replace("{r}", r) for q in pats]
            b = dict(b0)
            try:
                ok, _ = M.all_of(pats, b)
            except Exception:
                ok = False
            if ok:
                if binds is not None:
                    binds.update(b)
                return True
    return False


DASK_NAMING_CALLEES = {"from_delayed", "from_array", "delayed", "map_blocks", "blockwise", "from_zarr", "stack", "concatenate"}
UNIQUE_TOKENS = {"tokenize", "uuid4", "uuid1", "token_hex", "id"}


def dask_key_obligations(model, rep, clause, rule="KEY"):
    """Graph keys.  Arrays and tasks of different loaders are evaluated in one dask graph (BatchLoader stacks its sub-loaders' tasks, LoaderGroup computes all
    groups at once); dask merges graph entries that carry the same key.  dask's own generated keys are unique.  An explicit key (``dask_key_name=``, or ``name=`` of
    from_delayed / from_array / delayed / map_blocks) is used verbatim, so it must contain a unique token - a key built from constants and a per-loader running
    index is shared by the i-th task of every loader, and one loader's sub-tomograms then replace another's.  `name=False` (no hashing, random name) is fine."""
    n = 0
    for fn in model.all_functions:
        for c in ast.walk(fn.node):
            if not isinstance(c, ast.Call):
                continue
            last = (dotted(c.func) or "").rsplit(".", 1)[-1] if not isinstance(c.func, ast.Call) else "<call>"
            is_dask_site = last in ("from_delayed", "from_array", "delayed", "map_blocks") or isinstance(c.func, ast.Call) and (dotted(c.func.func) or "").rsplit(".", 1)[-1] == "delayed"
            kws = [k for k in c.keywords if k.arg == "dask_key_name" or (k.arg == "name" and last in DASK_NAMING_CALLEES)]
            if is_dask_site or kws:
                if not fn.module.relpath.startswith("acryo/"):
                    continue
                n += 1
                rep.instance(rule + ".site", fn.loc(c))
            for k in kws:
                v = k.value
                if isinstance(v, ast.Constant) and v.value in (False, None):
                    continue
                names = set()
                for x in ast.walk(v):
                    if isinstance(x, ast.Call):
                        names.add((dotted(x.func) or "").rsplit(".", 1)[-1])
                # one level of local definitions
                for x in ast.walk(v):
                    if isinstance(x, ast.Name):
                        for st in ast.walk(fn.node):
                            if isinstance(st, ast.Assign) and any(isinstance(t, ast.Name) and t.id == x.id for t in st.targets):
                                for y in ast.walk(st.value):
                                    if isinstance(y, ast.Call):
                                        names.add((dotted(y.func) or "").rsplit(".", 1)[-1])
                ok = bool(names & UNIQUE_TOKENS)
                rep.ob(rule, fn.anchor, "an explicit dask key contains a unique token (keys are used verbatim and merged across the loaders of one graph)", ok,
                       f"`{k.arg}={norm_src(v)[:60]}` is the same for the corresponding task of every loader", node=c, fn=fn, clause=clause)
    return n


ARRAY_BUILDERS = {"array", "asarray", "stack", "vstack", "hstack", "column_stack", "concatenate", "transpose", "reshape", "atleast_2d", "swapaxes"}


def frame_orientation_obligations(model, rep, fn, clause, rule="ORIENT"):
    """A polars DataFrame built from ONE two-dimensional array has no stated orientation: polars infers rows/columns from the run-time shape (and, for a square
    array, from its memory layout), so `DataFrame(np.array(results).T, schema)` is the transposed table whenever the number of rows happens to equal the number of
    columns.  A table whose row i must belong to molecule i is therefore built from a sequence / dict of columns, or states `orient=`."""
    from ..match import Matcher
    M = Matcher(fn)
    n = 0
    for c in ast.walk(fn.node):
        if not (isinstance(c, ast.Call) and (dotted(c.func) or "").rsplit(".", 1)[-1] == "DataFrame" and (c.args or any(k.arg == "data" for k in c.keywords))):
            continue
        n += 1
        rep.instance(rule + ".frame", fn.loc(c))
        x = c.args[0] if c.args else [k.value for k in c.keywords if k.arg == "data"][0]
        x = M.expr(x)
        top = None
        if isinstance(x, ast.Attribute) and x.attr == "T":
            top = ".T"
        elif isinstance(x, ast.Call):
            nm = (dotted(x.func) or "").rsplit(".", 1)[-1] if not isinstance(x.func, ast.Call) else None
            if nm in ARRAY_BUILDERS:
                top = nm
        has_orient = any(k.arg == "orient" for k in c.keywords)
        ok = top is None or has_orient
        rep.ob(rule, fn.anchor, "a result table is built from a sequence of columns (or states orient=), not from one 2-D array whose orientation polars infers "
               "from the run-time shape", ok, f"`{norm_src(c)[:80]}`: a single array ({top}) without orient=", node=c, fn=fn, clause=clause)
    return n


class ClauseView:
    """View of a report that files every obligation of a shared clause under the borrowing property's own clause name."""

    def __init__(self, rep, clause):
        self._rep, self._clause = rep, clause

    def ob(self, *a, **kw):
        kw["clause"] = self._clause
        return self._rep.ob(*a, **kw)

    def __getattr__(self, k):
        return getattr(self._rep, k)
