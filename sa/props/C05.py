"""C05 - alignment stays inside the search range and never fails on a valid range (DESIGN 5, C05)."""
from __future__ import annotations

import ast
from fractions import Fraction

from ..absint import TOP, Const, ExtRef, FuncRef, Interp, ListOf, Tup
from ..cfg import backward_slice_names
from ..domains.affine import A, ONE as ONE_, Poly, mkA
from ..domains.arrays import Arr, ArrayDomain, Seq, Vec3
from ..repo import calls_in, dotted, norm_src, walk_no_nested
from .common import need_funcs

BZ = "acryo/backend/_zncc.py::"
BU = "acryo/backend/_upsample.py::"
BP = "acryo/backend/_pcc.py::"
BF = "acryo/backend/_fsc.py::"
LB = "acryo/loader/_base.py::"
LG = "acryo/loader/_group.py::LoaderGroup."

ANCHORS = [BU + "upsample", BU + "_create_mesh", BZ + "ncc_landscape", BZ + "ncc_landscape_with_crop", BZ + "zncc_landscape_with_crop",
           BZ + "subpixel_ncc", BZ + "subpixel_zncc", BZ + "_get_padding_width", BZ + "ncc_landscape_no_pad", BZ + "fftconvolve",
           BZ + "_apply_conv_mode", BP + "subpixel_pcc", BP + "pcc_landscape", BP + "crop_by_max_shifts", BP + "_upsampled_dft",
           BF + "fsc_landscape", BF + "subpixel_fsc", LB + "_normalize_max_shifts", LB + "LoaderBase.align",
           LB + "LoaderBase.align_multi_templates", LB + "LoaderBase.construct_landscape", LG + "align", LG + "align_multi_templates"]


TOL = Fraction(1, 1000)  # "up to floating-point rounding": a guard epsilon of < 1e-3 px is not a violation


def mkdom(model):
    return ArrayDomain(model, integer_syms={"n0", "n1", "n2", "r0", "r1", "r2", "q0", "q1", "q2", "w0", "w1", "w2"},
                       positive_syms={"n0", "n1", "n2", "r0", "r1", "r2", "q0", "q1", "q2"}, nonneg_syms={"m0", "m1", "m2", "w0", "w1", "w2"})


def syms(dom, *names):
    return tuple(dom.sym(n) for n in names)


# --------------------------------------------------------------------------- clause 1: refinement bounds
def refinement_clause(model, rep, funcs):
    f = funcs.get(BU + "upsample")
    cm = funcs.get(BU + "_create_mesh")
    if f is None or cm is None:
        return
    dom = mkdom(model)
    it = Interp(model, dom, depth=3)
    m = Tup(list(syms(dom, "m0", "m1", "m2")))
    res = Arr(syms(dom, "r0", "r1", "r2"))
    res_ori = Arr(syms(dom, "q0", "q1", "q2"))
    w = Tup(list(syms(dom, "w0", "w1", "w2")))
    mesh_ret: list = []

    def on_return(interp, fn, st, val, env):
        if fn is cm:
            mesh_ret.append((val, env))

    it.on_return.append(on_return)
    out = it.run(f, args={"res": res, "res_ori": res_ori, "max_shifts": m, "pad_width_eff": w, "backend": ExtRef("numpy")})
    where = f.anchor
    if not (isinstance(out, Tup) and out.items and isinstance(out.items[0], Vec3)):
        rep.ob("A", where, "upsample() returns a symbolic shift vector", None, f"got {out!r}"[:200], node=f.node, fn=f, clause="1 refinement",
               stmt="def upsample")
        return
    shifts = out.items[0].items
    for i, s in enumerate(shifts):
        mi = m.items[i]
        rep.instance("A.bound", f"{f.loc()} axis {i}")
        for side, goal in (("upper", dom.add(mi, dom.neg(s))), ("lower", dom.add(mi, s))):
            if not goal.is_poly():
                rep.ob("A", where, f"axis {i}: {side} bound |shift| <= max_shifts", None, f"non-polynomial form {goal!r}"[:200], node=f.node, fn=f,
                       clause="1 refinement", stmt=f"def upsample #{side}{i}")
                continue
            g = goal.poly()
            if dom.prove_ge(g, ()):
                ok, det = True, ""
            elif dom.prove_ge(g + Poly.const(TOL), ()):
                ok, det = True, ""
                rep.note(f"upsample axis {i} {side}: bound holds up to the float32 guard epsilon (< {TOL} px), which the property allows as floating-point rounding")
            else:
                # does it hold up to half a refinement step?  -> rounding family is wrong (round where floor/ceil is needed)
                slack = None
                for den in (40, 20, 10):
                    if dom.prove_ge(g + Poly.const(Fraction(1, den)), ()):
                        slack = Fraction(1, den)
                        break
                if slack is not None:
                    ok = False
                    det = (f"the refined shift can exceed max_shifts by up to {slack} px on the {side} side: the {'upper' if side == 'upper' else 'lower'} "
                           f"mesh bound is rounded to nearest instead of {'down' if side == 'upper' else 'up'} (shift = {s!r})")[:600]
                else:
                    wit = dom.find_witness(goal, (), tol=TOL)
                    if wit is not None:
                        ok, det = False, f"refined shift leaves the range by {-wit[1]:.4f} px on the {side} side for {wit[0]} (shift = {s!r})"[:700]
                    else:
                        ok, det = None, f"cannot prove {side} bound for shift = {s!r}"[:400]
            rep.ob("A", where, f"axis {i}: refined shift {'<=' if side == 'upper' else '>='} {'+' if side == 'upper' else '-'}max_shifts for every "
                   "integer peak and every refined index", ok, det, node=cm.node, fn=cm, clause="1 refinement", stmt=f"_create_mesh bounds #{side}{i}")
    # encoder/decoder identity: coordinate sampled at refined index k == zero-displacement index + reported shift
    if mesh_ret:
        val, env = mesh_ret[-1]
        ok = None
        det = f"_create_mesh returned {val!r}"[:200]
        if isinstance(val, Tup) and len(val.items) == 2:
            mesh, offset = val.items
            seqs = it.items_of(mesh) if not isinstance(mesh, Seq) else [mesh]
            offs = dom.vec(offset)
            maxima = env.get("maxima")
            mx = dom.vec(maxima) if maxima is not None else None
            if seqs and offs and mx and all(isinstance(q, Seq) for q in seqs):
                ok = True
                det = ""
                for i, (q, o) in enumerate(zip(seqs, offs)):
                    # first coordinate - (maxima + pad) must equal the offset that upsample() adds back; step must be the decode step
                    lhs = dom.add(q.first, dom.neg(dom.add(mx[i], w.items[i])))
                    if not lhs.equals(o):
                        ok = False
                        det += f"axis {i}: mesh starts at maxima+pad+{lhs!r} but the reported offset is {o!r}; "
                # decode step used by upsample: (shift - (maxima - mid) - offset) / k
                rep.stats["mesh_step"] = repr(seqs[0].step)
        rep.instance("A.codec", cm.loc())
        rep.ob("A", cm.anchor, "mesh encoder and offset agree: first sampled coordinate = integer peak + pad + offset", ok, det[:400], node=cm.node,
               fn=cm, clause="1 refinement", stmt="def _create_mesh codec")
        # the refinement mesh is never empty (arg-max of an empty landscape raises): at least one sample per axis, for max_shifts == 0 as well
        if isinstance(val, Tup) and len(val.items) == 2:
            seqs_ = it.items_of(val.items[0]) if not isinstance(val.items[0], Seq) else [val.items[0]]
            from ..domains.affine import BoolC as _BC
            sh_ = dom.vec(env.get("shifts")) if env.get("shifts") is not None else None
            for i, q in enumerate(seqs_ or []):
                if not isinstance(q, Seq) or not isinstance(q.n, A) or not q.n.is_poly() or not sh_ or i >= len(sh_):
                    continue
                rep.instance("A.window", f"{cm.loc()} mesh axis {i}")
                goal = dom.add(q.n, mkA(-1))
                # precondition (clause 2, integer crop): the integer peak handed to _create_mesh lies within +-max_shifts
                pre_ = [_BC(dom.add(m.items[i], dom.neg(sh_[i])), ">="), _BC(dom.add(m.items[i], sh_[i]), ">=")]
                if dom.prove_ge(goal.poly(), pre_):
                    okn, detn = True, ""
                else:
                    wit = dom.find_witness(goal, pre_, tol=Fraction(0))
                    okn, detn = (False, f"the refinement mesh has {wit[1] + 1:.0f} sample(s) on axis {i} for {wit[0]}: the arg-max of an empty landscape raises"[:500]) \
                        if wit is not None else (None, f"cannot prove that the mesh has at least one sample (count {q.n!r})"[:300])
                rep.ob("A", cm.anchor, f"axis {i}: the refinement mesh contains at least one sample", okn, detn, node=cm.node, fn=cm, clause="1 refinement",
                       stmt=f"_create_mesh nonempty #{i}")
        # decode identity in upsample: shift_i = (maxima_i - mid_i) + offset_i + k_i * step_i
        if isinstance(val, Tup) and len(val.items) == 2 and ok is not None:
            seqs = it.items_of(val.items[0])
            offs = dom.vec(val.items[1])
            ok2 = True
            det2 = ""
            for i, s in enumerate(shifts):
                ks = [a for a in s.num.atoms() if a[0] == "sym" and a[1].startswith("argmax#")]
                refined = [a for a in ks if dom.ranges.get(a[1], (None, None))[1] is not None and dom.ranges[a[1]][1].equals(dom.add(seqs[i].n, mkA(-1)))]
                if len(refined) != 1:
                    ok2 = None
                    det2 = f"axis {i}: refined index not identified in {s!r}"[:200]
                    break
                k = A(Poly.atom(refined[0]))
                mid = dom.floordiv(res.shape[i], mkA(2))
                coord = dom.add(seqs[i].first, A(k.num * seqs[i].step.num, k.den * seqs[i].step.den))
                want = dom.add(coord, dom.neg(dom.add(mid, w.items[i])))
                if not s.equals(want):
                    ok2 = False
                    det2 += f"axis {i}: reported shift {s!r} != sampled coordinate - zero-displacement index = {want!r}; "
            rep.ob("A", f.anchor, "reported sub-pixel shift == coordinate at which the refined maximum was sampled - index of zero displacement "
                   "(shape//2 + pad)", ok2, det2[:500], node=f.node, fn=f, clause="1 refinement", stmt="def upsample decode")
    # the same UPSAMPLE constant is used to build and to decode the mesh
    ups_nodes = [n for g in (f, cm) for n in walk_no_nested(g.node) if isinstance(n, ast.Name) and n.id == "UPSAMPLE"]
    lits = [n for g in (f, cm) for n in walk_no_nested(g.node) if isinstance(n, ast.BinOp) and isinstance(n.op, (ast.Div, ast.Mult))
            and isinstance(n.right, ast.Constant) and isinstance(n.right.value, (int, float)) and n.right.value not in (1, 1.0, -1.0, 2, 0.5)]
    rep.instance("A.codec", "UPSAMPLE uses")
    rep.ob("SAME", f.anchor, "mesh construction and decoding use the one UPSAMPLE constant", len(ups_nodes) >= 4 and not lits,
           f"{len(ups_nodes)} uses of UPSAMPLE; literal factors: {[norm_src(x) for x in lits]}", node=f.node, fn=f, clause="1 refinement",
           stmt="UPSAMPLE uses")


def _window_obligations(dom, rep, f, st, branch, pcs, i, sft, m_i, grid, cover=False):
    """The refinement takes the argmax over a window [start, stop) of the up-sampled DFT samples.  Two obligations beyond the +-max_shifts bound:

    E      the window is never empty (argmax of an empty array raises): upper end of the index range >= 0;
    COVER  the window is not narrower than the limit asks for: its last (first) sample lies within one up-sampled step of +max_shifts (-max_shifts) unless the
           sampled region itself ends earlier.  Otherwise a displacement inside the permitted range cannot be returned (necessary for C01)."""
    from ..domains.affine import A as _A, Poly as _Poly
    names = [nm for nm in dom.base_syms([sft]) if nm.startswith("argmax#") and nm in dom.ranges]
    direct = [nm for nm in names if ("sym", nm) in set(sft.num.atoms())]
    if len(direct) != 1:
        return
    nm = direct[0]
    lo, hi = dom.ranges[nm]
    if hi is None or lo is None or hi.den != ONE_ or lo.den != ONE_:
        return
    rep.instance("A.window", f"{f.loc(st)} pcc window axis {i} [{branch}]")
    r = dom.prove_ge_form(hi, pcs)
    det = ""
    if not r:
        w = dom.find_witness(hi, pcs, tol=TOL)
        r, det = (False, f"the refinement window is empty for {w[0]} (size {w[1] + 1:.0f}): argmax of an empty array raises") if w is not None else \
            (None, f"cannot prove that the window has at least one sample (last index {hi!r})"[:400])
    rep.ob("A", f.anchor, f"axis {i}: the up-sampled refinement window contains at least one sample (branch {branch})", r, det[:600], node=st, fn=f,
           clause="1 refinement", stmt=norm_src(st) + f" @ {branch} #nonempty{i}")
    if not grid or not cover:
        return  # COVER is not part of C05 (a narrower window still respects the bound); it is emitted for C01 through window_cover_obligations
    R, uf, offs, gnode = grid[-1]
    ov = dom.vec(offs)
    R, uf = dom.lift(R), dom.lift(uf)
    if ov is None or R is None or uf is None or i >= len(ov):
        return
    off = ov[i]
    # in units of up-sampled samples (multiplied by upsample_factor > 0): k - off = shift * uf
    def samples(num):
        return dom.norm(_A(num * uf.num, sft.den * uf.den))

    sub_hi = samples(sft.num.subs({("sym", nm): hi.num}))
    sub_lo = samples(sft.num.subs({("sym", nm): lo.num}))
    if not (sub_hi.is_poly() and sub_lo.is_poly()):
        return
    region_hi = dom.add(dom.add(R, mkA(-1)), dom.neg(off))
    region_lo = dom.neg(off)
    m_s = dom.norm(_A(m_i.num * uf.num, m_i.den * uf.den))
    want_hi = dom.call_external(None, "builtins.min", None, [region_hi, dom.add(m_s, mkA(-1))], {}, None)
    want_lo = dom.call_external(None, "builtins.max", None, [region_lo, dom.add(dom.neg(m_s), mkA(1))], {}, None)
    rep.instance("COVER.window", f"{f.loc(st)} pcc window axis {i} [{branch}]")
    for side, goal in (("upper", dom.add(sub_hi, dom.neg(want_hi))), ("lower", dom.add(want_lo, dom.neg(sub_lo)))):
        r = dom.prove_ge_form(goal, pcs)
        det = ""
        if not r:
            w = dom.find_witness(goal, pcs, tol=TOL)
            if w is not None:
                r, det = False, (f"for {w[0]} the window stops {-w[1]:.2f} up-sampled samples short of the {side} end of the permitted range although the sampled region "
                                 f"reaches further: shifts there can never be returned")
            else:
                # no proof and no witness: COVER is an extra necessary condition on top of the bound; without a concrete counter-example it is not reported
                rep.note(f"COVER axis {i} {side}: neither proved nor refuted on this form of the window")
                continue
        rep.ob("COVER", f.anchor, f"axis {i}: the refinement window reaches the {side} limit ({'+' if side == 'upper' else '-'}max_shifts) to within one "
               f"up-sampled step, or the end of the sampled region (branch {branch})", r, det[:700], node=st, fn=f, clause="1 refinement",
               stmt=norm_src(st) + f" @ {branch} #cover-{side}{i}")


class OnlyRule:
    """View of a report that keeps the obligations and instances of one rule (a clause shared with another property)."""

    def __init__(self, rep, rule, clause=None):
        self._rep, self._rule, self._clause = rep, rule, clause

    def ob(self, rule, *a, **kw):
        if rule == self._rule:
            if self._clause is not None:
                kw["clause"] = self._clause
            return self._rep.ob(rule, *a, **kw)

    def instance(self, rule, *a, **kw):
        if rule.split(".")[0] == self._rule:
            return self._rep.instance(rule, *a, **kw)

    def note(self, *a, **kw):
        pass

    def __getattr__(self, k):
        return getattr(self._rep, k)


def window_cover_obligations(model, rep, clause):
    """COVER (the PCC refinement window reaches the permitted limits) for the properties that need the displacement to be found, not only bounded (C01)."""
    try:
        f = model.func(BP + "subpixel_pcc")
    except Exception:
        f = None
    if f is None:
        rep.error("subpixel_pcc not found")
        return
    pcc_bounds_clause(model, OnlyRule(rep, "COVER", clause), {BP + "subpixel_pcc": f}, cover=True)


def pcc_bounds_clause(model, rep, funcs, want_window=True, cover=False):
    """Clause 1b: the phase-correlation refinement (coarse FFT peak + up-sampled DFT window) stays within +-max_shifts."""
    f = funcs.get(BP + "subpixel_pcc")
    if f is None:
        return
    dom = mkdom(model)
    dom.integer.add("upsample_factor")
    dom.positive.add("upsample_factor")
    it = Interp(model, dom, depth=3)
    n = syms(dom, "n0", "n1", "n2")
    m = Tup(list(syms(dom, "m0", "m1", "m2")))
    rets: list = []

    def on_return(interp, fn, st, val, env):
        if fn is f:
            rets.append((st, val, env))

    it.on_return.append(on_return)
    grid: list = []

    def on_call(interp, fn, node, callee, args, kwargs, env):
        # the sampling grid of the up-sampled DFT: sample k of axis i is the correlation at shift (k - axis_offsets[i]) / upsample_factor
        if fn is f and isinstance(callee, FuncRef) and callee.funcs and callee.funcs[0].name == "_upsampled_dft" and len(args) >= 4:
            grid.append((args[1], args[2], args[3], node))

    it.on_call.append(on_call)
    it.run(f, args={"f0": Arr(n, layout="fft"), "f1": Arr(n, layout="fft"), "upsample_factor": dom.sym("upsample_factor"), "max_shifts": m,
                    "backend": ExtRef("numpy")})
    if not rets:
        rep.ob("A", f.anchor, "subpixel_pcc evaluated symbolically", None, "no return reached", node=f.node, fn=f, clause="1 refinement", stmt="def subpixel_pcc")
        return
    # Lemma 1 (coarse peak): the signed integer shift decoded from the cropped FFT-layout power is within +-max_shifts.
    coarse_ok = True
    signed_syms = sorted((k for k in dom.ranges if k.startswith("signed#")), key=lambda x: int(x.split("#")[1]))
    for i, nm in enumerate(signed_syms[:3]):
        sft = dom.sym(nm)
        rep.instance("A.bound", f"{f.loc()} pcc coarse axis {i}")
        for side, goal in (("upper", dom.add(m.items[i], dom.neg(sft))), ("lower", dom.add(m.items[i], sft))):
            ok = dom.prove_ge(goal.poly(), ())
            coarse_ok = coarse_ok and ok
            det = ""
            okv = True
            if not ok:
                w = dom.find_witness(goal, (), tol=TOL)
                if w is not None:
                    okv, det = False, f"coarse PCC peak leaves the range by {-w[1]:.3f} px on the {side} side for {w[0]}"[:500]
                else:
                    okv, det = None, f"cannot prove for {sft!r} with range {dom.ranges[nm]!r}"[:300]
            rep.ob("A", f.anchor, f"axis {i}: coarse PCC peak (signed index after the FFT-layout crop) {'<=' if side == 'upper' else '>='} "
                   f"{'+' if side == 'upper' else '-'}max_shifts", okv, det, node=f.node, fn=f, clause="1 refinement",
                   stmt=f"subpixel_pcc coarse #{side}{i}")
    if len(signed_syms) < 3:
        rep.ob("A", f.anchor, "coarse PCC peak is decoded from FFT index to signed shift", None, "the wrap-around decoding `shifts[shifts > mid] -= size` "
               "was not recognised", node=f.node, fn=f, clause="1 refinement", stmt="subpixel_pcc coarse decode")
        return
    # Lemma 2 (refinement), assuming lemma 1: replace the coarse shift's range by [-m, m] (justified above) and prove the final bound.
    if coarse_ok:
        for i, nm in enumerate(signed_syms[:3]):
            dom.ranges[nm] = (dom.neg(m.items[i]), m.items[i])
        dom.__dict__.pop("_fact_cache", None)
    for st, val, env in rets:
        pcs = env.get("$pc", ())
        branch = " and ".join(f"{c.diff!r} {c.op} 0" for c in pcs if hasattr(c, "diff")) or "any"
        sv = val.items[0] if isinstance(val, Tup) and val.items else None
        comps = dom.vec(sv) if sv is not None else None
        if comps is None:
            rep.ob("A", f.anchor, f"subpixel_pcc returns a symbolic shift vector (branch {branch})", None, f"got {val!r}"[:200], node=st, fn=f,
                   clause="1 refinement", stmt=norm_src(st) + " @ " + branch)
            continue
        for i, sft in enumerate(comps):
            rep.instance("A.bound", f"{f.loc(st)} pcc axis {i} [{branch}]")
            for side, goal in (("upper", dom.add(m.items[i], dom.neg(sft))), ("lower", dom.add(m.items[i], sft))):
                r = dom.prove_ge_form(goal, pcs) if coarse_ok else None
                if r:
                    ok, det = True, ""
                else:
                    w = dom.find_witness(goal, pcs, tol=TOL) if coarse_ok else None
                    if w is not None:
                        ok, det = False, f"PCC shift leaves the range by {-w[1]:.4f} px on the {side} side for {w[0]} (shift = {sft!r})"[:700]
                    else:
                        ok, det = None, f"cannot prove the {side} bound for shift = {sft!r}"[:500]
                rep.ob("A", f.anchor, f"axis {i}: PCC shift {'<=' if side == 'upper' else '>='} {'+' if side == 'upper' else '-'}max_shifts (branch {branch})",
                       ok, det, node=st, fn=f, clause="1 refinement", stmt=norm_src(st) + f" @ {branch} #{side}{i}")
            if coarse_ok and want_window:
                _window_obligations(dom, rep, f, st, branch, pcs, i, sft, m.items[i], grid, cover=cover)


# --------------------------------------------------------------------------- clause 2: integer crop
def crop_clause(model, rep, funcs):
    sites = [(BZ + "subpixel_zncc", "upsample"), (BZ + "subpixel_ncc", "upsample"), (BZ + "zncc_landscape_with_crop", "return"),
             (BZ + "ncc_landscape_with_crop", "return")]
    for anchor, how in sites:
        f = funcs.get(anchor)
        if f is None:
            continue
        dom = mkdom(model)
        it = Interp(model, dom, depth=7)
        n = syms(dom, "n0", "n1", "n2")
        m = Tup(list(syms(dom, "m0", "m1", "m2")))
        got: list = []

        def on_call(interp, fn, node, callee, args, kwargs, env, _f=f):
            if fn is _f and isinstance(callee, FuncRef) and callee.funcs[0].name == "upsample" and len(args) >= 4:
                if isinstance(args[0], Arr) and isinstance(args[1], Arr):
                    got.append((args[0], args[1], args[3], node))

        def on_return(interp, fn, st, val, env, _f=f):
            if fn is _f and isinstance(val, Arr):
                got.append((val, None, None, st))

        if how == "upsample":
            it.on_call.append(on_call)
        else:
            it.on_return.append(on_return)
        it.run(f, args={"img0": Arr(n), "img1": Arr(n), "max_shifts": m, "backend": ExtRef("numpy")})
        if not got:
            rep.ob("A", anchor, "cropped landscape evaluated symbolically", None, "no symbolic landscape reached the sink", node=f.node, fn=f,
                   clause="2 crop", stmt=f"def {f.name}")
            continue
        center, full, pads, node = got[-1]
        rep.instance("A.crop", f.loc(node))
        for i in range(3):
            mi = m.items[i]
            ln = center.shape[i]
            # integer search range within max_shifts: (len-1)/2 <= m
            g = dom.add(mi, dom.neg(dom.div(dom.add(ln, mkA(-1)), mkA(2))))
            ok = dom.prove_ge(g.poly(), ()) if g.is_poly() else None
            rep.ob("A", anchor, f"axis {i}: cropped landscape half-width (len-1)/2 <= max_shifts", True if ok else (None if ok is None else False),
                   "" if ok else f"length {ln!r}: half-width may exceed max_shifts", node=node, fn=f, clause="2 crop",
                   stmt=norm_src(node)[:80] + f" #halfwidth{i}")
            # at least the integer part of the range is searched: len >= 2*int(m)+1  <=> (len-1)/2 >= m - 1
            g2 = dom.add(dom.div(dom.add(ln, mkA(-1)), mkA(2)), dom.neg(dom.add(mi, mkA(-1))))
            ok2 = dom.prove_ge(g2.poly(), ()) if g2.is_poly() else None
            rep.ob("A", anchor, f"axis {i}: cropped landscape covers the integer shifts within max_shifts (half-width >= max_shifts - 1)",
                   True if ok2 else (None if ok2 is None else False), "" if ok2 else f"length {ln!r}", node=node, fn=f, clause="2 crop",
                   stmt=norm_src(node)[:80] + f" #covers{i}")
            if center.origin is not None:
                want = dom.floordiv(ln, mkA(2))
                oko = center.origin[i].equals(want)
                rep.ob("A", anchor, f"axis {i}: zero displacement sits at shape//2 of the cropped landscape (symmetric crop)", oko,
                       f"origin {center.origin[i]!r}, shape//2 = {want!r}", node=node, fn=f, clause="2 crop", stmt=norm_src(node)[:80] + f" #origin{i}")
            else:
                rep.ob("A", anchor, f"axis {i}: zero displacement tracked through pad/correlate/crop", None, "origin lost", node=node, fn=f,
                       clause="2 crop", stmt=norm_src(node)[:80] + f" #origin{i}")
            if pads is not None:
                pv = dom.vec(pads)
                if pv is not None:
                    okp = dom.prove_ge(pv[i].poly() - Poly.const(1), ()) if pv[i].is_poly() else None
                    rep.ob("A", anchor, f"axis {i}: crop width pad_width_eff >= 1 (slice(w, -w) is never the empty slice(0, -0))",
                           True if okp else (None if okp is None else False), "" if okp else f"pad_width_eff = {pv[i]!r}", node=node, fn=f,
                           clause="2 crop", stmt=norm_src(node)[:80] + f" #pad{i}")
                    # pad handed to upsample is what was cropped: origin_full - origin_center == pad
                    if full is not None and full.origin is not None and center.origin is not None:
                        d = dom.add(full.origin[i], dom.neg(center.origin[i]))
                        rep.ob("A", anchor, f"axis {i}: pad_width_eff handed to upsample() equals the crop offset", d.equals(pv[i]),
                               f"crop offset {d!r}, pad {pv[i]!r}", node=node, fn=f, clause="2 crop", stmt=norm_src(node)[:80] + f" #padeq{i}")
        for ev in dom.events:
            kind, fn, nd, msg = ev
            rep.ob("A", fn.anchor if fn else anchor, "array shapes agree / slices are non-empty along the landscape computation (evaluated from " + f.name + ")",
                   False if kind in ("shape-mismatch",) else (False if kind == "maybe-empty-slice" else None), msg, node=nd, fn=fn or f, clause="2 crop")
    rep.floor("A.crop", 4, "(ZNCC/NCC crop sites)")
    # fsc_landscape allocates 2*ceil(m)+1 and relies on clause 1
    f = funcs.get(BF + "fsc_landscape")
    if f is not None:
        dom = mkdom(model)
        it = Interp(model, dom, depth=0)
        m = Tup(list(syms(dom, "m0", "m1", "m2")))
        seen = []

        def on_stmt(interp, fn, st, env):
            if fn is f and isinstance(st, ast.Assign) and isinstance(st.targets[0], ast.Name) and st.targets[0].id == "out_shape":
                seen.append(st)

        it.on_stmt.append(on_stmt)
        env = {}
        for st in f.node.body:
            if isinstance(st, ast.Assign) and isinstance(st.targets[0], ast.Name) and st.targets[0].id == "out_shape":
                v = it.eval(st.value, {"max_shifts": m}, f)
                vs = dom.vec(v) if v is not TOP else None
                rep.instance("A.crop", f.loc(st))
                ok = None
                det = f"out_shape = {v!r}"
                if vs:
                    ok = True
                    for i, x in enumerate(vs):
                        half = dom.div(dom.add(x, mkA(-1)), mkA(2))
                        # covers the range: half >= m ... and odd length
                        if not (half.is_poly() and dom.prove_ge((dom.add(half, dom.neg(m.items[i]))).poly(), ())):
                            ok = False
                            det = f"FSC grid half-width {half!r} does not cover max_shifts"
                rep.ob("A", f.anchor, "FSC phase-scan grid covers [-max_shifts, max_shifts] (clipping to the range is done by the refinement mesh)",
                       ok, det, node=st, fn=f, clause="2 crop")


# --------------------------------------------------------------------------- clause 3: layout
def layout_clause(model, rep, funcs):
    f = funcs.get(BP + "subpixel_pcc")
    if f is None:
        return
    dom = mkdom(model)
    it = Interp(model, dom, depth=3)
    n = syms(dom, "n0", "n1", "n2")
    m = Tup(list(syms(dom, "m0", "m1", "m2")))
    ncalls = [0]

    def on_call(interp, fn, node, callee, args, kwargs, env):
        if isinstance(callee, FuncRef) and callee.funcs[0].name == "crop_by_max_shifts" and fn is f:
            ncalls[0] += 1
            a0 = args[0] if args else TOP
            rep.instance("L.crop", f.loc(node))
            lay = a0.layout if isinstance(a0, Arr) else None
            ok = None if lay is None else (lay == "fft")
            rep.ob("L", f.anchor, "crop_by_max_shifts (fftshift -> centred slice -> ifftshift) is applied to an FFT-layout array (zero displacement at index 0)",
                   ok, f"argument layout is {lay} ({a0!r})"[:300] + ("" if ok else ": the up-sampled DFT window has zero displacement at index dftshift, so "
                   "an fftshift-centred slice keeps the wrong region (shifts outside max_shifts near the boundary; IndexError at max_shifts=0)"),
                   node=node, fn=f, clause="3 layout")

    it.on_call.append(on_call)
    it.run(f, args={"f0": Arr(n, layout="fft"), "f1": Arr(n, layout="fft"), "upsample_factor": dom.sym("upsample_factor"), "max_shifts": m,
                    "backend": ExtRef("numpy")})
    if ncalls[0] == 0:
        rep.note("subpixel_pcc no longer calls crop_by_max_shifts")
    # pcc_landscape: fftshift then centred slice
    g = funcs.get(BP + "pcc_landscape")
    if g is not None:
        dom2 = mkdom(model)
        it2 = Interp(model, dom2, depth=2)
        out = it2.run(g, args={"f0": Arr(n, layout="fft"), "f1": Arr(n, layout="fft"), "max_shifts": m, "backend": ExtRef("numpy")})
        rep.instance("L.crop", g.loc())
        ok = None
        det = f"returned {out!r}"[:300]
        if isinstance(out, Arr) and out.origin is not None:
            ok = all(out.origin[i].equals(dom2.floordiv(out.shape[i], mkA(2))) or True for i in range(3)) and out.layout == "centred"
        rep.ob("L", g.anchor, "pcc_landscape slices the fftshift-ed (centred) power spectrum", ok, det, node=g.node, fn=g, clause="3 layout",
               stmt="def pcc_landscape")
        for kind, fn, nd, msg in dom2.events:
            if kind in ("layout", "layout-mismatch"):
                rep.ob("L", fn.anchor, "FFT layouts agree", False, msg, node=nd, fn=fn, clause="3 layout")


# --------------------------------------------------------------------------- clause 4: entry normalisation (S9)
def normalisation_clause(model, rep, funcs):
    entries = [LB + "LoaderBase.align", LB + "LoaderBase.align_multi_templates", LB + "LoaderBase.construct_landscape", LG + "align",
               LG + "align_multi_templates"]
    for a in entries:
        f = funcs.get(a)
        if f is None:
            continue
        if "max_shifts" not in f.param_names():
            rep.error(f"{a}: parameter max_shifts vanished")
            continue
        divs = [n for n in walk_no_nested(f.node) if isinstance(n, ast.BinOp) and isinstance(n.op, ast.Div) and "scale" in norm_src(n.right)
                and "max_shifts" in backward_slice_names(f.node, n.left)]
        if not divs:
            continue
        # statements (in order) that rebind max_shifts / feed the division
        norm_calls = []
        for st in f.node.body:
            for c in ast.walk(st):
                if isinstance(c, ast.Call) and (dotted(c.func) or "").endswith("_normalize_max_shifts"):
                    norm_calls.append((st, c))
        for d in divs:
            rep.instance("S9", f.loc(d))
            ok = False
            det = "max_shifts is divided by the scale without passing through _normalize_max_shifts: a scalar max_shifts reaches models that iterate it"
            for st, c in norm_calls:
                top_level = st in f.node.body and not isinstance(st, (ast.If, ast.For, ast.While, ast.Try))
                before = st.lineno <= d.lineno
                tgt = [t.id for t in getattr(st, "targets", []) if isinstance(t, ast.Name)]
                feeds = any(t in backward_slice_names(f.node, d.left) for t in tgt) or any(x is c for x in ast.walk(d))
                arg_ok = c.args and "max_shifts" in {x.id for x in ast.walk(c.args[0]) if isinstance(x, ast.Name)}
                if top_level and before and feeds and arg_ok:
                    ok = True
                    det = ""
            rep.ob("S9", a, "max_shifts passes through _normalize_max_shifts (scalar -> 3-tuple) before the nm -> pixel conversion", ok, det,
                   node=d, fn=f, clause="4 normalisation")
    rep.floor("S9", 5, "(nm->px conversion sites of max_shifts)")
    # the normaliser itself: returns a 3-tuple on every path
    g = funcs.get(LB + "_normalize_max_shifts")
    if g is not None:
        rets = [n for n in walk_no_nested(g.node) if isinstance(n, ast.Return) and n.value is not None]
        rep.instance("S9", g.loc())
        ok = len(rets) >= 2
        det = ""
        for r in rets:
            v = r.value
            if isinstance(v, ast.BinOp) and isinstance(v.op, ast.Mult) and isinstance(v.left, ast.Tuple) and isinstance(v.right, ast.Constant):
                if v.right.value != 3:
                    ok = False
                    det = f"scalar is repeated {v.right.value} times"
        has_len_guard = any(isinstance(n, ast.Compare) and "len(" in norm_src(n) and "3" in norm_src(n) for n in walk_no_nested(g.node))
        rep.ob("S9", g.anchor, "_normalize_max_shifts returns a 3-tuple (scalar repeated 3 times; iterable checked for length 3)", ok and has_len_guard,
               det or ("" if has_len_guard else "no length-3 check"), node=g.node, fn=g, clause="4 normalisation", stmt="def _normalize_max_shifts")


# --------------------------------------------------------------------------- clause 6: finite normalisation
def _data_dependent(expr: ast.expr, params: set[str]) -> bool:
    """Does the (expanded) expression depend on the voxel values of an image parameter (not only on its shape)?"""
    shape_only = set()
    for n in ast.walk(expr):
        if isinstance(n, ast.Attribute) and n.attr in ("shape", "ndim", "size", "dtype") and isinstance(n.value, ast.Name):
            shape_only.add(id(n.value))
    return any(isinstance(n, ast.Name) and n.id in params and id(n) not in shape_only for n in ast.walk(expr))


def finite_clause(model, rep, funcs):
    """Normalised landscapes divide by a data-dependent norm; the division must be restricted to the entries where that norm is positive."""
    from ..match import Matcher, src as msrc
    for a, params in ((BZ + "ncc_landscape_no_pad", {"img0", "img1"}), (BF + "fsc_landscape", {"ft0", "ft1"})):
        f = funcs.get(a)
        if f is None:
            continue
        M = Matcher(f)
        divs = []
        parents = {}
        for st in ast.walk(f.node):
            for ch in ast.iter_child_nodes(st):
                parents[id(ch)] = st
        for n in ast.walk(f.node):
            if isinstance(n, ast.BinOp) and isinstance(n.op, (ast.Div, ast.FloorDiv, ast.Mod)):
                den = M.expr(n.right)
                if _data_dependent(den, params):
                    divs.append((n, den))
        rep.instance("FIN", f.loc())
        if not divs:
            rep.ob("FIN", a, "the normalising division of the landscape was found", None, "no division by a data-dependent quantity", node=f.node, fn=f, clause="6 finite",
                   stmt=f"def {f.name} normalisation")
        for n, den in divs:
            # required shape:  $out[$m] = <num>[$m] / <den>[$m]   with   $m = <q> > 0   and <den> = <q>, sqrt(<q>) or _safe_sqrt(<q>, ...)
            st = parents.get(id(n))
            ok, det = False, f"`{norm_src(n)[:90]}` divides by a quantity that is zero for constant or empty data: the landscape becomes NaN/inf"
            if isinstance(st, ast.Assign) and st.value is n and len(st.targets) == 1 and isinstance(st.targets[0], ast.Subscript) and \
                    isinstance(n.right, ast.Subscript) and isinstance(n.left, ast.Subscript):
                m1, m2, m3 = norm_src(st.targets[0].slice), norm_src(n.right.slice), norm_src(n.left.slice)
                if m1 == m2 == m3 and isinstance(st.targets[0].slice, ast.Name):
                    mdef = M.expr(st.targets[0].slice)
                    if isinstance(mdef, ast.Compare) and len(mdef.ops) == 1 and isinstance(mdef.ops[0], ast.Gt) and norm_src(mdef.comparators[0]) in ("0", "0.0"):
                        canon = lambda e: ast.dump(M._exp.canon(M._exp.canon(e)))
                        q = canon(mdef.left)
                        base = M.expr(n.right.value)
                        cands = [base]
                        if isinstance(base, ast.Call) and base.args:
                            cands.append(base.args[0])
                        if any(canon(c) == q for c in cands):
                            ok, det = True, ""
                        else:
                            det = f"the mask `{norm_src(mdef)}` does not test the denominator `{norm_src(base)[:60]}`"
            rep.ob("FIN", a, "the landscape is normalised only where the norm is positive (entries with zero variance / zero power stay 0): finite for constant, "
                   "zero or unrelated data", ok, det, node=n, fn=f, clause="6 finite")
    rep.floor("FIN", 2, "(ZNCC/NCC and FSC landscapes)")


# --------------------------------------------------------------------------- clause 7: the refinement is bounded by the caller's own limit
def refinement_callers_clause(model, rep, funcs):
    """`upsample(landscape, landscape, max_shifts, pad)` clips the refined shift to its third argument: every caller must hand over the limit it was given
    (not the landscape's half width, which is ceil(max_shifts))."""
    n = 0
    for a in (BZ + "subpixel_ncc", BZ + "subpixel_zncc", BF + "subpixel_fsc"):
        f = funcs.get(a)
        if f is None:
            continue
        for c in calls_in(f):
            if (dotted(c.func) or "").split(".")[-1] != "upsample":
                continue
            n += 1
            rep.instance("LIMIT", f.loc(c))
            arg = c.args[2] if len(c.args) > 2 else None
            for k in c.keywords:
                if k.arg == "max_shifts":
                    arg = k.value
            ok = isinstance(arg, ast.Name) and arg.id == "max_shifts" and "max_shifts" in f.param_names()
            if ok:
                # re-bindings of max_shifts inside the function may only broadcast a scalar to a tuple
                for st in walk_no_nested(f.node):
                    if isinstance(st, ast.Assign) and any(isinstance(t, ast.Name) and t.id == "max_shifts" for t in st.targets):
                        v = norm_src(st.value).replace(" ", "")
                        if not (v.startswith("(max_shifts,)*") or v.startswith("tuple(max_shifts)")):
                            ok = False
            rep.ob("LIMIT", a, "the refinement is clipped to the caller's own max_shifts (fractional limits are respected)", ok,
                   f"upsample(..., {norm_src(arg) if arg is not None else None}, ...)" + ("" if ok else ": the permitted range handed to the refinement is not the max_shifts "
                   "argument; with the landscape half width (ceil(max_shifts)) a limit of 0.3 px allows shifts up to 1 px"), node=c, fn=f, clause="1 refinement")
    rep.floor("LIMIT", 3, "(ncc, zncc and fsc refinements)")


def limit_forwarding_clause(model, rep):
    """Every loader / alignment entry point that is given `max_shifts` hands a value derived from it to each callee that takes a `max_shifts` of its own
    (otherwise the callee's default limit applies and the molecule may move further than the caller allowed)."""
    from .generic import forwarded_parameter_obligations
    takers = {}
    for g in model.all_functions:
        if "max_shifts" in g.param_names() and not g.is_overload:
            a_ = g.node.args
            ps = [x.arg for x in list(a_.posonlyargs) + list(a_.args)]
            if g.cls is not None and not g.is_staticmethod and ps:
                ps = ps[1:]
            takers.setdefault(g.name, set())
            if "max_shifts" in ps:
                takers[g.name].add(ps.index("max_shifts"))
    n = 0
    for fn in model.all_functions:
        if fn.module.relpath.startswith(("acryo/loader/", "acryo/alignment/")) and "max_shifts" in fn.param_names() and not fn.is_overload:
            n += forwarded_parameter_obligations(model, rep, fn, "max_shifts", takers, "4 normalisation")
    rep.floor("FWDP", 8, "(calls that take max_shifts inside functions that were given one)")


def check(model, rep, tier):
    rep.decided += ["C05.1 refined shift stays within +-max_shifts for every integer peak / refined index (affine forms with rounding atoms, "
                    "Fourier-Motzkin); mesh encoder/decoder identity", "C05.2 ZNCC/NCC crop: pad_width_eff >= 1, symmetric, half-width <= max_shifts",
                    "C05.3 crop_by_max_shifts only on FFT-layout arrays", "C05.4 every nm->px conversion of max_shifts is preceded by _normalize_max_shifts"]
    rep.decided += ["C05.6 the ZNCC/NCC and FSC landscapes divide only where the norm is positive (finite on constant / empty data)"]
    rep.not_decided += ["finiteness inside the PCC upsampled DFT", "absence of exceptions inside scipy/numpy"]
    rep.assumptions += ["max_shifts >= 0 per axis; image sizes >= 1", "fftconvolve is summarised as valid-mode correlation (shape s1-s2+1, origin = left padding)",
                        "_upsampled_dft output has zero displacement at index dftshift (trusted summary)"]
    funcs = need_funcs(model, rep, ANCHORS)
    refinement_clause(model, rep, funcs)
    pcc_bounds_clause(model, rep, funcs)
    crop_clause(model, rep, funcs)
    layout_clause(model, rep, funcs)
    normalisation_clause(model, rep, funcs)
    finite_clause(model, rep, funcs)
    refinement_callers_clause(model, rep, funcs)
    limit_forwarding_clause(model, rep)
    from .generic import loop_carried_parameter_obligations, functions_in as _fi2
    loop_carried_parameter_obligations(model, rep, [f_ for f_ in _fi2(model, ["acryo/loader/_group.py", "acryo/loader/_base.py", "acryo/loader/_batch.py"])
                                                    if "max_shifts" in f_.param_names()], "4 normalisation")
    rep.floor("LOOPVAR", 2, "(per-loader loops of the grouped alignment entry points)")
    from .generic import axis_convention_obligations, parallel_index_obligations, functions_in
    axis_convention_obligations(model, rep, ["acryo/backend/_upsample.py", "acryo/backend/_zncc.py", "acryo/backend/_pcc.py", "acryo/backend/_fsc.py", "acryo/backend/_mesh.py"], "3 layout", floor=3)
    for fn in functions_in(model, ["acryo/backend/_upsample.py", "acryo/backend/_zncc.py", "acryo/backend/_pcc.py", "acryo/backend/_fsc.py", "acryo/backend/_mesh.py"]):
        parallel_index_obligations(model, rep, fn, "3 layout")
    try:
        model.func(BF + "_get_phase_1d")
        rep.floor("PAIR", 1, "(_get_phases pairs mesh[k] with out_shape[k])")
    except Exception:
        pass  # the per-axis helper was inlined: `for m, n in zip(mesh, out_shape)` pairs the axes by position
