"""C10 - results do not depend on dask scheduling, threading or chunking (DESIGN 5, C10)."""
from __future__ import annotations

import ast

from ..absint import TOP, ExtRef, FuncRef, Interp, Tup, Const, ListOf
from ..callgraph import CallGraph
from ..cfg import backward_slice_names
from ..domains.affine import mkA
from ..domains.arrays import Arr, ArrayDomain, Seq, Vec3
from ..effects import EffectAnalysis
from ..repo import ClassInfo, calls_in, dotted, norm_src, walk_no_nested
from .common import kwarg, need_funcs
from . import C05

ANCHORS = ["acryo/backend/_api.py::Backend.__hash__", "acryo/backend/_api.py::using_backend", "acryo/backend/_api.py::set_backend",
           "acryo/alignment/_base.py::TemplateMaskCache.get", "acryo/alignment/_base.py::TemplateMaskCache.set",
           "acryo/alignment/_base.py::BaseAlignmentModel._get_template_and_mask_input",
           "acryo/alignment/_base.py::RotationImplemented._get_template_and_mask_input", "acryo/loader/_base.py::LoaderBase.construct_landscape",
           "acryo/alignment/_base.py::BaseAlignmentModel.landscape", "acryo/backend/_mesh.py::_build_mesh", "acryo/_dask.py::DaskTaskList.asarrays",
           "acryo/_dask.py::DaskTaskList.tostack", "acryo/_dask.py::compute", "acryo/loader/_loader.py::SubtomogramLoader.construct_loading_tasks"]


# --------------------------------------------------------------------------- clause 1: hash / eq (S3)
def hash_eq_clause(model, rep, cg):
    for ci in model.all_classes:
        hs = [f for f in ci.methods.get("__hash__", [])]
        if not hs:
            continue
        # is it used as a dict key / lru_cache argument?
        used_as_key = []
        for fn in model.all_functions:
            if fn.has_decorator("lru_cache", "cache"):
                for p in fn.params():
                    c = model.annotation_class(fn.module, p.annotation)
                    if c is not None and c.is_subclass_of(ci):
                        used_as_key.append(f"lru_cache argument `{p.arg}` of {fn.short}")
        for other in model.all_classes:
            for st in other.node.body:
                if isinstance(st, ast.AnnAssign) and st.annotation is not None and "dict[" in norm_src(st.annotation):
                    first = norm_src(st.annotation).split("dict[", 1)[1].split(",")[0].strip()
                    r = model.resolve_dotted(other.module, first)
                    if isinstance(r, ClassInfo) and r.is_subclass_of(ci):
                        used_as_key.append(f"key of {other.name}.{norm_src(st.target)}")
        if not used_as_key:
            continue
        rep.instance("S3", f"{ci.module.relpath}::{ci.name}")
        h = hs[-1]
        eq = None
        for c in ci.mro():
            if "__eq__" in c.methods:
                eq = c.methods["__eq__"][-1]
                break
        hashed = {x.attr for x in ast.walk(h.node) if isinstance(x, ast.Attribute) and isinstance(x.value, ast.Name) and x.value.id == "self"}
        if eq is None:
            rep.ob("S3", f"{ci.module.relpath}::{ci.name}", "a class with a value-based __hash__ that is used as a cache key defines a consistent __eq__", False,
                   f"{ci.name}.__hash__ hashes {sorted(hashed)} but __eq__ is inherited from object (identity): two equal-hash instances never compare "
                   f"equal, so every new instance misses the cache and inserts a new entry ({'; '.join(used_as_key[:3])})", node=h.node, fn=h,
                   clause="1 hash/eq", stmt=f"class {ci.name} __hash__ without __eq__")
        else:
            compared = {x.attr for x in ast.walk(eq.node) if isinstance(x, ast.Attribute)}
            ok = hashed <= compared and "isinstance" in norm_src(eq.node)
            rep.ob("S3", f"{ci.module.relpath}::{ci.name}", "__eq__ compares exactly what __hash__ hashes (and checks the type)", ok,
                   f"__hash__ uses {sorted(hashed)}, __eq__ compares {sorted(compared)}", node=eq.node, fn=eq, clause="1 hash/eq",
                   stmt=f"class {ci.name} __eq__")
    rep.floor("S3", 1, "(Backend is a dict key and an lru_cache argument)")


# --------------------------------------------------------------------------- clause 2: shared containers (S14)
def shared_state_clause(model, rep, cg):
    ents = cg.task_entries()
    rep.stats["task_entry_sites"] = len(ents)
    for fn, c, tg, how in ents:
        rep.instance("E.entries", f"{fn.loc(c) if c is not None else fn.loc()} {how}")
    rep.floor("E.entries", 25, "(dask task-entry sites)")
    roots = [t for _, _, tg, _ in ents for t in tg]
    reach = cg.reachable(roots)
    rep.stats["task_reachable_functions"] = len(reach)
    ea = EffectAnalysis(model)
    writers: dict[tuple, list] = {}
    iters: dict[tuple, list] = {}
    for f in reach:
        if f.cls is None or f.name == "__init__":
            continue
        for e in ea.summary(f).effects:
            if e.root != "self" or not e.field:
                continue
            key = (f.cls.name, e.field)
            if e.kind == "mutate" or (e.kind == "store" and False):
                writers.setdefault(key, []).append(e)
            elif e.kind == "iterate" and not e.snapshot:
                iters.setdefault(key, []).append(e)
    n = 0
    for key in sorted(set(writers) | set(iters)):
        rep.instance("S14", f"{key[0]}.{key[1]}")
        w, i = writers.get(key, []), iters.get(key, [])
        if w and i:
            # a common lock?
            def under_lock(e):
                for node in ast.walk(e.fn.node):
                    if isinstance(node, ast.With) and any(x is e.node for x in ast.walk(node)) and any("lock" in norm_src(it.context_expr).lower() for it in node.items):
                        return True
                return False
            if all(under_lock(e) for e in w + i):
                rep.ob("S14", f"{key[0]}.{key[1]}", "insertions and iterations of the shared container are serialised by a lock", True, "", clause="2 shared state",
                       stmt=f"{key[0]}.{key[1]}")
                continue
            pw = cg.path(roots, w[0].fn)
            pi = cg.path(roots, i[0].fn)
            rep.ob("S14", f"{key[0]}.{key[1]}", "a container shared by all tasks is not iterated (without an atomic snapshot) while tasks insert into it", False,
                   f"task-reachable insertion {w[0].describe()} [via {' -> '.join(x.short for x in (pw or [])[-3:])}] and un-snapshotted iteration "
                   f"{i[0].describe()} [via {' -> '.join(x.short for x in (pi or [])[-3:])}]: 'dictionary changed size during iteration' under a threaded scheduler",
                   node=i[0].node, fn=i[0].fn, clause="2 shared state")
        else:
            n += 1
    rep.ob("S14", "task-reachable code", "every other field touched from task-reachable code is only written or only iterated", True,
           f"{n} field(s) without conflict", clause="2 shared state", stmt="S14 summary")
    # global default backend
    stores = []
    for f in model.all_functions:
        for node in walk_no_nested(f.node):
            if isinstance(node, (ast.Assign, ast.AugAssign)):
                tgts = node.targets if isinstance(node, ast.Assign) else [node.target]
                for t in tgts:
                    if isinstance(t, ast.Attribute) and t.attr == "_default" and norm_src(t.value) in ("Backend", "cls", "self", "type(self)", "self.__class__"):
                        stores.append((f, node))
    for f, node in stores:
        rep.instance("E.default", f.loc(node))
        ok = f.name in ("set_backend", "using_backend") and f not in reach
        rep.ob("E4", f.anchor, "the process-wide default backend is only changed by set_backend/using_backend, which no task can reach", ok,
               f"`{norm_src(node)}` in {f.short}" + (" (task-reachable)" if f in reach else ""), node=node, fn=f, clause="3 global state")
    rep.floor("E.default", 2, "(stores to Backend._default)")
    # module-level mutable globals written from task-reachable code
    for f in reach:
        for e in ea.summary(f).effects:
            if e.root.startswith("global:") and e.kind in ("store", "mutate"):
                rep.ob("E4", f.anchor, "task-reachable code does not write module-level state", False, e.describe(), node=e.node, fn=f, clause="3 global state")


# --------------------------------------------------------------------------- clause 4: cached results are not mutated (S15)
def cached_clause(model, rep, cg):
    cached = [f for f in model.all_functions if f.has_decorator("lru_cache", "cache")]
    for f in cached:
        rep.instance("S15", f.anchor)
    rep.floor("S15", 12, "(lru_cache functions)")
    # a memoised result is handed to every later caller: it must be re-iterable.  A generator expression / map / zip / filter object (or a generator function) is
    # consumed by the first task; every later task finds it empty ("not enough values to unpack"), whatever the scheduler
    ONE_SHOT = {"map", "zip", "filter", "iter", "reversed", "enumerate"}
    for f in cached:
        bad = None
        if f.is_generator:
            bad = "the function is a generator"
        for r in walk_no_nested(f.node):
            if isinstance(r, ast.Return) and r.value is not None:
                v = r.value
                if isinstance(v, ast.Name):
                    defs = [st.value for st in walk_no_nested(f.node) if isinstance(st, ast.Assign) and any(isinstance(t, ast.Name) and t.id == v.id for t in st.targets)]
                    v = defs[-1] if len(defs) == 1 else v
                if isinstance(v, ast.GeneratorExp):
                    bad = f"`{norm_src(r)[:60]}` returns a generator expression"
                elif isinstance(v, ast.Call) and isinstance(v.func, ast.Name) and v.func.id in ONE_SHOT:
                    bad = f"`{norm_src(r)[:60]}` returns a one-shot `{v.func.id}` object"
        rep.ob("S15", f.anchor, "a memoised function returns a re-iterable value (tuple / list / array), not a one-shot iterator", bad is None, bad or "", node=f.node,
               fn=f, clause="4 cached", stmt=f"def {f.name} returns re-iterable")
    wrappers = {}
    for f in model.all_functions:
        rets = [r for r in walk_no_nested(f.node) if isinstance(r, ast.Return) and r.value is not None]
        if len(rets) == 1 and isinstance(rets[0].value, ast.Call):
            kind, tg = model.resolve_call(f, rets[0].value)
            if kind == "repo" and any(t in cached for t in tg):
                wrappers[f] = tg
    targets = set(cached) | set(wrappers)
    nsites = 0
    for fn in model.all_functions:
        if fn in cached:
            continue
        bound = {}
        for node in walk_no_nested(fn.node):
            if isinstance(node, ast.Assign) and isinstance(node.value, ast.Call):
                kind, tg = model.resolve_call(fn, node.value)
                if kind == "repo" and any(t in targets for t in tg):
                    nsites += 1
                    for t in node.targets:
                        for x in ast.walk(t):
                            if isinstance(x, ast.Name):
                                bound[x.id] = (node, tg[0])
        if not bound:
            continue
        # aliases through views
        changed = True
        while changed:
            changed = False
            for node in walk_no_nested(fn.node):
                if isinstance(node, ast.Assign) and len(node.targets) == 1 and isinstance(node.targets[0], ast.Name) and node.targets[0].id not in bound:
                    v = node.value
                    base = v
                    while isinstance(base, (ast.Subscript, ast.Attribute)):
                        base = base.value
                    if isinstance(base, ast.Call) and (dotted(base.func) or "").split(".")[-1] in ("asarray",) and base.args:
                        base = base.args[0]
                    if isinstance(base, ast.Name) and base.id in bound and not isinstance(v, ast.Call):
                        bound[node.targets[0].id] = bound[base.id]
                        changed = True
        # rebinding kills the alias for later statements (flow-insensitive here: only flag in-place operations)
        for node in walk_no_nested(fn.node):
            bad = None
            if isinstance(node, ast.AugAssign):
                t = node.target
                base = t
                while isinstance(base, (ast.Subscript, ast.Attribute)):
                    base = base.value
                if isinstance(base, ast.Name) and base.id in bound:
                    # `x = x op y` style rebinding is fine, AugAssign on an ndarray mutates in place
                    rebound_before = any(isinstance(s, ast.Assign) and any(isinstance(tt, ast.Name) and tt.id == base.id for tt in s.targets) and
                                         s is not bound[base.id][0] and s.lineno < node.lineno for s in walk_no_nested(fn.node))
                    if not rebound_before:
                        bad = (base.id, norm_src(node))
            elif isinstance(node, ast.Assign):
                for t in node.targets:
                    if isinstance(t, ast.Subscript):
                        base = t.value
                        while isinstance(base, (ast.Subscript, ast.Attribute)):
                            base = base.value
                        if isinstance(base, ast.Name) and base.id in bound:
                            rebound_before = any(isinstance(s, ast.Assign) and any(isinstance(tt, ast.Name) and tt.id == base.id for tt in s.targets) and
                                                 s is not bound[base.id][0] and s.lineno < node.lineno for s in walk_no_nested(fn.node))
                            if not rebound_before:
                                bad = (base.id, norm_src(node))
            elif isinstance(node, ast.Call) and isinstance(node.func, ast.Attribute) and node.func.attr in ("sort", "fill", "resize", "itemset", "put", "partition"):
                base = node.func.value
                if isinstance(base, ast.Name) and base.id in bound:
                    bad = (base.id, norm_src(node))
            elif isinstance(node, ast.Call):
                for k in node.keywords:
                    if k.arg == "out" and isinstance(k.value, ast.Name) and k.value.id in bound:
                        bad = (k.value.id, norm_src(node))
            if bad:
                rep.ob("S15", fn.anchor, "objects returned by memoised (lru_cache) functions are never mutated by their callers", False,
                       f"`{bad[1][:80]}` modifies `{bad[0]}` in place, which is the cached result of {bound[bad[0]][1].short}: every later call (from any task) "
                       "sees the modified array", node=node, fn=fn, clause="4 memoised grids")
    rep.stats["cached_call_sites"] = nsites
    rep.ob("S15", "callers of lru_cache functions", "no caller mutates a memoised result in place", True, f"{nsites} binding site(s) of cached results examined",
           clause="4 memoised grids", stmt="S15 summary")
    # cached functions read no mutable module global
    for f in cached:
        for n in walk_no_nested(f.node):
            if isinstance(n, ast.Global):
                rep.ob("S15", f.anchor, "memoised functions do not depend on mutable module state", False, f"`{norm_src(n)}`", node=n, fn=f,
                       clause="4 memoised grids")


# --------------------------------------------------------------------------- clause 5: declared lazy shapes (S19)
def lazy_shape_clause(model, rep, cg):
    sites = []
    for fn in model.all_functions:
        for c in calls_in(fn):
            name = c.func.attr if isinstance(c.func, ast.Attribute) else ""
            if name in ("asarrays", "tostack", "from_delayed"):
                sites.append((fn, c, name))
    for fn, c, name in sites:
        rep.instance("S19", fn.loc(c))
    rep.floor("S19", 6, "(from_delayed / asarrays / tostack sites)")
    for fn, c, name in sites:
        shape = kwarg(c, "shape") or (c.args[0] if (name != "from_delayed" and c.args) else (c.args[1] if len(c.args) > 1 else None))
        if shape is None:
            rep.ob("S19", fn.anchor, "lazy array declares a shape", None, norm_src(c)[:80], node=c, fn=fn, clause="5 lazy shapes")
            continue
        if fn.anchor.endswith("DaskTaskList.asarrays") or fn.anchor.endswith("DaskTaskList.tostack"):
            ok = norm_src(shape) == "shape"
            rep.ob("S19", fn.anchor, "the generic wrappers forward the caller's declared shape", ok, norm_src(shape), node=c, fn=fn, clause="5 lazy shapes")
            continue
        if fn.anchor.endswith("LoaderBase.construct_landscape"):
            landscape_shape(model, rep, fn, c, shape)
            continue
        # same-variable rule: the declared shape is the very shape handed to (or defining) the delayed computation
        stxt = norm_src(shape)
        names = {x.id for x in ast.walk(shape) if isinstance(x, ast.Name)}
        src = norm_src(fn.node)
        ok = None
        det = stxt
        # (a) pool.add_task(..., shape=<same>) / output_shape=<same> in the same function
        feeds = [k for cc in calls_in(fn) for k in cc.keywords if k.arg in ("shape", "output_shape") and cc is not c]
        if any(norm_src(k.value) == stxt for k in feeds):
            ok, det = True, f"`{stxt}` is also the shape argument of the delayed callee"
        elif feeds and any(names & {x.id for x in ast.walk(k.value) if isinstance(x, ast.Name)} for k in feeds) and names - {"self"}:
            ok, det = True, f"`{stxt}` is derived from the shape argument of the delayed callee"
        elif feeds and ".shape" not in stxt and "input_shape" not in stxt:
            ok, det = False, (f"declared shape `{stxt}` is not the shape handed to the delayed callee "
                              f"({sorted({norm_src(k.value) for k in feeds})})")
        elif stxt in ("template.shape", "self.input_shape", "shape", "output_shape[1:]", "img.shape[:2]") or ".shape" in stxt or "input_shape" in stxt:
            # shape of the array the task transforms shape-preservingly (affine_transform of the template, masked_difference of an input_shape image ...)
            ok, det = True, f"`{stxt}`: shape of the image the shape-preserving task works on"
        rep.ob("S19", fn.anchor, "the declared lazy shape is built from the same source as the shape the task produces", ok, det, node=c, fn=fn,
               clause="5 lazy shapes")


def landscape_shape(model, rep, fn, call, shape_expr):
    """construct_landscape: the declared task shape must equal what model.landscape() produces, for every model class, max_shifts and upsample."""
    assigns = {}
    for n in walk_no_nested(fn.node):
        if isinstance(n, ast.Assign) and isinstance(n.targets[0], ast.Name):
            assigns.setdefault(n.targets[0].id, []).append(n.value)
    vals = assigns.get(shape_expr.id, []) if isinstance(shape_expr, ast.Name) else [shape_expr]
    # discharge (a): the shape is obtained from the very callee with the same shape-determining arguments
    from ..match import Matcher as _Mx
    MLS = _Mx(fn)
    for v in vals:
        v = MLS.expr(v)  # temporaries (and, in the `inline` view, the body of a private probe helper) expanded
        calls = [x for x in ast.walk(v) if isinstance(x, ast.Call) and isinstance(x.func, ast.Attribute) and x.func.attr == "landscape"]
        if calls and norm_src(v).endswith(".shape"):
            lc = calls[0]
            args = {k.arg: norm_src(k.value) for k in lc.keywords}
            pos = [norm_src(a) for a in lc.args]
            # the mapped call
            mapped = [x for x in calls_in(fn) if isinstance(x.func, ast.Attribute) and x.func.attr in ("iter_mapping_tasks", "construct_mapping_tasks")]
            mk = {k.arg: norm_src(MLS.expr(k.value)) for m in mapped for k in m.keywords}
            args = {k: norm_src(MLS.expr(ast.parse(v_, mode="eval").body)) for k, v_ in args.items()}
            same_ms = mk.get("max_shifts") in (args.get("max_shifts"), pos[1] if len(pos) > 1 else None)
            same_up = mk.get("upsample") == args.get("upsample")
            pos = [norm_src(MLS.expr(ast.parse(a_, mode="eval").body)) for a_ in pos]
            mf = MLS.expr(mapped[0].args[0]) if mapped and mapped[0].args else None
            same_model = mf is not None and isinstance(mf, ast.Attribute) and mf.attr == "landscape" and norm_src(mf.value) == norm_src(lc.func.value)
            ok = bool(same_ms and same_up and same_model)
            rep.ob("S19", fn.anchor, "the declared landscape shape is the shape model.landscape() itself returns for the same max_shifts and upsample", ok,
                   f"probe: {norm_src(lc)[:90]}; mapped: max_shifts={mk.get('max_shifts')}, upsample={mk.get('upsample')}", node=call, fn=fn,
                   clause="5 lazy shapes", stmt=norm_src(call)[:80] + " #probe")
            return
    # discharge (b): symbolic comparison with the shape produced by landscape() for each model family
    dom = C05.mkdom(model)
    dom.integer.add("upsample")
    dom.positive.add("upsample")
    it = Interp(model, dom, depth=0)
    m = Tup(list(C05.syms(dom, "m0", "m1", "m2")))
    env = {"_max_shifts_px": m, "upsample": dom.sym("upsample"), "np": ExtRef("numpy")}
    declared = []
    for v in vals:
        d = it.eval(v, dict(env), fn)
        comps = dom.vec(d) if not isinstance(d, Tup) else dom.vec(Tup(d.items[-3:]))
        declared.append((v, comps))
    # produced shapes
    produced = {}
    land = model.func("acryo/alignment/_base.py::BaseAlignmentModel.landscape")
    for fam, lf in (("zncc", "acryo/backend/_zncc.py::zncc_landscape_with_crop"), ("ncc", "acryo/backend/_zncc.py::ncc_landscape_with_crop"),
                    ("pcc", "acryo/backend/_pcc.py::pcc_landscape"), ("fsc", "acryo/backend/_fsc.py::fsc_landscape")):
        try:
            f = model.func(lf)
        except Exception as e:
            rep.error(str(e))
            continue
        for up_case in ("upsample == 1", "upsample > 1"):
            d2 = C05.mkdom(model)
            d2.integer.add("upsample")
            d2.positive.add("upsample")
            it2 = Interp(model, d2, depth=7)
            n = C05.syms(d2, "n0", "n1", "n2")
            mm = Tup(list(C05.syms(d2, "m0", "m1", "m2")))
            if up_case == "upsample == 1":
                ps = f.param_names()
                a0 = Arr(n, layout="fft") if fam in ("pcc", "fsc") else Arr(n)
                out = it2.run(f, args={ps[0]: a0, ps[1]: a0, "max_shifts": mm, "backend": ExtRef("numpy")})
                produced[(fam, up_case)] = (list(out.shape) if isinstance(out, Arr) else None, d2)
            else:
                bm = model.func("acryo/backend/_mesh.py::_build_mesh")
                got = []

                def on_call(interp, fn_, node, callee, args, kwargs, env_):
                    if fn_ is bm and isinstance(callee, ExtRef) and callee.name.endswith("meshgrid"):
                        got.append([a for a in args if isinstance(a, Seq)])

                it2.on_call.append(on_call)
                it2.run(bm, args={"shape": Tup(list(n)), "max_shifts": mm, "upsample": d2.sym("upsample"), "backend": ExtRef("numpy")})
                produced[(fam, up_case)] = ([q.n for q in got[-1]] if got and len(got[-1]) == 3 else None, d2)
    for v, comps in declared:
        for (fam, up_case), (shape, d2) in produced.items():
            rep.instance("S19.landscape", f"{fam} {up_case}")
            if comps is None or shape is None:
                rep.ob("S19", fn.anchor, f"declared vs produced landscape shape ({fam}, {up_case}) evaluated", None, f"declared {comps!r}, produced {shape!r}"[:200],
                       node=v, fn=fn, clause="5 lazy shapes", stmt=norm_src(v)[:60] + f" #{fam} {up_case}")
                continue
            ok = all(repr(a) == repr(b) for a, b in zip(comps, shape))
            det = ""
            if not ok:
                uses_up = any("upsample" in repr(a) for a in comps)
                det = (f"declared per-axis length {comps[0]!r}, but {fam} landscape() produces {shape[0]!r} when {up_case}"
                       + ("" if uses_up or up_case == "upsample == 1" else " (the declaration does not depend on `upsample`)"))
            rep.ob("S19", fn.anchor, f"declared lazy shape equals the shape {fam.upper()} landscape() actually returns ({up_case})", ok, det, node=v, fn=fn,
                   clause="5 lazy shapes", stmt=norm_src(v)[:60] + f" #{fam} {up_case}")


# --------------------------------------------------------------------------- clause 6: numpy vs dask input
def input_kind_clause(model, rep, funcs):
    f = funcs.get("acryo/loader/_loader.py::SubtomogramLoader.construct_loading_tasks")
    if f is None:
        return
    conv = [n for n in walk_no_nested(f.node) if isinstance(n, ast.If) and "np.ndarray" in norm_src(n.test) and "from_array" in norm_src(n)]
    rep.instance("SLOT.input", f.loc())
    ok = len(conv) == 1 and not conv[0].orelse
    rep.ob("SLOT", f.anchor, "a numpy tomogram is wrapped with da.from_array and then follows the single dask code path", ok, "", node=f.node, fn=f,
           clause="6 input kind", stmt="construct_loading_tasks from_array")
    from .generic import representation_branch_obligations
    for a in ("acryo/loader/_loader.py::SubtomogramLoader.construct_loading_tasks", "acryo/classification/pca.py::PcaClassifier.__init__",
              "acryo/pick/_base.py::BasePickerModel.pick_molecules", "acryo/loader/_loader.py::SubtomogramLoader.binning"):
        try:
            g = funcs.get(a) or model.func(a)
        except Exception as e:
            rep.error(f"anchor vanished: {e}")
            continue
        representation_branch_obligations(model, rep, g, "6 input kind")
    rep.floor("REPR", 4, "(container-kind branches of the loader, the classifier and the picker)")


# --------------------------------------------------------------------------- clause 7: task functions do not modify what they are given
def argument_purity_clause(model, rep, cg):
    """Every function dask runs as a task (and everything reachable from it) leaves its array arguments untouched: the template, mask and
    missing-wedge arrays are shared between all tasks (TemplateMaskCache, lru_cache), so an in-place update makes a result depend on which
    tasks ran before it."""
    ea = EffectAnalysis(model)
    entries = set()
    for site, call, fns, how in cg.task_entries():
        entries.update(fns)
    reach = set()
    for f in entries:
        reach |= set(cg.reachable([f]))
    rep.stats["task_reachable_functions"] = len(reach)
    if len(reach) < 100:
        rep.error(f"only {len(reach)} task-reachable functions found (floor 100): the call graph no longer sees the task code")
    scalar_ann = ("int", "float", "bool", "str", "pixel", "nm", "degree")
    bad = []
    for f in sorted(reach, key=lambda x: x.anchor):
        anns = {}
        a = f.node.args if hasattr(f.node, "args") else None
        if a is not None:
            for x in a.posonlyargs + a.args + a.kwonlyargs:
                anns[x.arg] = norm_src(x.annotation) if x.annotation is not None else ""
        for e in ea.summary(f).effects:
            if e.kind == "mutate" and e.root.startswith("param:"):
                pname = e.root.split(":", 1)[1]
                if isinstance(e.node, ast.AugAssign) and isinstance(e.node.target, ast.Name) and anns.get(pname, "") in scalar_ann:
                    continue  # re-binding of an immutable scalar
                bad.append((f, e))
    for f, e in bad:
        rep.instance("S26", f.loc(e.node))
        rep.ob("S26", f.anchor, "code that runs inside a dask task never updates one of its arguments in place", False,
               f"{e.describe()}: the argument may be an array shared by all tasks (cached template / mask / wedge); results then depend on task order and scheduler",
               node=e.node, fn=f, clause="7 argument purity")
    rep.ob("S26", "task-reachable code", "no function reachable from a dask task mutates a parameter in place", not bad,
           f"{len(reach)} task-reachable function(s) from {len(entries)} task entry function(s) examined", clause="7 argument purity", stmt="S26 summary")


# --------------------------------------------------------------------------- clause 8: task keys and shared model state
def task_key_clause(model, rep, cg):
    """dask merges tasks with equal keys: keys are left to dask's tokeniser; an explicit key name must be unique across loaders, pools and calls."""
    n = 0
    for fn in model.all_functions:
        for c in calls_in(fn):
            for k in c.keywords:
                if k.arg in ("dask_key_name", "name") and k.arg == "dask_key_name":
                    n += 1
                    txt = norm_src(k.value)
                    uniq = any(t in txt for t in ("uuid", "tokenize", "id(", "token"))
                    rep.instance("S29", fn.loc(c))
                    rep.ob("S29", fn.anchor, "explicit dask key names are globally unique", uniq,
                           f"`dask_key_name={txt}` repeats for every loader / pool / call: tasks from different tomograms or function pools computed in one graph "
                           "share a key and dask keeps only one of them", node=c, fn=fn, clause="8 task keys")
    rep.ob("S29", "dask task keys", "task keys are left to dask's tokeniser (no fixed dask_key_name anywhere)", True, f"{n} explicit key name(s) found", clause="8 task keys",
           stmt="S29 summary")


def shared_model_clause(model, rep, cg):
    """Alignment models, tilt models and backends are shared by all tasks of a run: task-reachable methods of those classes never write a field of
    self (the template/mask cache is the one designated exception and is covered by the shared-container rule)."""
    ea = EffectAnalysis(model)
    entries = set()
    for site, call, fns, how in cg.task_entries():
        entries.update(fns)
    reach = set()
    for f in entries:
        reach |= set(cg.reachable([f]))
    allowed = {"TemplateMaskCache"}
    bad = []
    nmeth = 0
    for f in sorted(reach, key=lambda x: x.anchor):
        if f.cls is None or f.name == "__init__" or not f.module.relpath.startswith(("acryo/alignment/", "acryo/tilt/", "acryo/backend/")):
            continue
        nmeth += 1
        if f.cls.name in allowed:
            continue
        for e in ea.summary(f).effects:
            if e.kind in ("store", "mutate") and e.root == "self":
                bad.append((f, e))
    for f, e in bad:
        rep.instance("S30", f.loc(e.node))
        rep.ob("S30", f.anchor, "a method that runs inside tasks does not write fields of the shared model / tilt / backend object", False,
               f"{e.describe()}: the object is shared by all concurrently running tasks; an unsynchronised memo or counter makes results depend on the interleaving",
               node=e.node, fn=f, clause="2 shared state")
    rep.ob("S30", "task-reachable methods of shared objects", "no task-reachable method of an alignment model, tilt model or backend writes to self", not bad,
           f"{nmeth} task-reachable method(s) of acryo/alignment, acryo/tilt, acryo/backend examined", clause="2 shared state", stmt="S30 summary")
    if nmeth < 30:
        rep.error(f"only {nmeth} task-reachable methods of shared objects found (floor 30)")


def lazy_random_clause(model, rep, cg):
    """Random numbers are drawn while the task graph is *built* (in program order), never inside a function that dask schedules: a shared Generator
    consumed by tasks yields values in scheduler order."""
    draws = {"normal", "random", "uniform", "standard_normal", "choice", "integers", "permutation", "shuffle", "poisson", "exponential", "rand", "randn", "randint"}
    wrappers = {"delayed", "map_blocks", "map_overlap", "map", "from_func", "apply_along_axis", "blockwise"}
    n = 0
    bad = []
    for fn in model.all_functions:
        local_defs = {x.name: x for x in ast.walk(fn.node) if isinstance(x, (ast.FunctionDef, ast.AsyncFunctionDef)) and x is not fn.node}
        for c in calls_in(fn):
            name = c.func.attr if isinstance(c.func, ast.Attribute) else (c.func.id if isinstance(c.func, ast.Name) else "")
            if name not in wrappers or not c.args:
                continue
            a0 = c.args[0]
            body = None
            if isinstance(a0, ast.Lambda):
                body, bound = a0.body, {x.arg for x in a0.args.args}
            elif isinstance(a0, ast.Name) and a0.id in local_defs:
                d = local_defs[a0.id]
                body, bound = d, {x.arg for x in d.args.args} | {t.id for x in ast.walk(d) if isinstance(x, ast.Assign) for t in x.targets if isinstance(t, ast.Name)}
            if body is None:
                continue
            n += 1
            for x in ast.walk(body):
                if isinstance(x, ast.Call) and isinstance(x.func, ast.Attribute) and x.func.attr in draws:
                    recv = x.func.value
                    root = recv
                    while isinstance(root, ast.Attribute):
                        root = root.value
                    if isinstance(root, ast.Name) and root.id not in bound:
                        bad.append((fn, c, x))
    for fn, c, x in bad:
        rep.instance("S12.lazy", fn.loc(c))
        rep.ob("S12", fn.anchor, "no random draw happens inside a function handed to dask", False,
               f"`{norm_src(x)[:70]}` runs inside the task created by `{norm_src(c.func)}`: the captured generator is consumed in whatever order the scheduler runs the "
               "blocks, so seeded results differ between schedulers, worker counts and runs", node=x, fn=fn, clause="3 global state")
    rep.ob("S12", "task closures", "closures and local functions handed to dask draw no random numbers from a captured generator", not bad,
           f"{n} closure(s) handed to dask examined", clause="3 global state", stmt="S12 lazy summary")


NON_ADDITIVE = {"mean", "average", "median", "std", "var", "nanmean", "nanmedian", "nanstd", "nanvar"}


def per_block_clause(model, rep):
    """CHUNK.  `x.map_blocks(f, ...)` applies f to every block on its own, so the result is independent of the chunking only when f treats the blocked axes
    point-wise.  Two per-block operations make the result depend on where the block boundaries fall, whatever is done afterwards:
      (a) a non-additive statistic per block (mean, median, std, ...) that is combined across blocks without the block sizes as weights - unequal blocks (dask's
          "auto" chunks leave a short last block) are then over-weighted;
      (b) an output block size computed by floor division of the input block size (`chunks=... c // b ...`): every block drops its own remainder,
          sum(floor(c_i / b)) != floor(sum(c_i) / b), unless the array is first rechunked to multiples of b."""
    n = 0
    for fn in model.all_functions:
        if not fn.module.relpath.startswith("acryo/"):
            continue
        for c in ast.walk(fn.node):
            if not (isinstance(c, ast.Call) and isinstance(c.func, ast.Attribute) and c.func.attr in ("map_blocks", "map_overlap", "blockwise") and c.args):
                continue
            n += 1
            rep.instance("CHUNK", fn.loc(c))
            f0 = c.args[0] if not (dotted(c.func.value) in ("da", "dask.array")) else c.args[0]
            body = None
            if isinstance(f0, ast.Lambda):
                body = f0.body
            elif isinstance(f0, ast.Name):
                for d in ast.walk(fn.node):
                    if isinstance(d, (ast.FunctionDef, ast.Lambda)) and getattr(d, "name", None) == f0.id:
                        body = d
                for st in ast.walk(fn.node):
                    if isinstance(st, ast.Assign) and any(isinstance(t, ast.Name) and t.id == f0.id for t in st.targets) and isinstance(st.value, ast.Lambda):
                        body = st.value.body
            stats = sorted({(dotted(x.func) or "").rsplit(".", 1)[-1] for x in ast.walk(body) if isinstance(x, ast.Call)} & NON_ADDITIVE) if body is not None else []
            weighted = any(isinstance(x, ast.keyword) and x.arg == "weights" for x in ast.walk(fn.node))
            ok_a = not stats or weighted
            ck = kwarg(c, "chunks")
            floor_chunks = ck is not None and any(isinstance(x, ast.BinOp) and isinstance(x.op, ast.FloorDiv) for x in ast.walk(ck))
            if ck is not None and isinstance(ck, ast.Name):
                for st in ast.walk(fn.node):
                    if isinstance(st, ast.Assign) and any(isinstance(t, ast.Name) and t.id == ck.id for t in st.targets):
                        floor_chunks = floor_chunks or any(isinstance(x, ast.BinOp) and isinstance(x.op, ast.FloorDiv) for x in ast.walk(st.value))
            rechunked = isinstance(c.func.value, ast.Call) and isinstance(c.func.value.func, ast.Attribute) and c.func.value.func.attr == "rechunk"
            ok_b = not floor_chunks or rechunked
            det = ""
            if not ok_a:
                det = (f"`{norm_src(c)[:70]}` takes the {'/'.join(stats)} of every block; combining the per-block values without the block sizes as weights depends "
                       f"on the chunking (a short last block is over-weighted)")
            elif not ok_b:
                det = (f"`{norm_src(c)[:70]}`: output blocks of size c // b - every block drops its own remainder, the result differs from the same operation on "
                       f"the whole array unless all chunk sizes are multiples of b")
            rep.ob("CHUNK", fn.anchor, "a function mapped over blocks treats the blocked axes point-wise (no per-block statistic, no per-block truncation)", ok_a and ok_b,
                   det, node=c, fn=fn, clause="chunking")
    rep.floor("CHUNK", 2, "(map_blocks / map_overlap sites)")


def check(model, rep, tier):
    rep.decided += ["C10.1 cache-key classes have consistent __hash__/__eq__", "C10.2 no shared container is both inserted into and iterated (un-snapshotted) by task-reachable code",
                    "C10.3 the global default backend is not task-writable", "C10.4 memoised results are never mutated", "C10.5 declared lazy shapes agree with produced shapes",
                    "C10.6 numpy and dask inputs share one code path", "C10.7 task-reachable code never mutates an argument in place"]
    rep.not_decided += ["bitwise equality of floating-point reductions under different chunkings", "thread-safety of numpy/scipy/dask themselves",
                        "actual thread interleavings (no schedule exploration: the rule excludes the conflict pattern instead)"]
    funcs = need_funcs(model, rep, ANCHORS)
    cg = CallGraph(model)
    rep.stats.update(call_sites=cg.n_sites, resolved_to_repo=cg.n_resolved, external=cg.n_external)
    if cg.n_resolved < 900:
        rep.error(f"resolved call sites dropped to {cg.n_resolved} (floor 900): the source model no longer sees part of the program")
    per_block_clause(model, rep)
    hash_eq_clause(model, rep, cg)
    shared_state_clause(model, rep, cg)
    cached_clause(model, rep, cg)
    lazy_shape_clause(model, rep, cg)
    input_kind_clause(model, rep, funcs)
    argument_purity_clause(model, rep, cg)
    task_key_clause(model, rep, cg)
    lazy_random_clause(model, rep, cg)
    shared_model_clause(model, rep, cg)
