"""C08 - missing-wedge masks follow the tilt geometry (DESIGN 5, C08)."""
from __future__ import annotations

import ast

from ..absint import TOP, Const, ExtRef, FuncRef, Interp, ListOf, Obj, Tup
from ..cfg import CFG, backward_slice_names, dead_definitions, reaching_definitions, stmt_uses
from ..domains.affine import A, AffineDomain, Poly, mkA
from ..domains.frames import FramesDomain, Rot, ShapeVec, Vec
from ..repo import calls_in, dotted, norm_src, walk_no_nested
from .common import kwarg, need_funcs

GRID_SIBLINGS = ["acryo/tilt/_utils.py::get_indices", "acryo/backend/_missing_wedge.py::_get_indices", "acryo/_utils.py::_get_indices"]
MASK_SIBLINGS = ["acryo/tilt/_single.py::SingleAxis.create_mask", "acryo/tilt/_single.py::SingleAxis._mask_from_norms",
                 "acryo/backend/_missing_wedge.py::missing_wedge_mask", "acryo/_utils.py::missing_wedge_mask"]
ANCHORS = GRID_SIBLINGS + MASK_SIBLINGS + [
    "acryo/tilt/_utils.py::get_norms_y", "acryo/tilt/_utils.py::get_norms_x", "acryo/tilt/_single.py::SingleAxis.__init__",
    "acryo/tilt/_single.py::SingleAxisY._get_norms", "acryo/tilt/_single.py::SingleAxisX._get_norms", "acryo/tilt/_base.py::NoWedge.create_mask",
    "acryo/tilt/_base.py::UnionAxes.create_mask", "acryo/tilt/core.py::single_axis", "acryo/tilt/core.py::dual_axis", "acryo/tilt/core.py::no_wedge",
    "acryo/backend/_missing_wedge.py::_get_unrotated_normals", "acryo/_utils.py::_get_unrotated_normals",
    "acryo/alignment/_base.py::TomographyInput.__init__", "acryo/alignment/_base.py::TomographyInput._get_missing_wedge_mask"]


# --------------------------------------------------------------------------- clause 1: FFT-ordered index grid
def _grid_recipe(f):
    """(offset expression E(s) subtracted from arange(s), size variable name, shift kind) of an index-grid builder."""
    offset = None
    svar = None
    for lp in walk_no_nested(f.node):
        if isinstance(lp, ast.For) and isinstance(lp.iter, ast.Call) and dotted(lp.iter.func) == "zip" and isinstance(lp.target, ast.Tuple) and len(lp.target.elts) == 2:
            gv, sv = (norm_src(x) for x in lp.target.elts)
            for st in lp.body:
                if isinstance(st, ast.AugAssign) and isinstance(st.op, (ast.Sub, ast.Add)) and norm_src(st.target) == gv:
                    offset = st.value if isinstance(st.op, ast.Sub) else ast.UnaryOp(op=ast.USub(), operand=st.value)
                    svar = sv
                elif isinstance(st, ast.Assign) and norm_src(st.targets[0]) in (gv, gv + "[...]", gv + "[:]") and isinstance(st.value, ast.BinOp) \
                        and isinstance(st.value.op, ast.Sub) and norm_src(st.value.left) == gv:
                    offset = st.value.right
                    svar = sv
    # comprehension form: [np.arange(s) - E for s in shape]
    if offset is None:
        for n in ast.walk(f.node):
            if isinstance(n, (ast.ListComp, ast.GeneratorExp)) and isinstance(n.elt, ast.BinOp) and isinstance(n.elt.op, ast.Sub) and \
                    "arange" in norm_src(n.elt.left):
                offset = n.elt.right
                svar = norm_src(n.generators[0].target)
    # comprehension over (grid, size) pairs: [g - E for g, s in zip(grids, shape)]
    if offset is None:
        for n in ast.walk(f.node):
            if isinstance(n, (ast.ListComp, ast.GeneratorExp)) and len(n.generators) == 1 and isinstance(n.elt, ast.BinOp) and isinstance(n.elt.op, ast.Sub) and \
                    isinstance(n.generators[0].iter, ast.Call) and dotted(n.generators[0].iter.func) == "zip" and isinstance(n.generators[0].target, ast.Tuple) and \
                    len(n.generators[0].target.elts) == 2 and norm_src(n.elt.left) == norm_src(n.generators[0].target.elts[0]):
                offset = n.elt.right
                svar = norm_src(n.generators[0].target.elts[1])
    shift = "none"
    axes_ok = True
    for r in walk_no_nested(f.node):
        if isinstance(r, ast.Return) and r.value is not None:
            for c in ast.walk(r.value):
                if isinstance(c, ast.Call):
                    last = (dotted(c.func) or "").split(".")[-1]
                    if last in ("fftshift", "ifftshift"):
                        shift = last
                        ax = kwarg(c, "axes")
                        if ax is not None and norm_src(ax) not in ("(0, 1, 2)", "None", "range(3)", "(0, 1, 2,)"):
                            axes_ok = False
                    if last == "fftfreq":
                        shift = "fftfreq"
    return offset, svar, shift, axes_ok


def grid_clause(model, rep, funcs):
    recipes = {}
    for a in GRID_SIBLINGS:
        f = funcs.get(a)
        if f is None:
            continue
        offset, svar, shift, axes_ok = _grid_recipe(f)
        rep.instance("L.grid", f.loc())
        if offset is None or svar is None or shift == "none":
            rep.ob("L", a, "index-grid recipe (arange(s) - E(s), then fftshift/ifftshift over all axes) recognised", None,
                   f"offset={norm_src(offset) if offset is not None else None}, shift={shift}", node=f.node, fn=f, clause="1 grid", stmt=f"def {f.name}")
            continue
        if not axes_ok:
            rep.ob("L", a, "the shift is applied over all three spatial axes", False, "axes argument does not cover (0, 1, 2)", node=f.node, fn=f,
                   clause="1 grid", stmt=f"def {f.name} #axes")
        results = {}
        for parity, sform in (("even", lambda d: dom_mul2(d)), ("odd", lambda d: d.add(dom_mul2(d), mkA(1)))):
            dom = AffineDomain(model, integer_syms={"k"}, nonneg_syms={"k"})
            it = Interp(model, dom, depth=0)
            n = sform(dom)
            c = it.eval(offset, {svar: n}, f)
            k = dom.sym("k")
            if not isinstance(c, A):
                results[parity] = (None, f"offset {norm_src(offset)} not evaluable")
                continue
            # roll amount r (mod n): fftshift = n//2 ; ifftshift = -(n//2) = ceil(n/2)
            half = dom.floordiv(n, mkA(2))
            r = half if shift == "fftshift" else dom.add(n, dom.neg(half))
            want_r = dom.add(n, dom.neg(half))  # ceil(n/2): index where the negative frequencies start
            ok = r.equals(want_r) and c.equals(half)
            results[parity] = (ok, f"n={'2k' if parity == 'even' else '2k+1'}: subtracts {c!r}, rolls by {r!r}; FFT order needs offset n//2 = {half!r} and "
                                   f"roll ceil(n/2) = {want_r!r}")
        recipes[a] = (tuple(sorted((par, str(ok)) for par, (ok, _) in results.items())), shift)
        for parity, (ok, det) in results.items():
            extra = ""
            if ok is False and parity == "odd":
                extra = " -> for odd sizes bin +floor(n/2) is labelled -ceil(n/2): the mask is not even in k"
            rep.ob("L", a, f"per-axis frequency index grid is FFT-ordered (0..ceil(n/2)-1, -floor(n/2)..-1) for {parity} box sizes", ok, det + extra,
                   node=f.node, fn=f, clause="1 grid", stmt=f"def {f.name} #{parity}")
        # evenness on every box shape needs the signed index set of every axis to be closed under negation: {-k..k} for n = 2k+1 is,
        # {-k..k-1} for n = 2k is not (the Nyquist bin -k is its own mirror image but carries a signed frequency), unless the mask is symmetrised
        ev = results.get("even", (None, ""))[0]
        if ev is True:
            sym = any(("np.ix_" in norm_src(n_) or "[::-1" in norm_src(n_)) for a2 in MASK_SIBLINGS for n_ in ([funcs[a2].node] if funcs.get(a2) is not None else []))
            rep.ob("L", a, "the signed index set of every axis is closed under negation, or the mask is symmetrised afterwards (k -> -k symmetry for even box sizes too)",
                   None if sym else False,
                   "for n = 2k the grid holds -k but not +k: the Nyquist bin is its own mirror image, yet the wedge predicate is evaluated at the signed frequency "
                   "-k/n, so M[k] != M[-k mod n] on the Nyquist planes of even axes and masking a real image leaves an imaginary part", node=f.node, fn=f,
                   clause="3 evenness", stmt=f"def {f.name} nyquist closure")
    if len(set(recipes.values())) > 1:
        rep.ob("S11", "index grids", "the three index-grid siblings use the same recipe", False, f"{recipes}", clause="1 grid", stmt="grid siblings")
    elif recipes:
        rep.ob("S11", "index grids", "the three index-grid siblings use the same recipe", True, "", clause="1 grid", stmt="grid siblings")
    rep.floor("L.grid", 3 - len(rep.instances.get("ALIAS", [])), "(three get_indices siblings)")


def _sign_eval(e: ast.expr, env: dict):
    """Evaluate a sign-only predicate on concrete representatives -1/0/+1 (sign abstraction: products and comparisons with 0 depend on signs only)."""
    if isinstance(e, ast.Constant) and isinstance(e.value, (int, float, bool)):
        return e.value
    if isinstance(e, ast.Name):
        return env.get(e.id)
    if isinstance(e, ast.UnaryOp):
        v = _sign_eval(e.operand, env)
        if v is None:
            return None
        if isinstance(e.op, ast.USub):
            return -v
        if isinstance(e.op, (ast.Not, ast.Invert)):
            return (not v) if isinstance(v, bool) else None
        return None
    if isinstance(e, ast.BinOp):
        l, r = _sign_eval(e.left, env), _sign_eval(e.right, env)
        if l is None or r is None:
            return None
        if isinstance(e.op, ast.Mult):
            return l * r
        if isinstance(e.op, ast.BitAnd) and isinstance(l, bool) and isinstance(r, bool):
            return l and r
        if isinstance(e.op, ast.BitOr) and isinstance(l, bool) and isinstance(r, bool):
            return l or r
        if isinstance(e.op, ast.BitXor) and isinstance(l, bool) and isinstance(r, bool):
            return l != r
        return None
    if isinstance(e, ast.BoolOp):
        vs = [_sign_eval(x, env) for x in e.values]
        if any(v is None for v in vs):
            return None
        return all(vs) if isinstance(e.op, ast.And) else any(vs)
    if isinstance(e, ast.Compare):
        left = _sign_eval(e.left, env)
        for op, c in zip(e.ops, e.comparators):
            right = _sign_eval(c, env)
            if left is None or right is None:
                return None
            ok = {ast.Lt: left < right, ast.LtE: left <= right, ast.Gt: left > right, ast.GtE: left >= right, ast.Eq: left == right,
                  ast.NotEq: left != right}.get(type(op))
            if ok is None:
                return None
            if not ok:
                return False
            left = right
        return True
    return None


def dom_mul2(dom):
    return dom.add(dom.sym("k"), dom.sym("k"))


# --------------------------------------------------------------------------- clause 2/3: normals and predicate
class WedgeFrames(FramesDomain):
    def seed_param(self, interp, fn, arg):
        if arg.arg == "rotator":
            return Rot("M", "W")
        if arg.arg in ("shape",):
            return ShapeVec()
        if arg.arg in ("normal0", "normal1"):
            return Vec("W", kind="normal")
        if arg.arg in ("backend",):
            return ExtRef("numpy")
        return super().seed_param(interp, fn, arg)

    def call_repo(self, interp, funcs, bound, args, kwargs, node):
        names = {f.name for f in funcs}
        if names & {"_get_norms", "get_norms_y", "get_norms_x", "_get_unrotated_normals"}:
            return Tup([Vec("W", kind="normal"), Vec("W", kind="normal")])
        if names & {"get_indices", "_get_indices"}:
            return Vec("M", kind="grid")
        return super().call_repo(interp, funcs, bound, args, kwargs, node)

    def call_external(self, interp, name, recv, args, kwargs, node):
        if name and name.rsplit(".", 1)[-1] in ("array", "asarray") and args and isinstance(args[0], ShapeVec):
            return ShapeVec()
        return super().call_external(interp, name, recv, args, kwargs, node)


def normals_clause(model, rep, funcs):
    for a in MASK_SIBLINGS:
        f = funcs.get(a)
        if f is None:
            continue
        dom = WedgeFrames(model)
        it = Interp(model, dom, depth=2)
        dots = []

        sib_names = {x.split("::")[1].split(".")[-1] for x in MASK_SIBLINGS}

        def on_call(interp, fn, node, callee, args, kwargs, env, _f=f):
            # the dot products may live in a sibling the function delegates to (create_mask -> _mask_from_norms): they are seen through inlining
            if (fn is _f or (fn.name in sib_names and fn.module is _f.module)) and isinstance(callee, ExtRef) and callee.name == "value.dot" and \
                    isinstance(callee.recv, Vec) and callee.recv.kind == "grid":
                dots.append((node, args[0] if args else TOP))

        it.on_call.append(on_call)
        it.run(f)
        rep.instance("F.normals", f.loc())
        if len(dots) < 2:
            rep.ob("F", a, "the index grid is dotted with two wedge-plane normals", None, f"{len(dots)} dot product(s) with the grid found", node=f.node,
                   fn=f, clause="2 normals", stmt=f"def {f.name}")
        for node, v in dots:
            if not isinstance(v, Vec):
                rep.ob("F", a, "normal dotted with the index grid is typed", None, f"{v!r}", node=node, fn=f, clause="2 normals")
                continue
            ok = v.frame == "M" and v.scale == "div"
            rep.ob("F", a, "the plane normal dotted with the integer index grid is expressed in the box frame and divided by the box shape "
                   "(physical frequency = index / box length): rotate W->M first, then / shape", ok,
                   f"normal is {v!r}" + ("" if ok else "; required Vec[M,/shape]"), node=node, fn=f, clause="2 normals")
        for kind, fn, node, msg in dom.events:
            rep.ob("F", fn.anchor if fn else a, "box-shape scaling and rotation are applied in compatible frames", False, msg, node=node, fn=fn or f,
                   clause="2 normals")
        # predicate over the two signed distances: it only looks at their signs, so it is decided on the 9 sign pairs {-,0,+}^2 and must equal
        # "d0 * d1 <= 0" there (keeps DC and bins on a wedge plane; even under k -> -k)
        dnames = []
        for node, v in dots:
            for st in walk_no_nested(f.node):
                if isinstance(st, ast.Assign) and len(st.targets) == 1 and isinstance(st.targets[0], ast.Name) and any(x is node for x in ast.walk(st.value)):
                    dnames.append(st.targets[0].id)
        cands = []
        if len(dnames) == 2:
            for st in walk_no_nested(f.node):
                v_ = st.value if isinstance(st, (ast.Assign, ast.Return)) and getattr(st, "value", None) is not None else None
                if v_ is None:
                    continue
                used = {x.id for x in ast.walk(v_) if isinstance(x, ast.Name)}
                if set(dnames) <= used and not any(isinstance(x, ast.Call) for x in ast.walk(v_)):
                    cands.append(v_)
        if len(cands) == 1:
            pexpr = cands[0]
            rep.instance("S13.pred", f.loc(pexpr))
            wrong = []
            undec = False
            for a0 in (-1, 0, 1):
                for a1 in (-1, 0, 1):
                    got = _sign_eval(pexpr, {dnames[0]: a0, dnames[1]: a1})
                    if got is None:
                        undec = True
                    elif bool(got) != (a0 * a1 <= 0):
                        wrong.append((a0, a1, bool(got)))
            sgn = {-1: "-", 0: "0", 1: "+"}
            det = f"predicate `{norm_src(pexpr)}`" + ("; differs from d0*d1 <= 0 for sign pairs " + ", ".join(f"({sgn[x]},{sgn[y]})->{'kept' if g else 'dropped'}"
                                                                                                             for x, y, g in wrong) if wrong else "")
            if any(x == 0 and y == 0 for x, y, _ in wrong):
                det += ": the zero-frequency bin is dropped"
            rep.ob("S13", a, "keep-predicate equals dot0*dot1 <= 0 on every sign pattern (non-strict: the zero-frequency bin and bins on a wedge plane are kept; "
                   "even under k -> -k)", (False if wrong else (None if undec else True)), det, node=pexpr, fn=f, clause="3 predicate")
        elif not dnames and dots and not any(x is dots[0][0] for x in ast.walk(f.node)):
            pass  # the function delegates to a sibling (the dot products were seen through inlining): the predicate is checked there
        else:
            rep.ob("S13", a, "keep-predicate on the product of the two signed distances", None, f"predicate not found ({len(dnames)} distances, {len(cands)} candidate "
                   "expressions)", node=f.node, fn=f, clause="3 predicate", stmt=f"def {f.name} #pred")
    rep.floor("F.normals", 4, "(four wedge-mask siblings)")


# --------------------------------------------------------------------------- clause 4: no-wedge / union / axes
def models_clause(model, rep, funcs):
    f = funcs.get("acryo/tilt/_base.py::NoWedge.create_mask")
    if f is not None:
        rets = [r for r in walk_no_nested(f.node) if isinstance(r, ast.Return) and r.value is not None]
        from ..match import Matcher as _Mx
        MN = _Mx(f)
        ok = len(rets) == 1 and any(MN.has(p_) for p_ in ("return np.ones(shape, ...)", "return np.full(shape, 1.0, ...)", "return np.full(shape, 1, ...)",
                                                          "return np.ones(shape)", "return np.ones_like($$x)"))
        rep.instance("SLOT.models", f.loc())
        rep.ob("SLOT", f.anchor, "the no-wedge model keeps every bin: ones(shape)", ok, norm_src(rets[0].value) if rets else "", node=f.node, fn=f,
               clause="4 models", stmt="def NoWedge.create_mask")
    f = funcs.get("acryo/tilt/_base.py::UnionAxes.create_mask")
    if f is not None:
        red = [c for c in calls_in(f) if dotted(c.func) == "reduce"]
        from ..match import Matcher as _Mx
        MU = _Mx(f)
        # the union as an element-wise maximum (or logical or) over every member's mask of the same rotator and shape - reduce() over a generator / list,
        # the ufunc's own reduce, a maximum along a stacked axis, or the explicit left fold
        ok = any(MU.has(p_) for p_ in (
            "reduce($$op, ($w.create_mask(rotator, shape) for $w in self._wedges))", "reduce($$op, [$w.create_mask(rotator, shape) for $w in self._wedges])",
            "np.maximum.reduce([$w.create_mask(rotator, shape) for $w in self._wedges])", "np.logical_or.reduce([$w.create_mask(rotator, shape) for $w in self._wedges])",
            "np.max(np.stack([$w.create_mask(rotator, shape) for $w in self._wedges], ...), axis=0)",
            "np.stack([$w.create_mask(rotator, shape) for $w in self._wedges], ...).max(axis=0)"))
        if ok and red:
            ok = norm_src(red[0].args[0]) in ("np.maximum", "np.logical_or", "numpy.maximum")
        if not ok and not red:
            ok = MU.all_of(["for $w in self._wedges:\n    ...", "$e = $w.create_mask(rotator, shape)",
                            "if $u is None:\n    $u = $e\nelse:\n    $u = np.maximum($u, $e)", "return $u"])[0] or \
                MU.all_of(["for $w in self._wedges:\n    ...", "$e = $w.create_mask(rotator, shape)",
                           "if $u is None:\n    $u = $e\nelse:\n    $u = np.logical_or($u, $e)", "return $u"])[0]
        rep.instance("SLOT.models", f.loc())
        rep.ob("SLOT", f.anchor, "a multi-axis model keeps the union of its members' masks (element-wise maximum over every member, same rotator and shape)",
               ok, norm_src(red[0])[:120] if red else "no reduce", node=f.node, fn=f, clause="4 models", stmt="def UnionAxes.create_mask")
    f = funcs.get("acryo/tilt/core.py::dual_axis")
    if f is not None:
        # decided on symbolic terms: the result is a UnionAxes over SingleAxisY(<y range>) and SingleAxisX(<x range>), however the calls are spelled
        from ..domains.terms import T as _T, TermDomain as _TD, subterms as _sub
        try:
            out_ = Interp(model, _TD(), depth=0).run(f, args={p_: _T("param", (p_,)) for p_ in f.param_names()})
        except Exception:
            out_ = None

        def _built(name, par):
            return any(s_.op == "new" and s_.args[0] == name and s_.args[1] and s_.args[1][0] == _T("param", (par,)) for s_ in _sub(out_)) if isinstance(out_, _T) else False

        ps_ = f.param_names()
        ok = isinstance(out_, _T) and out_.op == "new" and out_.args[0] == "UnionAxes" and len(ps_) >= 2 and _built("SingleAxisY", ps_[0]) and _built("SingleAxisX", ps_[1])
        rep.instance("SLOT.models", f.loc())
        rep.ob("SLOT", f.anchor, "dual_axis builds one Y-axis and one X-axis model from the corresponding ranges", ok, "", node=f.node, fn=f,
               clause="4 models", stmt="def dual_axis")
    f = funcs.get("acryo/tilt/core.py::single_axis")
    if f is not None:
        # evaluated on terms for axis = 'y' and axis = 'x' with a given range
        from ..domains.terms import T as _T, TermDomain as _TD
        from ..absint import Const as _C
        got_ = {}
        for ax_ in ("y", "x"):
            try:
                got_[ax_] = Interp(model, _TD(), depth=0).run(f, args={"tilt_range": _T("param", ("tilt_range",)), "axis": _C(ax_)})
            except Exception:
                got_[ax_] = None
        ok = all(isinstance(got_[a_], _T) and got_[a_].op == "new" and got_[a_].args[0] == nm_ and got_[a_].args[1] and got_[a_].args[1][0] == _T("param", ("tilt_range",))
                 for a_, nm_ in (("y", "SingleAxisY"), ("x", "SingleAxisX")))
        rep.instance("SLOT.models", f.loc())
        rep.ob("SLOT", f.anchor, "single_axis dispatches axis 'y' / 'x' to the Y / X model with the given range", ok, "", node=f.node, fn=f,
               clause="4 models", stmt="def single_axis")
    # normals: (cos, 0, sin) for a Y tilt axis, (cos, sin, 0) for an X tilt axis, in z,y,x order; angles pi - radians(deg)
    specs = {"acryo/tilt/_utils.py::get_norms_y": 1, "acryo/tilt/_utils.py::get_norms_x": 2, "acryo/backend/_missing_wedge.py::_get_unrotated_normals": 1,
             "acryo/_utils.py::_get_unrotated_normals": 1}
    for a, zero_idx in specs.items():
        f = funcs.get(a)
        if f is None:
            continue
        # decided on symbolic terms: the function returns (array([cos t0, *, *]), array([cos t1, *, *])) with t_k = pi - radians(tilt_range[k]);
        # helper functions, temporaries and the way the range is unpacked do not matter (the interpreter inlines repository helpers)
        from ..domains.terms import T as _T, TermDomain as _TD, callee_name as _cn, freeze as _fz
        rep.instance("SLOT.models", f.loc())
        out = _fz(Interp(model, _TD(), depth=2).run(f))
        tr = _T("param", (f.param_names()[0],))
        ok, det = True, []

        def is_pi(t):
            return isinstance(t, _T) and t.op == "ext" and str(t.args[0]).rsplit(".", 1)[-1] == "pi"

        def is_rad(t, k):
            if _cn(t) in ("radians", "deg2rad") and t.args[1] and t.args[1][0] == _T("item", (tr, k)):
                return True
            if isinstance(t, _T) and t.op == "item" and t.args[1] == k and _cn(t.args[0]) in ("radians", "deg2rad") and t.args[0].args[1] and t.args[0].args[1][0] == tr:
                return True
            return False

        def angle_of(t):
            return t.args[1][0] if _cn(t) in ("cos", "sin") and t.args[1] else None

        if not (isinstance(out, _T) and out.op == "tuple" and len(out.args) == 2):
            ok, det = None, [f"returns {out!r}"[:160]]
        else:
            for k, arr in enumerate(out.args):
                comp = arr.args[1][0] if _cn(arr) in ("array", "asarray") and arr.args[1] else None
                if not (isinstance(comp, _T) and comp.op == "tuple" and len(comp.args) == 3):
                    ok = None if ok else ok
                    det.append(f"normal {k} is {arr!r}"[:160])
                    continue
                kinds = [(_cn(c) if _cn(c) in ("cos", "sin") else ("0" if c in (_T("const", ("0",)), _T("const", ("0.0",))) else "?")) for c in comp.args]
                want = ["cos", "0", "sin"] if zero_idx == 1 else ["cos", "sin", "0"]
                if kinds != want:
                    ok = False
                    det.append(f"components {kinds}, required {want} (z, y, x order; the tilt axis component is 0)")
                    continue
                angs_ = {angle_of(c) for c in comp.args if _cn(c) in ("cos", "sin")}
                if len(angs_) != 1:
                    ok = False
                    det.append(f"normal {k}: cos and sin use different angles")
                    continue
                t = angs_.pop()
                good = isinstance(t, _T) and t.op == "op" and t.args[0] == "Sub" and is_pi(t.args[1]) and is_rad(t.args[2], k)
                if not good:
                    ok = False
                    det.append(f"normal {k}: angle {t!r} is not pi - radians(tilt_range[{k}]) (min tilt for the first plane, max tilt for the second)"[:220])
        rep.ob("SLOT", a, "wedge-plane normals are (cos t, 0, sin t) [Y axis] / (cos t, sin t, 0) [X axis] with t = pi - tilt for the min and max tilt", ok,
               "; ".join(det), node=f.node, fn=f, clause="4 models", stmt=f"def {f.name} normals")
    # SingleAxis validation of the range
    f = funcs.get("acryo/tilt/_single.py::SingleAxis.__init__")
    if f is not None:
        raises = [n for n in walk_no_nested(f.node) if isinstance(n, ast.Raise)]
        rep.instance("SLOT.models", f.loc())
        rep.ob("SLOT", f.anchor, "tilt ranges with min >= max or outside [-90, 90] are rejected", len(raises) >= 2, f"{len(raises)} guard(s)", node=f.node, fn=f,
               clause="4 models", stmt="def SingleAxis.__init__")
    for cls, fn_name in (("SingleAxisY", "get_norms_y"), ("SingleAxisX", "get_norms_x")):
        f = funcs.get(f"acryo/tilt/_single.py::{cls}._get_norms")
        if f is not None:
            ok = fn_name in norm_src(f.node) and "self._tilt_range" in norm_src(f.node)
            rep.instance("SLOT.models", f.loc())
            rep.ob("SLOT", f.anchor, f"{cls} uses {fn_name} of its own tilt range", ok, "", node=f.node, fn=f, clause="4 models", stmt=f"def {cls}._get_norms")


# --------------------------------------------------------------------------- clause 5: selection in alignment models
def selection_clause(model, rep, funcs):
    f = funcs.get("acryo/alignment/_base.py::TomographyInput.__init__")
    if f is None:
        return
    cfg = CFG(f.node)
    dead = [(n, name) for n, name in dead_definitions(cfg) if name in ("tilt_model", "tilt", "tilt_range")]
    rep.instance("S6", f.loc())
    if dead:
        for n, name in dead:
            rep.ob("S6", f.anchor, "no definition of the selected tilt model is dead (overwritten on every path before it is used)", False,
                   f"`{norm_src(n.node)}` never reaches a use: a later unconditional definition overwrites it, so this way of specifying the tilt range is ignored",
                   node=n.node, fn=f, clause="5 selection")
    else:
        rep.ob("S6", f.anchor, "no definition of the selected tilt model is dead", True, "", node=f.node, fn=f, clause="5 selection", stmt="def __init__ dead defs")
    # both spellings influence the stored model
    stores = [n for n in walk_no_nested(f.node) if isinstance(n, (ast.Assign, ast.AnnAssign)) and "self._tilt_model" in norm_src(n.targets[0] if isinstance(n, ast.Assign) else n.target)]
    if not stores:
        rep.error("TomographyInput.__init__: store to self._tilt_model not found")
        return
    IN = reaching_definitions(cfg)
    for st in stores:
        node = cfg.node_of(st)
        val = st.value
        # transitive closure over reaching definitions (flow-sensitive backward slice)
        infl = set()
        seen = set()
        work = [(node, nm) for nm in {x.id for x in ast.walk(val) if isinstance(x, ast.Name)}]
        while work:
            at, nm = work.pop()
            for d in IN[at].get(nm, ()):
                if (d.idx, nm) in seen:
                    continue
                seen.add((d.idx, nm))
                if d is cfg.entry:
                    infl.add(nm)
                    continue
                for u in stmt_uses(d):
                    work.append((d, u))
        for p in ("tilt", "tilt_range"):
            rep.instance("S6", f"{f.loc(st)} {p}")
            rep.ob("S6", f.anchor, f"the `{p}=` way of specifying the tilt geometry reaches self._tilt_model", p in infl,
                   "" if p in infl else f"parameter `{p}` has no data flow into `{norm_src(st)}` (flow-sensitive reaching definitions)", node=st, fn=f,
                   clause="5 selection", stmt=norm_src(st) + f" <- {p}")
    # accepted spellings: tuple -> single_axis, model object -> itself, None -> no_wedge
    # the three ways of giving `tilt`, each evaluated on symbolic terms (helpers of tilt/core.py inlined one level): None -> NoWedge, a model -> itself,
    # a (min, max) pair -> SingleAxisY of that pair
    from ..domains.terms import T as _T, TermDomain as _TD
    from ..absint import Const as _C

    def _tilt_model_for(tilt_val, assume, legacy=None):
        dom_ = _TD(assume_isinstance=assume)
        it_ = Interp(model, dom_, depth=2)
        got = []

        def on_return(interp, fn_, st_, val_, env=None):
            if fn_ is f and env is not None:
                slf = env.get(f.param_names()[0])
                flds = getattr(slf, "fields", None)
                if flds is not None and "_tilt_model" in flds:
                    got.append(flds["_tilt_model"])

        it_.on_return.append(on_return)
        args_ = {p_: _T("param", (p_,)) for p_ in f.param_names()[1:]}
        args_["tilt"] = tilt_val
        if "tilt_range" in args_:
            args_["tilt_range"] = legacy if legacy is not None else _C(None)
        me = Obj(f.cls, tag="self")
        try:
            it_.run(f, args=args_, self_val=me)
        except Exception:
            return None
        if "_tilt_model" in me.fields:
            return me.fields["_tilt_model"]
        return got[-1] if got else None

    v_none = _tilt_model_for(_C(None), {})
    v_model = _tilt_model_for(_T("param", ("tilt",)), {"tilt": "TiltSeriesModel"})
    v_pair = _tilt_model_for(_T("param", ("tilt",)), {"tilt": "tuple"})

    def _is_new(v, name, arg=None):
        return (isinstance(v, _T) and v.op == "new" and v.args[0] == name and (arg is None or (v.args[1] and v.args[1][0] == arg))) or \
            (isinstance(v, Obj) and v.cls.name == name)

    v_legacy = _tilt_model_for(_C(None), {"tilt_range": "tuple"}, legacy=_T("param", ("tilt_range",)))  # the deprecated keyword alone
    ok = _is_new(v_none, "NoWedge") and v_model == _T("param", ("tilt",)) and _is_new(v_pair, "SingleAxisY", _T("param", ("tilt",))) and \
        _is_new(v_legacy, "SingleAxisY", _T("param", ("tilt_range",)))
    rep.ob("SLOT", f.anchor, "tilt=None -> no wedge, tilt=model -> that model, tilt=(min, max) -> single-axis model", ok,
           "" if ok else f"None -> {v_none!r}; model -> {v_model!r}; pair -> {v_pair!r}; tilt_range= alone -> {v_legacy!r}"[:300], node=f.node, fn=f,
           clause="5 selection", stmt="def __init__ dispatch")
    wedge_call_obligation(model, rep, "5 selection")


def wedge_call_obligation(model, rep, clause):
    """create_mask takes the molecule's own rotation (M->W) and inverts it itself: the caller passes Rotation.from_quat(quat), not its inverse."""
    from ..match import Matcher
    try:
        g = model.func("acryo/alignment/_base.py::TomographyInput._get_missing_wedge_mask")
    except Exception as e:
        rep.error(f"anchor vanished: {e}")
        return
    c = [x for x in calls_in(g) if isinstance(x.func, ast.Attribute) and x.func.attr == "create_mask"]
    M = Matcher(g)
    ok = len(c) == 1 and (M.has("self._tilt_model.create_mask(Rotation.from_quat(quat), self.input_shape)") or
                          M.has("self._tilt_model.create_mask(Rotation.from_quat(quat), shape=self.input_shape)") or
                          M.has("self._tilt_model.create_mask(rotator=Rotation.from_quat(quat), shape=self.input_shape)"))
    det = ""
    if c and not ok:
        ex = norm_src(M.expr(c[0]))
        det = ex[:120]
        if ".inv()" in ex:
            det += ": the orientation is inverted before create_mask, which inverts it again - the wedge is rotated the wrong way for every rotated molecule"
    rep.instance("SLOT.models", g.loc())
    rep.ob("SLOT", g.anchor, "the model's wedge mask is create_mask(Rotation.from_quat(quat), input_shape) of the selected tilt model (un-inverted molecule rotation)", ok,
           det, node=g.node, fn=g, clause=clause, stmt="def _get_missing_wedge_mask")


def no_wedge_shortcut_clause(model, rep):
    """A factory may answer a given tilt range with the all-pass model (NoWedge) only when nothing is missing, i.e. the range covers [-90, 90] on both sides.
    Evaluated on affine forms with tilt_range = (lo, hi): every path that returns a NoWedge must imply lo <= -90 and hi >= 90."""
    from fractions import Fraction
    n = 0
    for fn in model.all_functions:
        if fn.module.relpath != "acryo/tilt/core.py" or fn.is_overload or fn.parent is not None:
            continue
        rng_params = [p for p in fn.param_names() if "tilt_range" in p or p == "tilt"]
        if not rng_params:
            continue
        n += 1
        rep.instance("NOWEDGE", fn.loc())
        dom = AffineDomain(model)
        it = Interp(model, dom, depth=0)
        args = {p: Tup([dom.sym(f"{p}_lo"), dom.sym(f"{p}_hi")]) for p in rng_params}
        bad: list = []

        def on_return(interp, f_, st, val, env, _fn=fn, _bad=bad, _dom=dom, _ps=rng_params):
            if f_ is not _fn or not (isinstance(val, Obj) and val.cls.name == "NoWedge"):
                return
            pcs = env.get("$pc", ())
            for p in _ps:
                lo, hi = _dom.sym(f"{p}_lo"), _dom.sym(f"{p}_hi")
                for what, goal in ((f"{p}[0] <= -90", _dom.add(_dom.neg(lo), mkA(-90))), (f"{p}[1] >= 90", _dom.add(hi, mkA(-90)))):
                    if not _dom.prove_ge_form(goal, pcs):
                        # witness among representative tilt angles (evaluation of the extracted path conditions only)
                        w = None
                        names = [f"{q}_{e}" for q in _ps for e in ("lo", "hi")]
                        import itertools
                        for vals in itertools.product((-90, -60, -100, 0, 35, 60, 90, 100), repeat=len(names)):
                            asg = {k: Fraction(v) for k, v in zip(names, vals)}
                            if any(asg[f"{q}_lo"] >= asg[f"{q}_hi"] for q in _ps):
                                continue
                            okp = True
                            for c_ in pcs:
                                v_ = _dom.eval_form(c_.diff, asg) if hasattr(c_, "diff") else None
                                if v_ is None or not {"<": v_ < 0, "<=": v_ <= 0, ">": v_ > 0, ">=": v_ >= 0, "==": v_ == 0, "!=": v_ != 0}[c_.op]:
                                    okp = False
                                    break
                            g_ = _dom.eval_form(goal, asg) if okp else None
                            if g_ is not None and g_ < 0:
                                w = ({k: int(v) for k, v in asg.items()}, float(g_))
                                break
                        _bad.append((st, what, w))

        it.on_return.append(on_return)
        try:
            it.run(fn, args=args)
        except Exception as e:  # pragma: no cover
            rep.note(f"{fn.name}: not evaluated ({e!r})")
            continue
        ok = not bad
        det = ""
        if bad:
            st, what, w = bad[0]
            ok = False if w is not None else None
            det = f"`{norm_src(st)}` is reached without `{what}`" + (f", e.g. for {w[0]}: a one-sided range gets the all-pass mask" if w is not None else "")
        rep.ob("NOWEDGE", fn.anchor, "a given tilt range is answered with NoWedge only if it covers [-90, 90] on both sides", ok, det,
               node=(bad[0][0] if bad else fn.node), fn=fn, clause="3 models", stmt=(None if bad else f"def {fn.name} NoWedge"))
    rep.floor("NOWEDGE", 2, "(single_axis and dual_axis)")


def valid_range_clause(model, rep):
    """Every tilt range lo < hi inside [-90, 90] (boundaries included: a series that reaches 90 degrees on one side is a valid, one-sided wedge) is accepted by
    the tilt models: no raising path of a model constructor is feasible for such a range.  Decided by evaluating the path conditions of every `raise` on
    representative angles (the conditions are comparisons of lo / hi with constants: thresholds, points between and beyond them)."""
    from fractions import Fraction
    import itertools
    n = 0
    for fn in model.all_functions:
        if not fn.module.relpath.startswith("acryo/tilt/") or fn.name != "__init__" or fn.cls is None:
            continue
        rng_params = [p for p in fn.param_names()[1:] if "tilt_range" in p or p == "tilt"]
        if len(rng_params) != 1 or not any(isinstance(x, ast.Raise) for x in ast.walk(fn.node)):
            continue
        p = rng_params[0]
        n += 1
        rep.instance("RANGE", fn.loc())
        dom = AffineDomain(model)
        it = Interp(model, dom, depth=0)
        bad: list = []

        def on_raise(interp, f_, st, env, _fn=fn, _bad=bad, _dom=dom, _p=p):
            if f_ is not _fn:
                return
            pcs = [c_ for c_ in env.get("$pc", ()) if hasattr(c_, "diff")]
            pts = (-90, -89, -60, 0, 35, 60, 89, 90)
            for lo_, hi_ in itertools.product(pts, pts):
                if lo_ >= hi_:
                    continue
                asg = {f"{_p}_lo": Fraction(lo_), f"{_p}_hi": Fraction(hi_)}
                vals = [_dom.eval_form(c_.diff, asg) for c_ in pcs]
                if all(v_ is not None and {"<": v_ < 0, "<=": v_ <= 0, ">": v_ > 0, ">=": v_ >= 0, "==": v_ == 0, "!=": v_ != 0}[c_.op] for v_, c_ in zip(vals, pcs)):
                    _bad.append((st, (lo_, hi_)))
                    return

        it.on_raise.append(on_raise)
        try:
            it.run(fn, args={p: Tup([dom.sym(f"{p}_lo"), dom.sym(f"{p}_hi")])})
        except Exception as e:  # pragma: no cover
            rep.note(f"{fn.qual}: not evaluated ({e!r})")
            continue
        rep.ob("RANGE", fn.anchor, "every tilt range lo < hi within [-90, 90], boundaries included, is accepted", not bad,
               (f"`{norm_src(bad[0][0])[:60]}` is reached for the valid range {bad[0][1]}" if bad else ""), node=(bad[0][0] if bad else fn.node), fn=fn,
               clause="3 models", stmt=(None if bad else f"def {fn.cls.name}.__init__ range guard"))
    rep.floor("RANGE", 1, "(SingleAxis.__init__ validates the tilt range)")


def check(model, rep, tier):
    rep.decided += ["C08.1 per-axis index grid is FFT-ordered for even and odd sizes in all three grid builders", "C08.2 plane normals are mapped W->M and then divided by the box shape in all four mask builders",
                    "C08.3 non-strict predicate keeps DC / is even", "C08.4 no-wedge, union, axis tables", "C08.5 every accepted tilt spelling reaches the stored tilt model"]
    rep.not_decided += ["bins lying exactly on a wedge plane (floating-point ties)", "Nyquist-plane symmetry for even sizes"]
    funcs = need_funcs(model, rep, ANCHORS)
    grid_clause(model, rep, funcs)
    normals_clause(model, rep, funcs)
    models_clause(model, rep, funcs)
    selection_clause(model, rep, funcs)
    no_wedge_shortcut_clause(model, rep)
    valid_range_clause(model, rep)
    from .generic import axis_convention_obligations
    axis_convention_obligations(model, rep, ["acryo/backend/_missing_wedge.py", "acryo/tilt/_utils.py", "acryo/_utils.py", "acryo/tilt/_single.py", "acryo/tilt/_base.py"],
                                "1 grid", floor=3)
    from .generic import with_params_forwarding_obligations
    with_params_forwarding_obligations(model, rep, "3 models", ("tilt", "tilt_range"))
    rep.floor("WPARAM", 1, "(with_params of the alignment model classes that name this option)")
