"""C07 - correlation scores mean what they say (DESIGN 5, C07)."""
from __future__ import annotations

import ast
from fractions import Fraction

from ..absint import TOP, ExtRef, FuncRef, Interp, Tup, Const
from ..domains.affine import mkA
from ..domains.arrays import ArrayDomain, Seq, Vec3
from ..domains.homog import HP, HomogDomain, Lin, cs_form, offset_free, poly_degree, rebase, strip_phase, subst_src, symmetric_preprocessing
from ..repo import calls_in, dotted, norm_src, walk_no_nested
from ..match import Matcher, src as msrc
from .common import kwarg, need_funcs
from . import C05

BZ = "acryo/backend/_zncc.py::"
BF = "acryo/backend/_fsc.py::"
AC = "acryo/alignment/_concrete.py::"
AB = "acryo/alignment/_base.py::"

CLASSES = {"PCCAlignment": "pcc", "NCCAlignment": "ncc", "ZNCCAlignment": "zncc", "FSCAlignment": "fsc"}
METHODS = ("_optimize", "_score", "_landscape")

ANCHORS = [BZ + n for n in ("ncc", "zncc", "ncc_landscape", "ncc_landscape_no_pad", "_window_sum_2d", "_window_sum_3d", "_safe_sqrt", "fftconvolve",
                            "ncc_landscape_with_crop", "zncc_landscape_with_crop", "subpixel_ncc", "subpixel_zncc")] + \
          [BF + "fsc_landscape", BF + "fsc", BF + "subpixel_fsc"] + \
          [AC + f"{c}.{m}" for c in CLASSES for m in METHODS] + \
          [AB + n for n in ("BaseAlignmentModel.score", "BaseAlignmentModel.landscape", "BaseAlignmentModel._landscape_single",
                            "BaseAlignmentModel._landscape_multiple", "BaseAlignmentModel._optimize_single", "BaseAlignmentModel._optimize_multiple",
                            "BaseAlignmentModel._get_template_and_mask_input", "RotationImplemented._get_template_and_mask_input",
                            "TomographyInput.pre_transform", "TomographyInput._get_missing_wedge_mask")] + \
          ["acryo/backend/_mesh.py::_build_mesh", "acryo/backend/_upsample.py::upsample", "acryo/backend/_upsample.py::_create_mesh"]


def _score_of(model, f, extra=None, depth=4):
    dom = HomogDomain(model)
    it = Interp(model, dom, depth=depth)
    ps = f.param_names()
    args = {ps[0]: HP.atom(Lin("a"), True), ps[1]: HP.atom(Lin("b"), True), "backend": ExtRef("numpy")}
    if extra:
        args.update(extra)
    out = it.run(f, args=args)
    return out, dom


# --------------------------------------------------------------------------- clause 1: formulas
def formula_clause(model, rep, funcs):
    specs = [
        (BZ + "ncc", dict(cs=True, centred=False, reducer="sum")),
        (BZ + "zncc", dict(cs=True, centred=True, reducer="sum")),
        (BF + "fsc_landscape", dict(cs=True, centred=False, reducer="sum_labels", extra={"max_shifts": Tup([HP.const(1)] * 3)})),
    ]
    for anchor, sp in specs:
        f = funcs.get(anchor)
        if f is None:
            continue
        out, dom = _score_of(model, f, sp.get("extra"))
        rep.instance("H.formula", f.loc())
        if not isinstance(out, HP):
            rep.ob("H", anchor, "score expression evaluated to a homogeneity form", None, f"got {out!r}"[:200], node=f.node, fn=f, clause="1 formulas",
                   stmt=f"def {f.name}")
            continue
        d = poly_degree(out)
        rep.ob("H", anchor, "score has homogeneity degree (0, 0): unchanged by positive rescaling of either input", d == (0, 0),
               f"degree {tuple(map(str, d)) if d else 'inhomogeneous'} of {out!r}"[:400], node=f.node, fn=f, clause="1 formulas", stmt=f"def {f.name} #degree")
        # fsc_landscape averages the per-shell quotient over the shells; an image-independent factor there (sum / count instead of mean) is validated by the
        # shell-mean obligation below, not by the Cauchy-Schwarz form
        ok, why, info = cs_form(out, scalar_ok=anchor.endswith("fsc_landscape"))
        if anchor.endswith("fsc_landscape"):
            from .generic import shell_mean_obligations
            shell_mean_obligations(model, rep, f, "1 formulas")
        rep.ob("H", anchor, "score is in Cauchy-Schwarz form B(x,y)/sqrt(B(x,x) B(y,y)) with one bilinear reducer (=> |score| <= 1 and = 1 for identical inputs)",
               ok, why, node=f.node, fn=f, clause="1 formulas", stmt=f"def {f.name} #cs")
        if ok:
            rok = info["reducer"].startswith(sp["reducer"])
            rep.ob("H", anchor, f"the bilinear reducer is {sp['reducer']}", rok, f"reducer {info['reducer']}", node=f.node, fn=f, clause="1 formulas",
                   stmt=f"def {f.name} #reducer")
            sok, swhy = symmetric_preprocessing(info)
            rep.ob("H", anchor, "both inputs go through the same linear pre-processing inside the score (symmetric in its two arguments)", sok, swhy,
                   node=f.node, fn=f, clause="1 formulas", stmt=f"def {f.name} #symmetric")
            if sp["centred"]:
                oa, ob = offset_free(out, "a"), offset_free(out, "b")
                rep.ob("H", anchor, "both inputs are mean-subtracted before any product (offset invariance; Pearson correlation)", oa and ob,
                       f"offset-free in first input: {oa}, second: {ob}; operands {info['X']!r}, {info['Y']!r}", node=f.node, fn=f, clause="1 formulas",
                       stmt=f"def {f.name} #centred")
        for kind, fn, node, msg in dom.events:
            rep.ob("H", fn.anchor if fn else anchor, "terms that are added have the same homogeneity degree", False, msg, node=node, fn=fn or f,
                   clause="1 formulas")
    # window-normalised landscape: degree (0,0)
    f = funcs.get(BZ + "ncc_landscape_no_pad")
    if f is not None:
        out, dom = _score_of(model, f, depth=4)
        rep.instance("H.formula", f.loc())
        d = poly_degree(out) if isinstance(out, HP) else None
        rep.ob("H", f.anchor, "window-normalised landscape has homogeneity degree (0, 0)", (d == (0, 0)) if isinstance(out, HP) else None,
               f"degree {tuple(map(str, d)) if d else None} of {out!r}"[:300], node=f.node, fn=f, clause="1 formulas", stmt="def ncc_landscape_no_pad #degree")
        for kind, fn, node, msg in dom.events:
            rep.ob("H", fn.anchor if fn else f.anchor, "terms that are added/subtracted in the landscape have the same homogeneity degree", False, msg,
                   node=node, fn=fn or f, clause="1 formulas")
    # fsc(): zero-range landscape element
    f = funcs.get(BF + "fsc")
    if f is not None:
        src = norm_src(f.node)
        calls = [c for c in calls_in(f) if (dotted(c.func) or "").endswith("fsc_landscape")]
        ok = bool(calls) and all(norm_src(c.args[2]) in ("(0, 0, 0)", "(0.0, 0.0, 0.0)") for c in calls if len(c.args) > 2) and "[0, 0, 0]" in src
        rep.instance("H.formula", f.loc())
        rep.ob("SLOT", f.anchor, "fsc score is the zero-displacement element of the FSC landscape", ok, "", node=f.node, fn=f, clause="1 formulas",
               stmt="def fsc")


# --------------------------------------------------------------------------- clause 2: one pre-processing chain
def chain_clause(model, rep, funcs):
    fam_of_callee = lambda n: ("zncc" if "zncc" in n else "ncc" if "ncc" in n else "pcc" if "pcc" in n else "fsc" if "fsc" in n else None)
    expected_kind = {"_optimize": "subpixel_", "_score": "", "_landscape": "landscape"}
    per_class_ops = {}
    for cname, fam in CLASSES.items():
        for mname in METHODS:
            anchor = AC + f"{cname}.{mname}"
            f = funcs.get(anchor)
            if f is None:
                continue
            dom = HomogDomain(model)
            it = Interp(model, dom, depth=1)
            seen = []

            def on_call(interp, fn, node, callee, args, kwargs, env, _f=f):
                if fn is _f and isinstance(callee, FuncRef) and callee.funcs[0].module.relpath.startswith("acryo/backend/_") and len(args) >= 2:
                    seen.append((callee.funcs[0], args[0], args[1], node, kwargs))

            it.on_call.append(on_call)
            it.run(f, args={"subvolume": HP.atom(Lin("a"), True), "template": HP.atom(Lin("b"), True), "backend": ExtRef("numpy")})
            rep.instance("S11.chain", f.loc())
            if len(seen) != 1:
                rep.ob("S11", anchor, "exactly one backend correlation routine is called", None if not seen else False,
                       f"{[c[0].name for c in seen]}", node=f.node, fn=f, clause="2 chain", stmt=f"def {cname}.{mname}")
                continue
            callee, x, y, node, kwargs = seen[0]
            cf = fam_of_callee(callee.name)
            kind_ok = (mname == "_optimize" and callee.name.startswith("subpixel_")) or \
                      (mname == "_landscape" and "landscape" in callee.name) or \
                      (mname == "_score" and (callee.name in ("ncc", "zncc", "fsc") or (fam == "pcc" and callee.name == "subpixel_pcc")))
            rep.ob("S11", anchor, f"{mname} of the {fam.upper()} model calls the {fam} routine of the matching kind", cf == fam and kind_ok,
                   f"calls {callee.name}", node=node, fn=f, clause="2 chain", stmt=norm_src(node)[:60] + " #family")
            lx = x.is_single_lin() if isinstance(x, HP) else None
            ly = y.is_single_lin() if isinstance(y, HP) else None
            if lx is None or ly is None:
                rep.ob("S11", anchor, "both operands are linear images of the sub-volume and of the template", None, f"{x!r} / {y!r}"[:300], node=node, fn=f,
                       clause="2 chain", stmt=norm_src(node)[:60] + " #operands")
                continue
            ok_src = lx.src == "a" and ly.src == "b"
            rep.ob("S11", anchor, "first operand derives from the sub-volume, second from the template", ok_src, f"{lx!r}, {ly!r}", node=node, fn=f,
                   clause="2 chain", stmt=norm_src(node)[:60] + " #order")
            same = lx.ops == ly.ops
            rep.ob("S11", anchor, "sub-volume and template get the same wedge mask and the same transform (both or neither through ifftn(.).real)", same,
                   f"sub-volume: {lx!r}; template: {ly!r}", node=node, fn=f, clause="2 chain", stmt=norm_src(node)[:60] + " #same-chain")
            mw = [o for o in lx.ops if isinstance(o, tuple) and o[0] == "mul" and "mw" in str(o[1])]
            okq = bool(mw) and "quaternion" in str(mw[0][1])
            rep.ob("S11", anchor, "the wedge mask is computed from the molecule's quaternion", okq, f"mask ops {mw}", node=node, fn=f, clause="2 chain",
                   stmt=norm_src(node)[:60] + " #wedge")
            per_class_ops.setdefault(cname, {})[mname] = lx.ops
            # max_shifts / backend forwarded
            if mname in ("_optimize", "_landscape"):
                ms = node.keywords and kwarg(node, "max_shifts")
                okm = ms is not None and norm_src(ms) == "max_shifts"
                rep.ob("S11", anchor, "max_shifts is forwarded unchanged", okm, f"max_shifts={norm_src(ms) if ms is not None else None}", node=node, fn=f,
                       clause="2 chain", stmt=norm_src(node)[:60] + " #max_shifts")
    for cname, d in per_class_ops.items():
        vals = set(d.values())
        rep.instance("S11.chain", f"class {cname}")
        rep.ob("S11", AC + cname, "score, landscape and optimisation of one model pre-process their inputs identically", len(vals) == 1,
               f"{ {k: v for k, v in d.items()} }"[:300], clause="2 chain", stmt=f"class {cname} chain")
    rep.floor("S11.chain", 12, "(4 model classes x 3 methods)")
    # base class: every path feeds pre_transform(image * mask)
    for name, callee_attr in (("BaseAlignmentModel.score", "_score"), ("BaseAlignmentModel._landscape_single", "_landscape"),
                              ("BaseAlignmentModel._landscape_multiple", "_landscape"), ("BaseAlignmentModel._optimize_single", "_optimize"),
                              ("BaseAlignmentModel._optimize_multiple", "_optimize")):
        f = funcs.get(AB + name)
        if f is None:
            continue
        calls = [c for c in calls_in(f) if isinstance(c.func, ast.Attribute) and c.func.attr == callee_attr and dotted(c.func.value) == "self"]
        rep.instance("S11.base", f.loc())
        ok = bool(calls)
        det = ""
        if not calls and name.endswith("_multiple"):
            # delegation to the verified single-template sibling, once per (template, mask) pair of the zipped lists, with the sub-volume itself
            sib = name.split(".")[-1].replace("_multiple", "_single")
            MD = Matcher(f)
            sub = [p_ for p_ in ("img", "subvolume") if p_ in f.param_names()]
            ok = bool(sub) and any(MD.has(pt) for pt in (
                f"[self.{sib}({sub[0]}, $t, $m, ...) for $t, $m in zip(template_list, mask_list)]",
                f"for $t, $m in zip(template_list, mask_list):\n    $r = self.{sib}({sub[0]}, $t, $m, ...)\n    ...",
                f"for $t, $m in zip(template_list, mask_list):\n    $o.append(self.{sib}({sub[0]}, $t, $m, ...))"))
            det = "" if ok else f"neither {callee_attr}(pre_transform(image * mask), ...) nor a delegation to {sib} per (template, mask) pair"
        for c in calls:
            a0 = c.args[0] if c.args else None
            good = isinstance(a0, ast.Call) and isinstance(a0.func, ast.Attribute) and a0.func.attr == "pre_transform" and a0.args and \
                isinstance(a0.args[0], ast.BinOp) and isinstance(a0.args[0].op, ast.Mult)
            if good:
                # operands by what they are bound to (parameters, the model's own mask, the mask paired with the template), not by their names;
                # the expression is taken from the expanded statement so that comprehension variables are resolved in their own scope
                x = None
                for st_, xs_ in Matcher(f)._nodes(True):  # pre-order: the innermost statement that contains the call comes last
                    if isinstance(st_, (ast.For, ast.While, ast.If, ast.With, ast.Try)):
                        continue
                    if any(sub is c for sub in ast.walk(st_)):
                        for sub in ast.walk(xs_):
                            if isinstance(sub, ast.Call) and isinstance(sub.func, ast.Attribute) and sub.func.attr == callee_attr and sub.args and \
                                    isinstance(sub.args[0], ast.Call) and sub.args[0].args and isinstance(sub.args[0].args[0], ast.BinOp):
                                x = sub.args[0].args[0]
                                break
                if x is None:
                    x = Matcher(f).expr(a0.args[0])
                lnames = {n.id for n in ast.walk(x.left) if isinstance(n, ast.Name)}
                rtxt = ast.unparse(x.right)
                params = set(f.param_names())
                good = bool(lnames & {"img", "subvolume"} & params) and (
                    rtxt in ("mask", "__elem__(mask_list)") and (rtxt != "mask" or "mask" in params) or
                    (rtxt.startswith("self._get_template_and_mask_input(") and rtxt.endswith(")[1]")))
            if not good:
                ok = False
                det = f"first argument of {callee_attr} is `{norm_src(a0)[:80] if a0 is not None else None}`"
        rep.ob("S11", AB + name, f"the sub-volume reaches {callee_attr} as pre_transform(image * mask)", ok, det, node=f.node, fn=f, clause="2 chain",
               stmt=f"def {name.split('.')[-1]} chain")
    for name in ("BaseAlignmentModel._get_template_and_mask_input", "RotationImplemented._get_template_and_mask_input"):
        f = funcs.get(AB + name)
        if f is None:
            continue
        rep.instance("S11.base", f.loc())
        # every template that is stored/returned passed through pre_transform (directly, via the pool, or via _transform_template)
        pts = [c for c in ast.walk(f.node) if isinstance(c, ast.Call) and ((isinstance(c.func, ast.Attribute) and c.func.attr == "pre_transform") or
               (isinstance(c.func, ast.Attribute) and c.func.attr == "from_func" and c.args and norm_src(c.args[0]) in ("self.pre_transform", "self._transform_template")))]
        masked = [n for n in ast.walk(f.node) if isinstance(n, ast.BinOp) and isinstance(n.op, ast.Mult) and "mask" in norm_src(n) and
                  ("tmp" in norm_src(n) or "_template" in norm_src(n))]
        branches = len([n for n in walk_no_nested(f.node) if isinstance(n, ast.If) and "_n_templates" in norm_src(n.test)])
        ok = len(pts) >= 2 and len(masked) >= 2
        rep.ob("S11", AB + name, "every template candidate is masked and passed through pre_transform before it is cached", ok,
               f"{len(pts)} pre_transform site(s), {len(masked)} template*mask product(s), {branches} template-count branch(es)", node=f.node, fn=f,
               clause="2 chain", stmt=f"def {name} chain")


def mask_degree_clause(model, rep, funcs):
    """The sub-volume reaches the score as pre_transform(image * mask): the mask enters once.  Every template candidate that is transformed and cached must carry
    the mask exactly once as well (mask**2 != mask for a soft-edged mask: a sub-volume identical to the template would no longer score 1).  Decided on the symbolic
    terms handed to pre_transform / the transform pool: the number of `self._mask` factors in the product."""
    from ..domains.terms import T, TermDomain, subterms
    LINEAR = {"asarray", "spline_filter", "astype", "ascontiguousarray", "copy", "array", "stack", "affine_transform", "rotated_crop", "compute"}

    def has(t, attr):
        return any(s_.op == "attr" and s_.args[1] == attr for s_ in subterms(t))

    def deg(t):
        if not isinstance(t, T):
            return 0
        if t.op == "attr":
            return 1 if t.args[1] == "_mask" else (0 if not has(t, "_mask") else deg(t.args[0]))
        if t.op == "op":
            if t.args[0] == "Mult":
                l, r = deg(t.args[1]), deg(t.args[2])
                return None if l is None or r is None else l + r
            return 0 if not has(t, "_mask") else None
        if t.op in ("elem", "sub", "item", "computed", "listof"):
            return deg(t.args[0])
        if t.op == "call":
            c = t.args[0]
            nm = c.args[1] if isinstance(c, T) and c.op == "attr" else (str(c.args[0]).rsplit(".", 1)[-1] if isinstance(c, T) and c.op == "ext" else None)
            if nm in LINEAR and t.args[1]:
                return deg(t.args[1][0])
            return 0 if not has(t, "_mask") else None
        return 0 if not has(t, "_mask") else None

    for name in ("BaseAlignmentModel._get_template_and_mask_input", "RotationImplemented._get_template_and_mask_input"):
        f = funcs.get(AB + name)
        if f is None:
            continue
        it = Interp(model, TermDomain(), depth=0)
        seen: list = []

        def on_call(interp, fn, node, callee, args, kwargs, env, _f=f, _seen=seen):
            if fn is _f and isinstance(node.func, ast.Attribute) and node.func.attr in ("add_task", "pre_transform", "_transform_template") and args:
                _seen.append((node, args[0]))

        it.on_call.append(on_call)
        try:
            it.run(f, self_val=T("param", ("self",)))
        except Exception as e:  # pragma: no cover
            rep.note(f"{name}: not evaluated on terms ({e!r})")
            continue
        done = set()
        for node, t in seen:
            if not has(t, "_template") or id(node) in done:
                continue
            d = deg(t)
            if d is None:
                continue
            done.add(id(node))
            rep.instance("S11.degree", f.loc(node))
            rep.ob("S11", AB + name, "a template candidate carries the mask exactly once when it is transformed (as the sub-volume does)", d == 1,
                   f"`{norm_src(node)[:70]}` receives {t!r}"[:260] + f": {d} mask factor(s)", node=node, fn=f, clause="2 chain")
    rep.floor("S11.degree", 4, "(template candidates handed to pre_transform / the transform pool)")


# --------------------------------------------------------------------------- clause 3: landscape geometry
def geometry_clause(model, rep, funcs):
    # origins of the cropped landscapes and the mesh encoder/decoder identity are the obligations of C05 clauses 1-2
    c5 = need_funcs(model, rep, [a for a in C05.ANCHORS if a in model_funcs(model, C05.ANCHORS)])
    C05.crop_clause(model, rep, c5)
    C05.refinement_clause(model, rep, c5)
    f = funcs.get("acryo/backend/_mesh.py::_build_mesh")
    if f is None:
        return
    dom = C05.mkdom(model)
    dom.integer.add("upsample")
    dom.positive.add("upsample")
    it = Interp(model, dom, depth=1)
    shp = Tup(list(C05.syms(dom, "n0", "n1", "n2")))
    m = Tup(list(C05.syms(dom, "m0", "m1", "m2")))
    got = []

    def on_call(interp, fn, node, callee, args, kwargs, env):
        if fn is f and isinstance(callee, ExtRef) and callee.name.endswith("meshgrid"):
            got.append(args)

    it.on_call.append(on_call)
    it.run(f, args={"shape": shp, "max_shifts": m, "upsample": dom.sym("upsample"), "backend": ExtRef("numpy")})
    rep.instance("A.mesh", f.loc())
    seqs = [a for args in got for a in args if isinstance(a, Seq)]
    if len(seqs) != 3:
        rep.ob("A", f.anchor, "up-sampling mesh evaluated symbolically", None, f"{got!r}"[:200], node=f.node, fn=f, clause="3 geometry", stmt="def _build_mesh")
        return
    for i, q in enumerate(seqs):
        c = dom.add(dom.div(shp.items[i], mkA(2)), mkA(Fraction(-1, 2)))
        mid = dom.add(q.first, dom.norm(dom.binop(it, ast.Mult(), dom.div(dom.add(q.n, mkA(-1)), mkA(2)), q.step, None)))
        rep.ob("A", f.anchor, f"axis {i}: the up-sampling mesh is symmetric about the landscape centre shape/2 - 1/2 (index of zero displacement)",
               mid.equals(c), f"mesh midpoint {mid!r}, centre {c!r}", node=f.node, fn=f, clause="3 geometry", stmt=f"def _build_mesh #sym{i}")
        want_step = dom.div(mkA(1), dom.sym("upsample"))
        rep.ob("A", f.anchor, f"axis {i}: mesh spacing is 1/upsample pixel", q.step.equals(want_step), f"step {q.step!r}", node=f.node, fn=f,
               clause="3 geometry", stmt=f"def _build_mesh #step{i}")
        half = dom.div(dom.add(q.n, mkA(-1)), mkA(2))
        span = dom.norm(dom.binop(it, ast.Mult(), half, q.step, None))
        g = dom.add(m.items[i], dom.neg(span))
        ok = dom.prove_ge_form(g)
        rep.ob("A", f.anchor, f"axis {i}: the mesh spans at most +-max_shifts", True if ok else (None if ok is None else False),
               "" if ok else f"half-span {span!r}", node=f.node, fn=f, clause="3 geometry", stmt=f"def _build_mesh #span{i}")
        # ... and not less than the permitted range minus one mesh step: the landscape must contain the displacement that alignment may report
        g2 = dom.add(dom.add(span, q.step), dom.neg(m.items[i]))
        ok2 = dom.prove_ge_form(g2)
        det2 = ""
        if not ok2:
            w2 = dom.find_witness(g2, (), tol=Fraction(1, 1000))
            ok2, det2 = (False, f"for {w2[0]} the landscape stops {-w2[1]:.3f} px short of max_shifts although alignment searches the whole range (half-span "
                                f"{span!r})"[:500]) if w2 is not None else (None, f"half-span {span!r}")
        rep.ob("A", f.anchor, f"axis {i}: the mesh reaches +-max_shifts to within one mesh step", True if ok2 else ok2, det2, node=f.node, fn=f,
               clause="3 geometry", stmt=f"def _build_mesh #cover{i}")


def model_funcs(model, anchors):
    out = []
    for a in anchors:
        try:
            model.func(a)
            out.append(a)
        except Exception:
            pass
    return out


def padding_clause(model, rep, funcs):
    """The search-range padding of the (Z)NCC landscapes is neutral: the image handed to ncc_landscape is padded with its own mean
    (0 after mean subtraction), in the landscape and in the sub-pixel variant alike."""
    kinds = {}
    for name in ("zncc_landscape_with_crop", "subpixel_zncc", "ncc_landscape_with_crop", "subpixel_ncc"):
        try:
            f = funcs.get(BZ + name) or model.func(BZ + name)
        except Exception:
            continue
        M = Matcher(f)
        calls = [c for c in calls_in(f) if (dotted(c.func) or "").endswith("ncc_landscape")]
        rep.instance("PAD", f.loc())
        if len(calls) != 1 or not calls[0].args:
            rep.ob("PAD", f.anchor, "one call of ncc_landscape", None, f"{len(calls)} calls", node=f.node, fn=f, clause="1 formula", stmt=f"def {name} pad")
            continue
        c = calls[0]
        x = M.expr(c.args[0])
        cv = kwarg(c, "constant_values")
        cvx = M.expr(cv) if cv is not None else ast.Constant(value=0)
        xs, cs = ast.unparse(x), ast.unparse(cvx)
        if isinstance(x, ast.Name):
            # a parameter re-bound in straight-line code before the call (`img0 = img0 - img0.mean()`): take its last definition
            last = None
            for st in f.node.body:
                if st.lineno >= c.lineno:
                    break
                if isinstance(st, ast.Assign) and len(st.targets) == 1 and isinstance(st.targets[0], ast.Name) and st.targets[0].id == x.id:
                    last = st.value
            if last is not None:
                x = last
                xs = ast.unparse(x)
        centred = isinstance(x, ast.BinOp) and isinstance(x.op, ast.Sub) and isinstance(x.left, ast.Name) and \
            ast.unparse(x.right) in (f"{x.left.id}.mean()", f"np.mean({x.left.id})", f"backend.mean({x.left.id})")
        if centred:
            ok = cs in ("0", "0.0")
            kind = "centred/0"
            det = "" if ok else f"the mean-subtracted image `{xs}` is padded with `{cs}`: every off-centre landscape value then depends on an added constant (offset invariance lost)"
        elif isinstance(x, ast.Name):
            ok = cs in (f"{x.id}.mean()", f"np.mean({x.id})", f"backend.mean({x.id})")
            kind = "raw/mean"
            det = "" if ok else f"the image `{xs}` is padded with `{cs}` instead of its own mean"
        else:
            ok, kind, det = None, "?", f"image operand `{xs}`, pad constant `{cs}`"
        kinds[name] = (kind, ok)
        rep.ob("PAD", f.anchor, "the search-range padding is neutral (the padded image is extended with its own mean: 0 for the centred ZNCC operand)", ok, det, node=c, fn=f,
               clause="1 formula", stmt=f"def {name} pad")
    for a_, b_ in (("zncc_landscape_with_crop", "subpixel_zncc"), ("ncc_landscape_with_crop", "subpixel_ncc")):
        if a_ in kinds and b_ in kinds:
            rep.ob("S11", BZ + a_, f"landscape and alignment ({a_} / {b_}) pad the same way, so the landscape maximum is where alignment reports it",
                   kinds[a_][0] == kinds[b_][0] if "?" not in (kinds[a_][0], kinds[b_][0]) else None, f"{kinds[a_][0]} vs {kinds[b_][0]}", clause="1 formula",
                   stmt=f"pad siblings {a_}")
    rep.floor("PAD", 4, "(two landscapes, two sub-pixel variants)")


def check(model, rep, tier):
    rep.decided += ["C07.1 ncc/zncc/fsc are in Cauchy-Schwarz form with one reducer, degree (0,0), symmetric; zncc mean-subtracts both inputs; "
                    "the window-normalised landscape has degree (0,0)",
                    "C07.2 in every model x method both operands get the same wedge mask (from the same quaternion) and the same transform; callee family matches; "
                    "base class feeds pre_transform(image*mask) everywhere",
                    "C07.3 zero displacement sits at shape//2 of every cropped landscape; up-sampling mesh symmetric about it; mesh encoder/decoder identity"]
    rep.not_decided += ["numerical equality with an independently computed Pearson coefficient after masking/filtering/wedge",
                        "uniqueness of the peak of a noisy landscape", "NCC landscape vs NCC score agreement (window-normalised by design)"]
    funcs = need_funcs(model, rep, ANCHORS)
    formula_clause(model, rep, funcs)
    chain_clause(model, rep, funcs)
    mask_degree_clause(model, rep, funcs)
    geometry_clause(model, rep, funcs)
    padding_clause(model, rep, funcs)
    from .generic import interpolation_obligations, functions_in, axis_convention_obligations
    interpolation_obligations(model, rep, functions_in(model, ["acryo/backend/_upsample.py", "acryo/alignment/_base.py", "acryo/alignment/_concrete.py"]), "3 geometry")
    rep.floor("INTERP", 3, "(landscape refinement and template-bank interpolation sites)")
    axis_convention_obligations(model, rep, ["acryo/backend/_upsample.py", "acryo/backend/_zncc.py", "acryo/backend/_fsc.py"], "3 geometry", floor=2)
    from .C08 import wedge_call_obligation
    wedge_call_obligation(model, rep, "2 chain")
    from .generic import inplace_argument_obligations
    inplace_argument_obligations(model, rep, functions_in(model, ["acryo/alignment/_base.py", "acryo/alignment/_concrete.py", "acryo/backend/_zncc.py",
                                                                   "acryo/backend/_pcc.py", "acryo/backend/_fsc.py", "acryo/backend/_upsample.py"]), "2 chain")
    rep.floor("PUREARG", 20, "(functions of the alignment models and backends that take arrays)")
