def frames_clause(model, rep, funcs):
    pass
