"""C01 clause 2 - frames of the pose write-back, of AlignmentResult.affine_matrix and of the template bank."""
from __future__ import annotations

import ast

from ..absint import TOP, FuncRef, Interp, Obj, ListOf, Tup
from ..domains.frames import AffT, FramesDomain, Rot, Vec
from ..repo import norm_src
from .common import SinkTable

LB = "acryo/loader/_base.py::LoaderBase."
WRITEBACK = [LB + "_post_align", LB + "_post_align_multi_templates"]


def frames_clause(model, rep, funcs):
    sinks = SinkTable()
    for a in WRITEBACK:
        f = funcs.get(a)
        if f is None:
            continue
        dom = FramesDomain(model)
        it = Interp(model, dom, depth=5)

        def on_call(interp, fn, node, callee, args, kwargs, env, _a=a):
            if fn.anchor != _a or not isinstance(callee, FuncRef):
                return
            if {g.name for g in callee.funcs} & {"replace"} and "molecules" in kwargs:
                m = kwargs["molecules"]
                if not isinstance(m, Obj):
                    sinks.observe(fn, node, "pose", None, "", "aligned molecules: pose update typed")
                    return
                rot = m.fields.get("_rotator", TOP)
                pos = m.fields.get("_pos", TOP)
                want = Rot("Mp", "W")
                ok = None if rot is TOP else (rot == want)
                sinks.observe(fn, node, "rotator", ok, f"new orientation has type {rot!r}, required {want!r} "
                              "(molecule orientation composed on the right with the alignment rotation)",
                              "orientation update is an internal (right) composition R_mol * R_align")
                if isinstance(pos, Vec):
                    okp = pos.kind == "pos" and pos.frame == "W" and pos.moved == frozenset({"shift@M->W"})
                    sinks.observe(fn, node, "position", okp, f"new position is {pos!r}; required: world position moved once by the "
                                  "alignment shift mapped M->W by the input molecule's own rotation, not passed through the alignment rotation",
                                  "shift is applied along the input molecule's own axes")
                else:
                    sinks.observe(fn, node, "position", None if pos is TOP else False, f"new position is {pos!r}",
                                  "shift is applied along the input molecule's own axes")

        it.on_call.append(on_call)
        it.run(f)
        for kind, fn, node, msg in dom.events:
            rep.instance("F", fn.loc(node))
            rep.ob("F", fn.anchor, "frames agree at rotation application / composition / vector addition (evaluated from " + f.short + ")",
                   False, msg, node=node, fn=fn, clause="2 frames")
    sinks.emit(rep, "F", clause="2 frames")
    transform_semantics_clause(model, rep, funcs)


AB = "acryo/alignment/_base.py::"


def transform_semantics_clause(model, rep, funcs):
    """What an AlignmentResult denotes, and that the template bank / fit use the same convention."""
    sinks = SinkTable()
    # (a) AlignmentResult.affine_matrix = T(shift[M]) @ [T(c) R T(-c)],  R: Mp -> M
    f = funcs.get(AB + "AlignmentResult.affine_matrix")
    if f is not None:
        dom = FramesDomain(model)
        it = Interp(model, dom, depth=3)
        out = it.run(f)
        want = Rot("Mp", "M")
        ok = None
        det = f"returned {out!r}"
        if isinstance(out, AffT):
            ok = out.rot == want and out.pre_shift == ("M",)
            det = f"returned {out!r} with shift applied on the input side in frame(s) {out.pre_shift}; required Aff[Mp->M] with the shift in M"
        rep.instance("F", f.loc())
        rep.ob("F", f.anchor, "affine_matrix denotes T(shift in M) @ [T(c) R T(-c)] with R: aligned frame -> sub-volume frame",
               ok, det, node=f.node, fn=f, clause="2 frames", stmt="def affine_matrix")
        for kind, fn, node, msg in dom.events:
            rep.ob("F", fn.anchor, "frames agree in AlignmentResult.affine_matrix", False, msg, node=node, fn=fn, clause="2 frames")

    # (b) template bank: rotation handed to compose_matrices renders the template in the sub-volume frame
    f = funcs.get(AB + "RotationImplemented._get_template_and_mask_input")
    if f is not None:
        dom = FramesDomain(model)
        it = Interp(model, dom, depth=2)

        def on_call(interp, fn, node, callee, args, kwargs, env):
            if fn is f and isinstance(callee, FuncRef) and {g.name for g in callee.funcs} == {"compose_matrices"}:
                r = args[1] if len(args) > 1 else kwargs.get("rotators")
                e = interp.elem_of(r, node) if r is not None else TOP
                want = Rot("M", "Mp")
                ok = None if not isinstance(e, Rot) else e == want
                sinks.observe(fn, node, "bank-rotation", ok, f"rotation handed to compose_matrices is {e!r}; the bank entry (output, sub-volume "
                              f"axes M) must sample the template (input, Mp), i.e. {want!r} = inverse of the searched rotation",
                              "template bank is rendered with the inverse of each searched rotation")

        it.on_call.append(on_call)
        it.run(f)

    # (c) fit(): the matrix given to affine_transform is the result's affine matrix
    for a in (AB + "BaseAlignmentModel.fit", AB + "RotationImplemented.fit"):
        f = funcs.get(a)
        if f is None:
            continue
        dom = FramesDomain(model)
        it = Interp(model, dom, depth=3)

        def on_call2(interp, fn, node, callee, args, kwargs, env, _f=f):
            if fn is not _f:
                return
            nm = node.func.attr if isinstance(node.func, ast.Attribute) else ""
            if nm == "affine_transform":
                m = args[1] if len(args) > 1 else kwargs.get("matrix", TOP)
                want = Rot("Mp", "M")
                ok = None if not isinstance(m, AffT) else (m.rot == want and m.pre_shift == ("M",))
                sinks.observe(fn, node, "fit-matrix", ok, f"matrix given to affine_transform is {m!r} (shift frames {getattr(m, 'pre_shift', None)}); "
                              f"required Aff[Mp->M] built by AlignmentResult.affine_matrix", "fit() transforms the image with the result's own affine matrix")

        it.on_call.append(on_call2)
        it.run(f)
    sinks.emit(rep, "F", clause="2 frames")
