"""C11 - molecule poses obey rigid-motion algebra in z,y,x order (DESIGN 5, C11)."""
from __future__ import annotations

import ast

from ..absint import TOP, Const, FuncRef, Interp, Obj, Tup, ClassRef
from ..cfg import CFG
from ..domains.frames import AXIS_NAMES, FramesDomain, Rot, RotVecV, Vec
from ..repo import calls_in, dotted, norm_src, walk_no_nested
from ..match import Matcher, src as msrc
from .common import kwarg, need_funcs

MC = "acryo/molecules/core.py::"
MR = "acryo/molecules/_rotation.py::"
ANCHORS = [MC + "Molecules." + n for n in ("x", "y", "z", "rotate_by", "rotate_by_rotvec", "rotate_by_rotvec_internal", "translate", "translate_internal",
                                           "affine_matrix", "local_coordinates", "euler_angle", "from_euler", "from_axes", "__init__", "rotate_by_quaternion",
                                           "rotate_by_matrix", "rotate_by_euler_angle")] + \
          [MC + "cross", "acryo/simulator.py::cross", MR + "axes_to_rotator", MR + "_extract_orthogonal",
           MR + "from_euler_xyz_coords", MR + "translate_euler"]


def mol_self(dom):
    o = dom.molecules_obj()
    o.tag = "self"
    return o


# --------------------------------------------------------------------------- clause 1: axis table
def axis_table_clause(model, rep, funcs):
    for name, k in (("x", 2), ("y", 1), ("z", 0)):
        f = funcs.get(MC + "Molecules." + name)
        if f is None:
            continue
        dom = FramesDomain(model)
        it = Interp(model, dom, depth=1)
        out = it.run(f, self_val=mol_self(dom))
        rep.instance("F.axes", f.loc())
        ok = isinstance(out, Vec) and out.kind == "axis" and out.axis == k and out.sign == 1 and out.frame == "W" and out.of == "M"
        rep.ob("F", f.anchor, f"Molecules.{name} is the image of the unit vector with the 1 in column {k} (z,y,x order) under the molecule's own rotation",
               ok if isinstance(out, Vec) else None, f"returns {out!r}", node=f.node, fn=f, clause="1 axis table", stmt=f"def {name}")
    # internal rotation pairs component 0,1,2 with z,y,x and builds a world rotation vector
    f = funcs.get(MC + "Molecules.rotate_by_rotvec_internal")
    if f is not None:
        dom = FramesDomain(model, param_seeds={(f.anchor, "vector"): RotVecV(Rot("Mp", "M"), "M")})
        it = Interp(model, dom, depth=5)
        seen = []

        def on_call(interp, fn, node, callee, args, kwargs, env):
            if fn is f and isinstance(callee, FuncRef) and callee.funcs[0].name == "rotate_by_rotvec":
                seen.append(args[0] if args else TOP)

        it.on_call.append(on_call)
        out = it.run(f, self_val=mol_self(dom))
        rep.instance("F.axes", f.loc())
        ok = bool(seen) and isinstance(seen[0], RotVecV) and seen[0].frame == "W" and seen[0].rot == Rot("Mp", "M")
        rep.ob("F", f.anchor, "the internal rotation vector's components 0,1,2 are combined with the molecule's z,y,x axes into a world rotation vector",
               ok if seen and seen[0] is not TOP else (False if dom.events else None), f"rotate_by_rotvec receives {seen[0] if seen else None!r}", node=f.node, fn=f,
               clause="1 axis table", stmt="def rotate_by_rotvec_internal")
        rot = out.fields.get("_rotator") if isinstance(out, Obj) else None
        rep.ob("F", f.anchor, "an internal rotation composes on the right: new rotator = R_mol * R_internal", (rot == Rot("Mp", "W")) if isinstance(rot, Rot) else None,
               f"new rotator {rot!r}", node=f.node, fn=f, clause="2 composition", stmt="def rotate_by_rotvec_internal compose")
        for kind, fn, node, msg in dom.events:
            rep.ob("F", fn.anchor, "frames and axis/component pairing agree in the internal rotation", False, msg, node=node, fn=fn, clause="1 axis table")
    # local_coordinates: ind_z, ind_y, ind_x are paired with vec_z, vec_y, vec_x
    f = funcs.get(MC + "Molecules.local_coordinates")
    if f is not None:
        rep.instance("F.axes", f.loc())
        M = Matcher(f)
        b: dict = {}
        # `cross(a, b)` of this module is `-np.cross(a, b, axis=...)` (rule F: def cross): the helper call and its inlined body are the same construct
        ok, why = False, ""
        for zpat in ("$vz = cross($vx, $vy)", "$vz = -np.cross($vx, $vy)", "$vz = -np.cross($vx, $vy, axis=None)"):
            b.clear()
            ok, why = M.all_of(["$ax = self.x.astype($$t)", "$ay = self.y.astype($$t)", "$vx = $ax[$i]", "$vy = $ay[$i]", zpat,
                                "$iz, $iy, $ix = (np.arange($s, ...) - $c for $s, $c in zip(shape, $center))",
                                "$xa = $vx[:, np.newaxis] * $ix", "$ya = $vy[:, np.newaxis] * $iy", "$za = $vz[:, np.newaxis] * $iz",
                                # placement of the three axes in the broadcast: z varies along array axis 1, y along 2, x along 3
                                "$za[:, :, np.newaxis, np.newaxis] + $ya[:, np.newaxis, :, np.newaxis] + $xa[:, np.newaxis, np.newaxis, :]"], b)
            if ok:
                break
        okc = False
        if ok:
            okc = M.has("$center = [$s2 / 2 - 0.5 for $s2 in shape]", b) or M.has("$center = [($s2 - 1) / 2 for $s2 in shape]", b)
            why = "" if okc else "the grid is not centred at (shape - 1) / 2"
        rep.ob("F", f.anchor, "local sampling grid = pos/scale + sum_k axis_k * (index_k - (shape_k-1)/2) with indices paired z,y,x and broadcast on array axes 1,2,3",
               bool(ok and okc), why, node=f.node, fn=f, clause="1 axis table", stmt="def local_coordinates")
        # the grid itself has unit (one voxel) steps: only the molecule position is converted nm -> pixel, and the grid is not rescaled afterwards
        b2: dict = {}
        okp = M.has("$coords += (self.pos[$i] / scale)[:, np.newaxis, np.newaxis, np.newaxis]", b2) or \
            M.has("$coords = $$g + (self.pos[$i] / scale)[:, np.newaxis, np.newaxis, np.newaxis]", b2)
        whyp = "" if okp else "the position is not added as pos / scale (pixels) to the unit-step grid"
        if okp:
            cv = b2.get("coords")
            cname = cv.id if isinstance(cv, ast.Name) else (cv if isinstance(cv, str) else None)
            muts = [n for n in ast.walk(f.node) if isinstance(n, ast.AugAssign) and isinstance(n.target, ast.Name) and n.target.id == cname]
            extra = [n for n in muts if not isinstance(n.op, ast.Add)]
            if extra or len(muts) > 1:
                okp = False
                whyp = f"`{norm_src((extra or muts[1:])[0])}` rescales / shifts the whole grid after the position was added: grid steps are no longer one voxel"
        rep.ob("U", f.anchor, "local grid: unit voxel steps along the molecule axes, offset by pos / scale (only the position is converted from nm to pixels)", okp, whyp,
               node=f.node, fn=f, clause="1 axis table", stmt="def local_coordinates units")
    # from_axes: the missing axis is the cyclic cross product of the two given ones (x cross y = z, y cross z = x, z cross x = y), then (z, y) go to axes_to_rotator
    f = funcs.get(MC + "Molecules.from_axes")
    if f is not None:
        rep.instance("F.axes", f.loc())
        ok, why = _from_axes_semantics(model, f)
        rep.ob("F", f.anchor, "from_axes completes the given pair to a right-handed (z, y, x) frame: the missing axis is the cyclic cross product of the other two",
               ok, why, node=f.node, fn=f, clause="1 axis table", stmt="def from_axes")
    for a in (MC + "cross", "acryo/simulator.py::cross"):
        f = funcs.get(a)
        if f is None:
            continue
        rets = [r for r in walk_no_nested(f.node) if isinstance(r, ast.Return) and r.value is not None]
        rep.instance("F.axes", f.loc())
        ok = len(rets) == 1 and isinstance(rets[0].value, ast.UnaryOp) and isinstance(rets[0].value.op, ast.USub) and \
            isinstance(rets[0].value.operand, ast.Call) and dotted(rets[0].value.operand.func) == "np.cross" and \
            [norm_src(x) for x in rets[0].value.operand.args[:2]] == [p for p in f.param_names()[:2]]
        rep.ob("F", a, "cross product in z,y,x storage order is -np.cross(x, y) (right-handed: x cross y = z)", ok, norm_src(rets[0].value) if rets else "",
               node=f.node, fn=f, clause="1 axis table", stmt=f"def cross ({f.module.relpath})")


def _from_axes_semantics(model, f):
    """Evaluate from_axes on symbolic terms once per missing axis: the (z, y) pair handed to axes_to_rotator must be (z, y) as given, or the cyclic cross
    product of the two given axes (x cross y = z, z cross x = y), and the object is built from pos and that rotator - however the cases are spelled."""
    from ..absint import Const, Interp
    from ..domains.terms import T, TermDomain, callee_name, strip

    def core(t):
        # value-preserving shape wrappers
        while True:
            t = strip(t, ext_wrappers=("asarray", "atleast_2d", "atleast_1d", "array"))
            return t

    def is_param(t, nm):
        t = core(t)
        return isinstance(t, T) and t.op == "param" and t.args[0] == nm

    def is_cross(t, a, b):
        t = core(t)
        # the module's `cross(a, b)` is `-np.cross(a, b, axis=...)` (rule F: def cross): its inlined body is the same value
        if isinstance(t, T) and t.op == "un" and t.args[0] == "USub" and isinstance(t.args[1], T) and t.args[1].op == "call" and \
                callee_name(t.args[1]) == "cross" and str(t.args[1].args[0]).startswith("numpy") and len(t.args[1].args[1]) >= 2:
            return is_param(t.args[1].args[1][0], a) and is_param(t.args[1].args[1][1], b)
        if not (isinstance(t, T) and t.op == "call"):
            return False
        if str(t.args[0]).startswith("numpy"):
            return False  # np.cross without the sign flip is the left-handed product in z, y, x storage
        c = t.args[0]
        nm = callee_name(t) or (str(c.args[0]).rsplit(".", 1)[-1] if isinstance(c, T) and c.op in ("opaque", "ext") else None)
        if nm != "cross" or len(t.args[1]) < 2:
            return False
        return is_param(t.args[1][0], a) and is_param(t.args[1][1], b)

    want = {"z": (lambda t: is_cross(t, "x", "y"), lambda t: is_param(t, "y")),
            "y": (lambda t: is_param(t, "z"), lambda t: is_cross(t, "z", "x")),
            "x": (lambda t: is_param(t, "z"), lambda t: is_param(t, "y"))}
    for missing, (wz, wy) in want.items():
        dom = TermDomain(summarise=("cross", "axes_to_rotator"))
        it = Interp(model, dom, depth=0)
        rot_calls, built = [], []

        def on_call(interp, fn, node, callee, args, kwargs, env, rot_calls=rot_calls, built=built):
            if fn is not f:
                return
            nm = (dotted(node.func) or "").rsplit(".", 1)[-1]
            if nm == "axes_to_rotator":
                rot_calls.append((node, list(args), dict(kwargs)))
            elif isinstance(node.func, ast.Name) and node.func.id == f.param_names()[0]:
                built.append((node, list(args), dict(kwargs)))

        it.on_call.append(on_call)
        args = {p: T("param", (p,)) for p in f.param_names()[1:]}
        args[missing] = Const(None)
        try:
            it.run(f, args=args)
        except Exception as e:  # pragma: no cover
            return None, f"from_axes could not be evaluated ({e!r})"
        if not rot_calls:
            return False, f"{missing} missing: the frame is not handed to axes_to_rotator"
        for node, a, kw in rot_calls:
            zt = a[0] if len(a) > 0 else kw.get("z")
            yt = a[1] if len(a) > 1 else kw.get("y")
            if zt is None or yt is None or not wz(zt) or not wy(yt):
                need = {"z": "z = cross(x, y)", "y": "y = cross(z, x)", "x": "(z, y) as given"}[missing]
                return False, f"`{norm_src(node)}` with {missing} missing: axes_to_rotator receives ({zt!r}, {yt!r}); a right-handed frame needs {need}"
        if not built:
            return False, "no Molecules object is built from the rotator"
        for node, a, kw in built:
            r = a[1] if len(a) > 1 else kw.get("rot")
            r = core(r) if r is not None else None
            if not (isinstance(r, T) and r.op == "call" and callee_name(r) in ("axes_to_rotator",) or
                    (isinstance(r, T) and r.op == "call" and "axes_to_rotator" in repr(r.args[0]))):
                return False, f"`{norm_src(node)}`: the object is not built from the axes_to_rotator result"
            p0 = a[0] if a else kw.get("pos")
            if not is_param(p0, "pos"):
                return False, f"`{norm_src(node)}`: the object is not built from pos"
    return True, ""


def src_differs(b) -> bool:
    """the two translation matrices are different variables"""
    return b["t0"][0] != b["t1"][0]


# --------------------------------------------------------------------------- clause 2: composition
def composition_clause(model, rep, funcs):
    f = funcs.get(MC + "Molecules.rotate_by")
    if f is not None:
        dom = FramesDomain(model, param_seeds={(f.anchor, "rotator"): Rot("W", "W"), (f.anchor, "copy"): Const(True)})
        it = Interp(model, dom, depth=2)
        s = mol_self(dom)
        out = it.run(f, self_val=s)
        rep.instance("F.compose", f.loc())
        rot = out.fields.get("_rotator") if isinstance(out, Obj) else None
        pos = out.fields.get("_pos") if isinstance(out, Obj) else None
        rep.ob("F", f.anchor, "a world rotation composes on the left (rotator * self._rotator) and yields molecule->world again",
               (rot == Rot("M", "W")) if isinstance(rot, Rot) else (False if dom.events else None), f"new rotator {rot!r}", node=f.node, fn=f,
               clause="2 composition", stmt="def rotate_by compose")
        rep.ob("F", f.anchor, "rotate_by leaves positions untouched", (pos == Vec("W", kind="pos")) if pos is not None else None, f"new position {pos!r}",
               node=f.node, fn=f, clause="2 composition", stmt="def rotate_by positions")
        for kind, fn, node, msg in dom.events:
            rep.ob("F", fn.anchor, "frames agree in rotate_by", False, msg, node=node, fn=fn, clause="2 composition")
    for wrapper in ("rotate_by_rotvec", "rotate_by_quaternion", "rotate_by_matrix", "rotate_by_euler_angle"):
        f = funcs.get(MC + "Molecules." + wrapper)
        if f is None:
            continue
        rets = [r for r in walk_no_nested(f.node) if isinstance(r, ast.Return) and r.value is not None]
        ok = bool(rets) and all(isinstance(r.value, ast.Call) and norm_src(r.value.func) == "self.rotate_by" and norm_src(kwarg(r.value, "copy") or ast.Constant(0)) == "copy"
                                for r in rets)
        rep.instance("F.compose", f.loc())
        rep.ob("SLOT", f.anchor, f"{wrapper} builds a Rotation and delegates to rotate_by(rotator, copy=copy)", ok, "", node=f.node, fn=f,
               clause="2 composition", stmt=f"def {wrapper}")
    f = funcs.get(MC + "Molecules.translate_internal")
    if f is not None:
        dom = FramesDomain(model, param_seeds={(f.anchor, "shifts"): Vec("M", tag="shift"), (f.anchor, "copy"): Const(True)})
        it = Interp(model, dom, depth=4)
        out = it.run(f, self_val=mol_self(dom))
        pos = out.fields.get("_pos") if isinstance(out, Obj) else None
        rot = out.fields.get("_rotator") if isinstance(out, Obj) else None
        rep.instance("F.compose", f.loc())
        ok = isinstance(pos, Vec) and pos.kind == "pos" and pos.moved == frozenset({"shift@M->W"})
        rep.ob("F", f.anchor, "translate_internal maps the shift from the molecule frame to the world frame with the molecule's own rotation, then translates",
               ok if isinstance(pos, Vec) else (False if dom.events else None), f"new position {pos!r}", node=f.node, fn=f, clause="2 composition",
               stmt="def translate_internal")
        rep.ob("F", f.anchor, "translation leaves the orientation untouched", (rot == Rot("M", "W")) if isinstance(rot, Rot) else None, f"{rot!r}", node=f.node,
               fn=f, clause="2 composition", stmt="def translate_internal rot")
        for kind, fn, node, msg in dom.events:
            rep.ob("F", fn.anchor, "frames agree in translate_internal", False, msg, node=node, fn=fn, clause="2 composition")
    f = funcs.get(MC + "Molecules.translate")
    if f is not None:
        dom = FramesDomain(model, param_seeds={(f.anchor, "shifts"): Vec("W", tag="wshift"), (f.anchor, "copy"): Const(True)})
        it = Interp(model, dom, depth=2)
        out = it.run(f, self_val=mol_self(dom))
        pos = out.fields.get("_pos") if isinstance(out, Obj) else None
        rep.instance("F.compose", f.loc())
        ok = isinstance(pos, Vec) and pos.kind == "pos" and pos.moved == frozenset({"wshift"})
        rep.ob("F", f.anchor, "translate adds the world-frame shift to the positions", ok if isinstance(pos, Vec) else None, f"{pos!r}", node=f.node, fn=f,
               clause="2 composition", stmt="def translate")
    f = funcs.get(MC + "Molecules.affine_matrix")
    if f is not None:
        rep.instance("F.compose", f.loc())
        M = Matcher(f)
        b = {}
        ok, why = False, ""
        for eyes in ("np.stack([np.eye(4, ...)] * $n, axis=0)", "np.tile(np.eye(4, ...), ($n, 1, 1))"):
            b = {}
            ok, why = M.all_of(["if inverse:\n    $mat = self._rotator.inv().as_matrix()\nelse:\n    $mat = self.matrix()",
                                "$rm[:, :3, :3] = $mat", "$rm[:, 3, 3] = 1.0", "$rm = np.zeros(($n, 4, 4), ...)",
                                f"$t0 = {eyes}", f"$t1 = {eyes}",
                                "$t0[:, :3, 3] = dst", "$t1[:, :3, 3] = -src", "return np.einsum('nij,njk,nkl->nil', $t0, $rm, $t1)"], b)
            if ok:
                break
        ok2 = ok and src_differs(b)
        rep.ob("F", f.anchor, "affine_matrix = T(dst) R T(-src) per molecule, with R inverted exactly when inverse=True", bool(ok and ok2), why, node=f.node, fn=f,
               clause="2 composition", stmt="def affine_matrix")


# --------------------------------------------------------------------------- clause 3: Euler convention tables
def euler_clause(model, rep, funcs):
    f = funcs.get(MR + "translate_euler")
    if f is not None:
        rep.instance("TABLE.euler", f.loc())
        # decided by constant evaluation of the function body on representative sequences (sa/domains/consts.py folds str.maketrans / translate / slicing on
        # constants): however the table is spelled (dict, two strings, module constant) and in whichever order swap and reversal are applied
        from ..domains.consts import ConstDomain
        swap = str.maketrans("xzXZ", "zxZX")
        ok, det = True, ""
        for s_ in ("xyz", "zyx", "ZXZ", "XYZ", "zxy", "Zx", "y"):
            cd = ConstDomain(param_values={f.param_names()[0]: s_})
            out = Interp(model, cd, depth=1).run(f)
            want = s_.translate(swap)[::-1]
            if not (isinstance(out, Const) and out.value == want):
                ok = False if isinstance(out, Const) else None
                det = f"translate_euler({s_!r}) evaluates to {out!r}, required {want!r} (x<->z, X<->Z and reversed order)"
                break
        rep.ob("TABLE", f.anchor, "Euler sequences are translated between zyx and xyz conventions by the involution x<->z, X<->Z with reversal", ok, det,
               node=f.node, fn=f, clause="3 euler", stmt="def translate_euler")
    f = funcs.get(MR + "from_euler_xyz_coords")
    g = funcs.get(MC + "Molecules.euler_angle")
    if f is not None and g is not None:
        rep.instance("TABLE.euler", f.loc())
        MRd, MWr = Matcher(f), Matcher(g)
        # reader: Rotation.from_euler(translated sequence, angle columns reversed, degrees); writer: as_euler(translated sequence, degrees)[..., ::-1]
        ok1 = any(MRd.has(p_) for p_ in ("return Rotation.from_euler(translate_euler(seq), $$a[..., ::-1], degrees)",
                                         "return Rotation.from_euler(translate_euler(seq), $$a[..., ::-1], degrees=degrees)",
                                         "Rotation.from_euler($s, $$a[..., ::-1], ...)")) and MRd.has("translate_euler(seq)") and \
            (MRd.has("Rotation.from_euler($$s, $$a, degrees)") or MRd.has("Rotation.from_euler($$s, $$a, degrees=degrees)"))
        ok2 = MWr.has("translate_euler(seq)") and any(MWr.has(p_) for p_ in ("return self._rotator.as_euler(translate_euler(seq), degrees=degrees)[..., ::-1]",
                                                                              "self._rotator.as_euler($s, degrees=degrees)[..., ::-1]"))
        rep.ob("TABLE", f.anchor, "reader (from_euler_xyz_coords) and writer (euler_angle) both translate the sequence and reverse the angle columns",
               ok1 and ok2, f"reader ok: {ok1}, writer ok: {ok2}", node=f.node, fn=f, clause="3 euler", stmt="euler reader/writer")
    f = funcs.get(MC + "Molecules.from_euler")
    if f is not None:
        s = norm_src(f.node)
        rep.instance("TABLE.euler", f.loc())
        ok = Matcher(f).all_of(["if order == 'xyz':\n    $r = from_euler_xyz_coords(angles, seq, degrees)\nelif order == 'zyx':\n    $r = Rotation.from_euler(seq, angles, degrees)\nelse:\n    ...",
                                "return cls(pos, $r, features)"])[0]
        rep.ob("TABLE", f.anchor, "from_euler dispatches 'xyz' to the translated reader and 'zyx' to scipy's convention directly", ok, "", node=f.node, fn=f,
               clause="3 euler", stmt="def from_euler")


# --------------------------------------------------------------------------- clause 4: copy=True never alters the original
def copy_clause(model, rep, funcs):
    for name in ("translate", "rotate_by"):
        f = funcs.get(MC + "Molecules." + name)
        if f is None:
            continue
        cfg = CFG(f.node)
        stores = [n for n in cfg.nodes if n.kind == "stmt" and isinstance(n.node, (ast.Assign, ast.AugAssign)) and
                  any(isinstance(t, ast.Attribute) and norm_src(t.value) == "self" for t in (n.node.targets if isinstance(n.node, ast.Assign) else [n.node.target]))]
        rep.instance("S18.copy", f.loc())
        if not stores:
            rep.ob("S18", f.anchor, "in-place branch present", True, "no store to self at all", node=f.node, fn=f, clause="4 copy", stmt=f"def {name} stores")
        for st in stores:
            # every path to the store must take the False edge of a test on `copy`
            def edge_ok(a, b, lab):
                if a.kind == "test" and norm_src(a.node.test) == "copy" and lab == "T":
                    return False
                if a.kind == "test" and norm_src(a.node.test) == "not copy" and lab == "F":
                    return False
                return True
            reach_true = st in cfg.reachable_from(cfg.entry, edge_ok=lambda a, b, lab: not (a.kind == "test" and norm_src(a.node.test) in ("copy",) and lab == "F")
                                                  and not (a.kind == "test" and norm_src(a.node.test) == "not copy" and lab == "T"))
            rep.ob("S18", f.anchor, "with copy=True no field of self is written (the store is only reachable through the copy=False branch)", not reach_true,
                   f"`{norm_src(st.node)}` is reachable when copy is true", node=st.node, fn=f, clause="4 copy")
        # the copy branch builds a new object
        ctor = [c for c in calls_in(f) if norm_src(c.func) == "self.__class__"]
        rep.ob("S18", f.anchor, "the copy=True branch returns a newly constructed Molecules", bool(ctor), "", node=f.node, fn=f, clause="4 copy",
               stmt=f"def {name} ctor")
    f = funcs.get(MC + "Molecules.__init__")
    if f is not None:
        s = norm_src(f.node)
        rep.instance("S18.copy", f.loc())
        ok = "np.atleast_2d(pos).astype(np.float32)" in s
        rep.ob("S18", f.anchor, "the constructor copies the positions (astype) so a copy does not share its position buffer", ok, "", node=f.node, fn=f,
               clause="4 copy", stmt="def __init__ astype")


def copy_forwarding_clause(model, rep):
    """A pose-changing method that takes `copy` and delegates to another method taking `copy` passes it on: otherwise `m.translate_internal(s, copy=False)` leaves m
    where it was and returns a new object - an in-place sequence of steps silently stops composing."""
    from .generic import forwarded_parameter_obligations
    takers = {}
    for g in model.all_functions:
        if g.cls is not None and g.cls.name == "Molecules" and "copy" in g.param_names() and not g.is_overload:
            a_ = g.node.args
            ps = [x.arg for x in list(a_.posonlyargs) + list(a_.args)][1:]
            takers.setdefault(g.name, set())
            if "copy" in ps:
                takers[g.name].add(ps.index("copy"))
    for fn in model.all_functions:
        if fn.cls is not None and fn.cls.name == "Molecules" and "copy" in fn.param_names() and not fn.is_overload:
            forwarded_parameter_obligations(model, rep, fn, "copy", takers, "4 copy")
    rep.floor("FWDP", 4, "(Molecules methods that delegate with copy=)")


def row_axis_clause(model, rep):
    """Vectors are stored one per row ((N, 3) tables).  A per-molecule reduction or product in the rotation helpers therefore names the component axis (axis=1 / -1):
    without it `np.sum` adds over all molecules of the batch and every orientation depends on the other rows."""
    n = 0
    for fn in model.all_functions:
        if fn.module.relpath not in ("acryo/molecules/_rotation.py",) and not (fn.module.relpath == "acryo/molecules/core.py" and fn.cls is None):
            continue
        for c in ast.walk(fn.node):
            if not isinstance(c, ast.Call):
                continue
            last = (dotted(c.func) or "").rsplit(".", 1)[-1]
            if last not in ("sum", "cross", "norm", "mean", "prod", "nansum"):
                continue
            if not (dotted(c.func) or "").startswith(("np.", "numpy.")):
                continue
            n += 1
            rep.instance("ROWAXIS", fn.loc(c))
            ax = kwarg(c, "axis")
            if ax is None and last in ("sum", "mean", "prod", "nansum", "norm") and len(c.args) >= 2:
                ax = c.args[1]
            ok = ax is not None and (isinstance(ax, ast.Name) or norm_src(ax) in ("1", "-1"))
            rep.ob("ROWAXIS", fn.anchor, "a per-molecule reduction / cross product over an (N, 3) table names the component axis (axis=1 or -1)", ok,
                   f"`{norm_src(c)[:70]}` " + ("has no axis: it runs over the whole batch" if ax is None else f"uses axis={norm_src(ax)}"), node=c, fn=fn,
                   clause="1 axis table")
    rep.floor("ROWAXIS", 4, "(np.sum / np.cross in the rotation helpers)")


# --------------------------------------------------------------------------- clause 5: degenerate axes selected per row (S16)
def degenerate_clause(model, rep, funcs):
    g = funcs.get(MR + "axes_to_rotator")
    try:
        f = model.func(MR + "_get_align_rotator")
    except Exception:
        f = None
    uses_align = g is not None and any((dotted(c.func) or "").endswith("_get_align_rotator") for c in calls_in(g))
    if f is not None and uses_align:
        for node in walk_no_nested(f.node):
            if isinstance(node, ast.If):
                t = node.test
                calls = [c for c in ast.walk(t) if isinstance(c, ast.Call) and dotted(c.func) in ("np.all", "np.any", "numpy.all")]
                for c in calls:
                    has_axis = kwarg(c, "axis") is not None
                    rowwise = "src" in norm_src(c) and "dst" in norm_src(c)
                    parallel = any(isinstance(b, ast.BinOp) and isinstance(b.op, ast.Sub) and {norm_src(b.left), norm_src(b.right)} == {"src", "dst"} for b in ast.walk(c))
                    if rowwise and parallel:
                        guard = "norm[norm == 0] = np.inf" in norm_src(f.node)
                        rep.instance("S16", f.loc(node))
                        rep.ob("S16", f.anchor, "parallel rows get the identity also on the general path (zero cross product with guarded norm)", guard,
                               "" if guard else "the zero-norm guard of the general formula is missing", node=node, fn=f, clause="5 degenerate axes",
                               stmt=f"if {norm_src(t)}")
                        continue
                    if rowwise:
                        rep.instance("S16", f.loc(node))
                        rep.ob("S16", f.anchor, "a per-row degenerate case (anti-parallel axis pair) is selected per row, not by a whole-batch np.all(...)",
                               False if not has_axis else None,
                               f"`if {norm_src(t)}` chooses one construction for the whole batch: in a batch mixing generic and degenerate rows the degenerate rows "
                               "go through the cross-product formula (zero rotation instead of 180 degrees)", node=node, fn=f, clause="5 degenerate axes",
                               stmt=f"if {norm_src(t)}")
    if g is None:
        return
    rep.instance("S16", g.loc())
    s = norm_src(g.node)
    if uses_align:
        ok = "return rot_y * rot_z" in s and "rot_y.apply(z0, inverse=True)" in s
        rep.ob("SLOT", g.anchor, "axes_to_rotator composes (align y) * (align z in the y-aligned frame)", ok, "", node=g.node, fn=g, clause="5 degenerate axes",
               stmt="def axes_to_rotator compose")
        return
    # direct construction: columns of the matrix are the destinations of the z, y, x unit vectors; no row-dependent special case at all
    fm = [c for c in calls_in(g) if (dotted(c.func) or "").endswith("from_matrix")]
    ok = None
    det = "no Rotation.from_matrix"
    if fm:
        a = fm[0].args[0] if fm[0].args else None
        MG = Matcher(g)
        bb: dict = {}
        ok, det = False, ""
        for axis_ in ("2", "-1"):
            for zform in ("$z0 = _normalize($z0)", "$z0 = _normalize(_extract_orthogonal($y0, $$v))"):
                bb = {}
                ok, det = MG.all_of(["$y0 = _normalize(np.atleast_2d(y))", zform, f"return Rotation.from_matrix(np.stack([$z0, $y0, $x0], axis={axis_}))"], bb)
                if ok:
                    break
            if ok:
                break
        okx = bool(ok) and (MG.has("$x0 = -np.cross($y0, $z0, axis=1)", bb) or MG.has("$x0 = np.cross($z0, $y0, axis=1)", bb))
        branches = [n for n in walk_no_nested(g.node) if isinstance(n, ast.If) and ("np.all" in norm_src(n.test) or "np.any" in norm_src(n.test))]
        orth = bool(ok) and (MG.count("$z0 = _extract_orthogonal($y0, $$v)", bb) >= 1 or MG.count("$z0 = _normalize(_extract_orthogonal($y0, $$v))", bb) >= 1)
        ok = bool(ok and okx and not branches and orth)
        det = (det + "; " if det else "") + f"matrix = {norm_src(a)[:80] if a is not None else None}; x = -cross(y, z): {okx}; batch-level branches: {len(branches)}; z orthogonalised against y: {orth}"
    rep.ob("S16", g.anchor, "the rotation is built row-wise from the matrix whose columns are the target z, y, x axes (x = -cross(y, z) in z,y,x order); "
           "no whole-batch special case", ok, det, node=g.node, fn=g, clause="5 degenerate axes", stmt="def axes_to_rotator matrix")


def check(model, rep, tier):
    rep.decided += ["C11.1 axis table (x,y,z <-> columns 2,1,0; internal rot-vec pairing; local grid pairing; cross = -np.cross)",
                    "C11.2 left/right composition and frames of rotate_by / translate_internal / translate / affine_matrix",
                    "C11.3 Euler convention tables agree between reader and writer", "C11.4 copy=True paths write no field of self",
                    "C11.5 degenerate axis pairs must be selected per row"]
    rep.not_decided += ["round-trip equalities on SO(3) (numerical)", "correctness of the anti-parallel construction itself"]
    funcs = need_funcs(model, rep, ANCHORS)
    axis_table_clause(model, rep, funcs)
    composition_clause(model, rep, funcs)
    euler_clause(model, rep, funcs)
    copy_clause(model, rep, funcs)
    copy_forwarding_clause(model, rep)
    row_axis_clause(model, rep)
    degenerate_clause(model, rep, funcs)
    from .generic import cache_coherence_obligations
    cache_coherence_obligations(model, rep, model.cls(MC + "Molecules"), "2 composition", names=("x", "y", "z", "pos", "rotator", "features", "quaternion", "matrix",
                                                                                                   "rotvec", "euler_angle"))
    rep.floor("CACHE", 5, "(pose accessors of Molecules)")
