"""C19 - image pipelines compose like functions and are parameterised in physical units (DESIGN 5, C19)."""
from __future__ import annotations

import ast
from fractions import Fraction

from ..absint import TOP, Const, ExtRef, FuncRef, Interp, Tup, ListOf
from ..domains.affine import A, mkA
from ..domains.arrays import ArrayDomain, Vec3
from ..domains.units import NM, PX, ONE, U, UnitsDomain, S as UNIT_S
from ..cfg import backward_slice_names
from ..repo import calls_in, dotted, norm_src, walk_no_nested
from ..match import Matcher, src as msrc
from .common import kwarg, need_funcs

PC = "acryo/pipe/_classes.py::"
OPS = {"__add__": ast.Add, "__sub__": ast.Sub, "__mul__": ast.Mult, "__truediv__": ast.Div, "__eq__": ast.Eq, "__ne__": ast.NotEq, "__lt__": ast.Lt,
       "__le__": ast.LtE, "__gt__": ast.Gt, "__ge__": ast.GtE}
HELPERS = {"_lt": ast.Lt, "_le": ast.LtE, "_gt": ast.Gt, "_ge": ast.GtE}
REFLECTED = {"__radd__": ast.Add, "__rsub__": ast.Sub, "__rmul__": ast.Mult, "__rtruediv__": ast.Div}
COMMUTATIVE = (ast.Add, ast.Mult)
ANCHORS = [PC + "ImageProvider.provide", PC + "ImageProvider.__call__", PC + "ImageConverter.compose", PC + "ImageConverter.with_scale", PC + "ImageConverter.convert",
           PC + "ImageConverter.__call__", "acryo/pipe/_curry.py::provider_function", "acryo/pipe/_curry.py::converter_function", "acryo/pipe/_curry.py::_assert_1_arg",
           "acryo/pipe/_curry.py::_assert_2_args", "acryo/pipe/_imread.py::from_gaussian", "acryo/pipe/_imread.py::from_array", "acryo/pipe/_imread.py::from_file",
           "acryo/pipe/_imread.py::from_atoms", "acryo/pipe/_masking.py::_get_radius_px", "acryo/pipe/_masking.py::_get_structure", "acryo/pipe/_masking.py::dilation",
           "acryo/pipe/_masking.py::closing", "acryo/pipe/_masking.py::gaussian_smooth", "acryo/pipe/_masking.py::soft_otsu", "acryo/pipe/_transform.py::gaussian_filter",
           "acryo/pipe/_transform.py::shift"]


def _normalise(body: ast.expr):
    """(op class, lhs expr, rhs expr) of a lambda body `a OP b` / `_lt(a, b)` / compare."""
    if isinstance(body, ast.BinOp):
        return type(body.op), body.left, body.right
    if isinstance(body, ast.Compare) and len(body.ops) == 1:
        return type(body.ops[0]), body.left, body.comparators[0]
    if isinstance(body, ast.Call) and isinstance(body.func, ast.Name) and body.func.id in HELPERS and len(body.args) == 2:
        return HELPERS[body.func.id], body.args[0], body.args[1]
    return None, None, None


def operator_clause(model, rep, funcs):
    for cname, conv in (("ImageProvider", ["scale"]), ("ImageConverter", ["x", "scale"])):
        try:
            ci = model.cls(PC + cname)
        except Exception as e:
            rep.error(str(e))
            continue
        for dname, opcls in OPS.items():
            fs = [f for f in ci.methods.get(dname, []) if not f.is_overload]
            if not fs:
                rep.ob("S8", f"{PC}{cname}.{dname}", "operator is defined", None, "method vanished", clause="1 operators", stmt=f"{cname}.{dname}")
                continue
            f = fs[-1]
            lambdas = [n for n in ast.walk(f.node) if isinstance(n, ast.Lambda)]
            rep.instance("S8", f.loc())
            if not lambdas:
                rep.ob("S8", f.anchor, "operator builds a new pipeline from a lambda", None, "no lambda", node=f.node, fn=f, clause="1 operators", stmt=f"{cname}.{dname}")
                continue
            for lam in lambdas:
                op, lhs, rhs = _normalise(lam.body)
                params = [a.arg for a in lam.args.args]
                ok = op is opcls
                det = []
                if not ok:
                    det.append(f"lambda applies {op.__name__ if op else '?'} instead of {opcls.__name__}")
                want_self = f"self({', '.join(params)})"
                if lhs is None or norm_src(lhs) != want_self:
                    ok = False
                    det.append(f"left operand `{norm_src(lhs) if lhs is not None else None}` is not `{want_self}`")
                if len(params) != len(conv) or len(set(params)) != len(params):
                    # the lambdas are only ever called positionally (provide(scale) / convert(image, scale)): their names are free, their number is not
                    ok = False
                    det.append(f"lambda parameters {params}, required {len(conv)} positional parameters ({conv})")
                r = norm_src(rhs) if rhs is not None else ""
                rhs_ok = r in ("other", f"other({params[-1]})", f"other({', '.join(params)})") if params else False
                if not rhs_ok:
                    ok = False
                    det.append(f"right operand `{r}`")
                rep.ob("S8", f.anchor, f"{cname}.{dname}: result(args) = self(args) {_sym(opcls)} other[(args)] voxel-wise, operands in this order", ok, "; ".join(det),
                       node=lam, fn=f, clause="1 operators")
            # branch on the operand kind selects the matching call convention
            src = norm_src(f.node)
            if cname == "ImageConverter":
                okb = "isinstance(other, ImageConverter)" in src and "isinstance(other, ImageProvider)" in src
                rep.ob("S8", f.anchor, f"{cname}.{dname} distinguishes converter / provider / constant operands", okb, "", node=f.node, fn=f, clause="1 operators",
                       stmt=f"{cname}.{dname} branches")
        for dname in ("__neg__",):
            fs = ci.methods.get(dname, [])
            if fs:
                lam = [n for n in ast.walk(fs[-1].node) if isinstance(n, ast.Lambda)]
                rep.instance("S8", fs[-1].loc())
                ok = bool(lam) and isinstance(lam[0].body, ast.UnaryOp) and isinstance(lam[0].body.op, ast.USub) and norm_src(lam[0].body.operand).startswith("self(")
                rep.ob("S8", fs[-1].anchor, f"{cname}.__neg__ negates the image", ok, "", node=fs[-1].node, fn=fs[-1], clause="1 operators", stmt=f"{cname}.__neg__")
    # reflected operators (defined on the base class or on the concrete classes)
    for cname in ("_Pipeline", "ImageProvider", "ImageConverter"):
        try:
            ci = model.cls(PC + cname)
        except Exception:
            continue
        for dname, opcls in REFLECTED.items():
            fs = [f for f in ci.methods.get(dname, []) if not f.is_overload]
            if not fs:
                continue
            f = fs[-1]
            rep.instance("S8.reflected", f.loc())
            rets = [r for r in walk_no_nested(f.node) if isinstance(r, ast.Return) and r.value is not None]
            ok = False
            det = ""
            for r in rets:
                v = r.value
                det = norm_src(v)
                if opcls in COMMUTATIVE and isinstance(v, ast.BinOp) and isinstance(v.op, opcls) and {norm_src(v.left), norm_src(v.right)} == {"self", "other"}:
                    ok = True
                elif opcls is ast.Sub:
                    # other - self  ==  -(self - other)  ==  (-self) + other
                    t = det.replace(" ", "")
                    ok = t in ("-(self-other)", "-self+other", "(-self)+other", "other+-self", "other+(-self)")
                    lam = [n for n in ast.walk(f.node) if isinstance(n, ast.Lambda)]
                    for l in lam:
                        o, lh, rh = _normalise(l.body)
                        if o is ast.Sub and norm_src(lh) == "other" and norm_src(rh).startswith("self("):
                            ok = True
                elif opcls is ast.Div:
                    lam = [n for n in ast.walk(f.node) if isinstance(n, ast.Lambda)]
                    for l in lam:
                        o, lh, rh = _normalise(l.body)
                        if o is ast.Div and norm_src(lh) == "other" and norm_src(rh).startswith("self("):
                            ok = True
            if not ok and opcls in (ast.Sub, ast.Div):
                det = f"`{det}`: a reflected non-commutative operator must evaluate `other {_sym(opcls)} self` (e.g. 10 - p gives p - 10)"
            rep.ob("S8", f.anchor, f"reflected {dname}: constant {_sym(opcls)} pipeline evaluates other {_sym(opcls)} self(...)", ok, det, node=f.node, fn=f,
                   clause="1 operators")
    # the comparison helpers the lambdas call: a numpy comparison ufunc of (a, b) in this order.  Comparison ufuncs only have loops with a boolean (or object)
    # result: `dtype=np.float32` selects no loop and raises "No loop matching the specified signature" for every pair of images.
    UF = {ast.Lt: "less", ast.LtE: "less_equal", ast.Gt: "greater", ast.GtE: "greater_equal"}
    for hname, opcls in HELPERS.items():
        try:
            h = model.func(PC.replace("::", "::") + hname) if False else model.func("acryo/pipe/_classes.py::" + hname)
        except Exception:
            continue  # helper inlined into the lambdas: `_normalise` sees the comparison itself
        rep.instance("S8.helper", h.loc())
        rets = [r for r in walk_no_nested(h.node) if isinstance(r, ast.Return) and r.value is not None]
        ok, det = False, "no return"
        if len(rets) == 1:
            v = Matcher(h).expr(rets[0].value)
            core = v
            while isinstance(core, ast.Call) and isinstance(core.func, ast.Attribute) and core.func.attr in ("astype", "view") and not isinstance(core.func.value, ast.Name):
                core = core.func.value
            pa = h.param_names()
            det = norm_src(v)
            if isinstance(core, ast.Compare) and len(core.ops) == 1:
                ok = isinstance(core.ops[0], opcls) and [norm_src(core.left), norm_src(core.comparators[0])] == pa[:2]
            elif isinstance(core, ast.Call) and (dotted(core.func) or "").split(".")[-1] == UF[opcls] and len(core.args) >= 2:
                ok = [norm_src(core.args[0]), norm_src(core.args[1])] == pa[:2]
                dt = [k for k in core.keywords if k.arg in ("dtype", "signature", "sig")]
                if ok and dt and norm_src(dt[0].value) not in ("bool", "np.bool_", "numpy.bool_", "object", "'?'", "None"):
                    ok = False
                    det = (f"`{norm_src(core)}`: numpy comparison ufuncs have no loop with a {norm_src(dt[0].value)} result - the call raises TypeError (no loop matching the "
                           "specified signature) for every pair of images, so `pipeline < pipeline` can never be evaluated")
        rep.ob("S8", h.anchor, f"helper {hname}(a, b) evaluates a {_sym(opcls)} b voxel-wise (a comparison ufunc with a boolean loop, result cast afterwards if at all)", ok,
               "" if ok else det, node=h.node, fn=h, clause="1 operators", stmt=f"def {hname}")
    rep.floor("S8", 22, "(2 classes x 10 binary dunders + negations)")
    rep.floor("S8.reflected", 4, "(reflected dunders)")


def _sym(op):
    return {ast.Add: "+", ast.Sub: "-", ast.Mult: "*", ast.Div: "/", ast.Eq: "==", ast.NotEq: "!=", ast.Lt: "<", ast.LtE: "<=", ast.Gt: ">", ast.GtE: ">="}[op]


def composition_clause(model, rep, funcs):
    f = funcs.get(PC + "ImageConverter.compose")
    if f is not None:
        lam = [n for n in ast.walk(f.node) if isinstance(n, ast.Lambda)]
        def _posnames(l):
            # lambda bodies with the parameters renamed p0, p1 (they are called positionally)
            mp = {a.arg: f"p{i}" for i, a in enumerate(l.args.args)}
            b_ = ast.parse(norm_src(l.body), mode="eval").body
            for x in ast.walk(b_):
                if isinstance(x, ast.Name) and x.id in mp:
                    x.id = mp[x.id]
            return norm_src(b_)
        bodies = sorted(_posnames(l) for l in lam)
        rep.instance("COMP", f.loc())
        ok = bodies == ["self(other(p0), p0)", "self(other(p0, p1), p1)"] and Matcher(f).all_of([
            "if isinstance(other, ImageProvider):\n    $fn = lambda $s: self(other($s), $s)\nelif isinstance(other, ImageConverter):\n"
            "    $fn = lambda $x, $s2: self(other($x, $s2), $s2)\nelse:\n    ...", "other.__class__($fn)"])[0]
        if not ok:
            # the same rule by arity: the one-argument lambda (provider case) and the two-argument lambda (converter case) nest self around other, each is
            # what other.__class__(...) wraps, the provider lambda lives where other is known to be an ImageProvider
            MC_ = Matcher(f)
            one = [l for l in lam if len(l.args.args) == 1]
            two = [l for l in lam if len(l.args.args) == 2]
            good = len(one) == 1 and len(two) == 1 and len(lam) == 2
            if good:
                s1, (x2, s2) = one[0].args.args[0].arg, [a_.arg for a_ in two[0].args.args]
                good = norm_src(one[0].body) == f"self(other({s1}), {s1})" and norm_src(two[0].body) == f"self(other({x2}, {s2}), {s2})"
            if good:
                wraps = MC_.find("other.__class__($$l)")
                wrapped = {ast.dump(MC_.expr(b_["l"][1])) for _, b_ in wraps}
                good = ast.dump(one[0]) in wrapped and ast.dump(two[0]) in wrapped
            if good:
                # dispatch: an `isinstance(other, ImageProvider)` test governs the provider lambda
                prov_if = [n for n in ast.walk(f.node) if isinstance(n, ast.If) and norm_src(n.test) == "isinstance(other, ImageProvider)" and
                           any(x is one[0] for st in n.body for x in ast.walk(st)) and not any(x is two[0] for st in n.body for x in ast.walk(st))]
                good = bool(prov_if) and bool(MC_.find("raise TypeError($$m)"))
            ok = bool(good)
        rep.ob("COMP", f.anchor, "(a @ b)(args) == a(b(args), scale): inner pipeline first, result has the inner pipeline's kind", ok, f"{bodies}", node=f.node, fn=f,
               clause="2 composition", stmt="def compose")
        raises = any(isinstance(n, ast.Raise) for n in ast.walk(f.node))
        rep.ob("COMP", f.anchor, "composition with a non-pipeline object is rejected", raises, "", node=f.node, fn=f, clause="2 composition", stmt="def compose guard")
    try:
        ci = model.cls(PC + "ImageConverter")
        mm = ci.class_attrs.get("__matmul__")
        rep.instance("COMP", "ImageConverter.__matmul__")
        rep.ob("COMP", PC + "ImageConverter.__matmul__", "`@` is compose", mm is not None and norm_src(mm) == "compose", norm_src(mm) if mm is not None else "undefined",
               clause="2 composition", stmt="__matmul__ = compose")
    except Exception as e:
        rep.error(str(e))
    f = funcs.get(PC + "ImageConverter.with_scale")
    if f is not None:
        rep.instance("COMP", f.loc())
        inner = [n_ for n_ in ast.walk(f.node) if isinstance(n_, (ast.FunctionDef, ast.Lambda)) and n_ is not f.node]
        ok = any((Matcher(n_).has("return self($x, scale)") if isinstance(n_, ast.FunctionDef) else norm_src(n_.body) == f"self({n_.args.args[0].arg}, scale)")
                 for n_ in inner if len(n_.args.args) == 1)
        rep.ob("COMP", f.anchor, "with_scale(scale)(img) == converter(img, scale)", ok, "", node=f.node, fn=f, clause="2 composition", stmt="def with_scale")
    for a, want in ((PC + "ImageProvider.provide", "self._func(scale)"), (PC + "ImageConverter.convert", "self._func(image, scale)")):
        f = funcs.get(a)
        if f is not None:
            rep.instance("COMP", f.loc())
            rep.ob("COMP", a, f"calling the pipeline calls the wrapped function as {want}", Matcher(f).has(want), "", node=f.node, fn=f, clause="2 composition",
                   stmt=f"{a} call")


def shim_clause(model, rep, funcs):
    """The arity shims decide how many leading arguments (scale / image, scale) the user function takes by counting *all* its positional
    parameters, with or without defaults: a `scale=1.0` parameter still receives the pipeline's scale."""
    # (1) what is counted: the parameters of inspect.signature(func) whose kind is POSITIONAL_ONLY or POSITIONAL_OR_KEYWORD - exactly these two kinds,
    #     with or without default - wherever the count is computed (in the shim or in a private helper the shims share)
    from ..domains.consts import ConstDomain
    from ..absint import LambdaRef
    curry_fns = [f_ for f_ in model.all_functions if f_.module.relpath == "acryo/pipe/_curry.py"]
    counters = []
    for f_ in curry_fns:
        for n in ast.walk(f_.node):
            if isinstance(n, (ast.GeneratorExp, ast.ListComp)) and len(n.generators) == 1 and n.generators[0].ifs:
                g = n.generators[0]
                it_src = norm_src(Matcher(f_).expr(g.iter))
                if "inspect.signature(func).parameters" not in it_src.replace("signature(func)", "inspect.signature(func)").replace("inspect.inspect.", "inspect."):
                    continue
                kinds = set()
                for c in g.ifs:
                    cx = Matcher(f_).expr(c)
                    if isinstance(cx, ast.Compare) and len(cx.ops) == 1 and isinstance(cx.ops[0], ast.In) and norm_src(cx.left).endswith(".kind") and \
                            isinstance(cx.comparators[0], (ast.Tuple, ast.List, ast.Set)):
                        kinds |= {norm_src(e).rsplit(".", 1)[-1] for e in cx.comparators[0].elts}
                counters.append((f_, n, kinds))
    okc = bool(counters) and all(k == {"POSITIONAL_ONLY", "POSITIONAL_OR_KEYWORD"} for _, _, k in counters)
    rep.instance("CURRY", "acryo/pipe/_curry.py positional-parameter count")
    rep.ob("CURRY", "acryo/pipe/_curry.py::positional count", "the arity shims count every positional parameter of the user function (POSITIONAL_ONLY and "
           "POSITIONAL_OR_KEYWORD, defaults included)", okc, f"counted kinds: {[sorted(k) for _, _, k in counters]}", clause="3 currying", stmt="positional count kinds")
    count_names = {f_.name for f_, _, _ in counters if f_.name not in ("_assert_1_arg", "_assert_2_args")}
    # (2) which shim is returned for which count: representative evaluation with the count bound to 0, 1, 2, 3
    for name, lam_params, want in (("_assert_1_arg", 1, {0: "func()", 1: "<func>", 2: "<func>", 3: "<func>"}),
                                   ("_assert_2_args", 2, {0: "func()", 1: "func({0})", 2: "<func>", 3: "<func>"})):
        try:
            f = model.func("acryo/pipe/_curry.py::" + name)
        except Exception:
            rep.error(f"anchor vanished: acryo/pipe/_curry.py::{name}")
            continue
        rep.instance("CURRY", f.loc())
        ok, why = True, []
        for n_, expect in want.items():
            class CD(ConstDomain):
                def call_external(self, interp, nm, recv, args, kwargs, node, _n=n_):
                    if (nm or "").rsplit(".", 1)[-1] in ("sum", "len"):
                        return Const(_n)
                    return super().call_external(interp, nm, recv, args, kwargs, node)

                def call_repo(self, interp, funcs_, bound, args, kwargs, node, _n=n_):
                    if {x.name for x in funcs_} <= count_names and count_names:
                        return Const(_n)
                    return NotImplemented

                def compare(self, interp, node, vals):
                    a_, b_ = vals if len(vals) == 2 else (None, None)
                    if isinstance(a_, Const) and isinstance(b_, Const) and isinstance(a_.value, int) and isinstance(b_.value, int) and len(node.ops) == 1:
                        import operator as _op
                        tbl = {ast.Lt: _op.lt, ast.LtE: _op.le, ast.Gt: _op.gt, ast.GtE: _op.ge}
                        if type(node.ops[0]) in tbl:
                            return Const(tbl[type(node.ops[0])](a_.value, b_.value))
                    return super().compare(interp, node, vals)

            it_ = Interp(model, CD(), depth=0)
            rets = []
            it_.on_return.append(lambda interp, fn_, st, val, env=None, _f=f: rets.append(val) if fn_ is _f else None)
            try:
                it_.run(f, args={"func": Const("<func>")})
            except Exception as e:
                ok, why = None, [f"count {n_}: not evaluable ({e!r})"]
                break
            got = None
            if len(rets) == 1:
                v = rets[0]
                if isinstance(v, Const) and v.value == "<func>":
                    got = "<func>"
                elif isinstance(v, LambdaRef) and len(v.node.args.args) == lam_params:
                    got = norm_src(v.node.body)
                    expect = expect.format(*[a.arg for a in v.node.args.args])
            if got != expect:
                ok = False
                why.append(f"a user function with {n_} positional parameter(s) is wrapped as `{got}` (returns evaluated: {len(rets)}), required `{expect}`")
        rep.ob("CURRY", f.anchor, "the arity shim forwards scale / (image, scale) to functions that declare them: 0 parameters -> called without arguments, "
               "1 -> the first argument only (two-argument shim), otherwise the function itself", ok, "; ".join(why), node=f.node, fn=f, clause="3 currying",
               stmt=f"def {name}")


def curry_clause(model, rep, funcs):
    for a, body, shim in (("acryo/pipe/_curry.py::provider_function", "_fn(scale, *args, **kwargs)", "_assert_1_arg"),
                          ("acryo/pipe/_curry.py::converter_function", "_fn(img, scale, *args, **kwargs)", "_assert_2_args")):
        f = funcs.get(a)
        if f is None:
            continue
        lam = [n for n in ast.walk(f.node) if isinstance(n, ast.Lambda)]
        rep.instance("CURRY", f.loc())
        pat = body.replace("_fn(", "$fn(")
        inner = [n for n in ast.walk(f.node) if isinstance(n, ast.FunctionDef) and n is not f.node and any(isinstance(x, ast.Lambda) for x in ast.walk(n))]
        ok = len(lam) == 1 and bool(inner) and Matcher(inner[0]).all_of([f"$fn = {shim}(fn)", pat])[0]
        rep.ob("CURRY", a, f"the curried pipeline calls the user function as {body} (scale / image supplied later, user arguments in their original order)", ok,
               norm_src(lam[0].body) if lam else "", node=f.node, fn=f, clause="3 currying", stmt=f"{f.name} lambda")
    f = funcs.get("acryo/pipe/_curry.py::_assert_2_args")
    if f is not None:
        lam = sorted(norm_src(n) for n in ast.walk(f.node) if isinstance(n, ast.Lambda))
        rep.instance("CURRY", f.loc())
        ok = lam == ["lambda x0, x1: func()", "lambda x0, x1: func(x0)"]
        rep.ob("CURRY", f.anchor, "arity shims keep the argument order (image first)", ok, f"{lam}", node=f.node, fn=f, clause="3 currying", stmt="_assert_2_args shims")


class PipeUnits(UnitsDomain):
    def seed_param(self, interp, fn, arg):
        if arg.arg == "scale":
            return U(frozenset({UNIT_S}))
        if arg.arg in ("img", "image", "imgs", "atoms_px"):
            return TOP
        return super().seed_param(interp, fn, arg)

    def compare(self, interp, node, vals):
        # a threshold test decides in pixels: an nm quantity compared with a bare non-zero number makes the outcome depend on the physical value alone,
        # not on value / scale (sign tests against 0 are unit-free)
        consts = [c for c in [node.left] + list(node.comparators) if isinstance(c, ast.Constant) and isinstance(c.value, (int, float)) and not isinstance(c.value, bool)
                  and c.value != 0]
        if consts:
            for v in vals:
                u = self._lift(v)
                if u is not None and not u.poly and not u.all_of and u.alts == frozenset({NM}):
                    self.events.append(("clash", interp.cur_fn, node, f"`{norm_src(node)}` compares a length in nm with the bare number {consts[0].value}: the cut-off is "
                                        "meant in pixels (value / scale); as written the result depends on the physical value alone, not on value / scale"))
                    break
        return super().compare(interp, node, vals)


PIXEL_CALLEES = ("scipy.ndimage", "scipy.ndimage.", "acryo._typed_scipy")


def units_clause(model, rep, funcs):
    """Every nm parameter reaches pixel-space callees only as p / scale."""
    decorated = [f for f in model.all_functions if f.module.relpath.startswith("acryo/pipe/") and f.has_decorator("provider_function", "converter_function")]
    helpers = [f for f in model.all_functions if f.module.relpath == "acryo/pipe/_masking.py" and f.name in ("_get_radius_px",)]
    nm_params_total = 0
    for f in decorated + helpers:
        nm_params = [p.arg for p in f.params() if p.annotation is not None and "nm" in {x.id for x in ast.walk(p.annotation) if isinstance(x, ast.Name)} and p.arg != "scale"]
        if not nm_params:
            continue
        nm_params_total += len(nm_params)
        dom = PipeUnits(model)
        it = Interp(model, dom, depth=2)
        bad = []
        used = {p: [] for p in nm_params}

        def on_call(interp, fn, node, callee, args, kwargs, env, _f=f):
            name = None
            if isinstance(callee, ExtRef):
                name = callee.name
            if name is None:
                return
            pixel_space = name.startswith(("scipy.ndimage", "scipy.signal")) or name.split(".")[-1] in ("zoom", "shift", "gaussian_filter", "indices", "histogramdd",
                                                                                                        "binary_dilation", "binary_erosion", "distance_transform_edt")
            if not pixel_space:
                return
            for i, a in enumerate(list(args) + list(kwargs.values())):
                u = dom._lift(a)
                if u is not None and not u.poly and not u.all_of and u.alts == frozenset({NM}):
                    bad.append((node, f"argument {i} of {name.split('.')[-1]} is in nm"))

        it.on_call.append(on_call)
        it.run(f)
        rep.instance("U.pipe", f.anchor)
        clashes = [(fn_, node, msg) for kind, fn_, node, msg in dom.events if kind == "clash"]
        ok = not bad and not clashes
        det = "; ".join([m for _, m in bad] + [m for _, _, m in clashes])
        # every nm parameter must be divided by the scale somewhere (or only sign-tested)
        for p in nm_params:
            divided = any(isinstance(n, ast.BinOp) and isinstance(n.op, ast.Div) and p in backward_slice_names(f.node, n.left) and
                          "scale" in norm_src(n.right) for n in ast.walk(f.node))
            passed = any(isinstance(c, ast.Call) and any(isinstance(x, ast.Name) and x.id == p for a in c.args for x in ast.walk(a)) and
                         (dotted(c.func) or "").split(".")[-1] in ("_get_radius_px", "_as_3_array", "float", "from_atoms") for c in ast.walk(f.node))
            via = any(isinstance(n, ast.BinOp) and isinstance(n.op, ast.Div) and "scale" in norm_src(n.right) and
                      any(isinstance(c, ast.Call) and any(isinstance(x, ast.Name) and x.id == p for x in ast.walk(c)) for c in ast.walk(n.left)) for n in ast.walk(f.node))
            loads = [x for x in ast.walk(f.node) if isinstance(x, ast.Name) and x.id == p and isinstance(x.ctx, ast.Load)]
            if loads and not (divided or passed or via):
                ok = False
                det += f"; nm parameter `{p}` is used without being divided by the scale"
        rep.ob("U", f.anchor, f"nm parameters {nm_params} enter pixel-space computations only as value / scale (result depends on (p, scale) only through p/scale)",
               ok, det.strip("; "), node=(bad[0][0] if bad else (clashes[0][1] if clashes else f.node)), fn=f, clause="4 units",
               stmt=(None if (bad or clashes) else f"def {f.name} units"))
    rep.stats["nm_parameters_checked"] = nm_params_total
    rep.floor("U.pipe", 7, "(decorated providers/converters with nm parameters)")


def gaussian_clause(model, rep, funcs):
    f = funcs.get("acryo/pipe/_imread.py::from_gaussian")
    if f is None:
        return
    dom = ArrayDomain(model, positive_syms={"scale"})
    it = Interp(model, dom, depth=1)
    shp = Vec3(tuple(dom.sym(f"L{i}") for i in range(3)))
    sh = Vec3(tuple(dom.sym(f"d{i}") for i in range(3)))
    seen = {}

    MGa = Matcher(f)
    role: dict = {}
    # roles and exponent are read off a symbolic-term evaluation (sa/domains/terms.py): the argument of exp() and the zip(...) that pairs coordinates, centre
    # and sigma per axis look the same whether the sum over axes is a generator inside sum() or an accumulation loop
    from ..domains.terms import T as _T, TermDomain as _TD, freeze as _freeze
    tdom = _TD()
    tit = Interp(model, tdom, depth=0)
    tz, texp = [], []

    def t_on_call(interp, fn_, node, callee, args, kwargs, env):
        if fn_ is not f:
            return
        nm = (dotted(node.func) or norm_src(node.func)).split(".")[-1]
        if nm == "zip" and len(node.args) == 3:
            tz.append((node, [_freeze(a) for a in args]))
        if nm == "exp" and args:
            texp.append((node, _freeze(args[0])))

    tit.on_call.append(t_on_call)
    try:
        tit.run(f)
    except Exception:  # pragma: no cover
        pass
    if len(tz) == 1 and all(isinstance(a, ast.Name) for a in tz[0][0].args):
        zn = tz[0][0]
        role["center_subpix"] = zn.args[1].id
        role["sigma_px"] = zn.args[2].id
        for _, b2 in MGa.find("$crds = np.indices($shp, ...)"):
            if isinstance(b2["crds"][1], ast.Name) and b2["crds"][1].id == zn.args[0].id and isinstance(b2["shp"][1], ast.Name):
                role["shape_px"] = b2["shp"][1].id

    def on_stmt(interp, fn, st, env):
        if fn is f:
            for k, nm in role.items():
                if nm in env:
                    seen[k] = env[nm]

    it.on_stmt.append(on_stmt)

    orig = dom.call_repo

    def call_repo(interp, funcs_, bound, args, kwargs, node):
        if {x.name for x in funcs_} == {"_as_3_array"}:
            return args[0]
        return orig(interp, funcs_, bound, args, kwargs, node)

    dom.call_repo = call_repo
    it.run(f, args={"scale": dom.sym("scale"), "shape": shp, "sigma": Vec3(tuple(dom.sym(f"s{i}") for i in range(3))), "shift": sh})
    rep.instance("A.gauss", f.loc())
    c = dom.vec(seen.get("center_subpix")) if seen.get("center_subpix") is not None else None
    n = dom.vec(seen.get("shape_px")) if seen.get("shape_px") is not None else None
    if not c or not n:
        rep.ob("A", f.anchor, "Gaussian centre evaluated symbolically", None, f"{seen.get('center_subpix')!r}"[:200], node=f.node, fn=f, clause="5 gaussian",
               stmt="from_gaussian centre")
    else:
        ok = True
        det = ""
        for i in range(3):
            want = dom.add(dom.add(dom.div(n[i], mkA(2)), mkA(Fraction(-1, 2))), dom.div(sh.items[i], dom.sym("scale")))
            if not c[i].equals(want):
                ok = False
                det = f"axis {i}: centre = {c[i]!r}, required (n-1)/2 + shift/scale = {want!r}"
                break
        if not ok and c[0].equals(dom.add(dom.div(shp.items[0], dom.sym("scale")), dom.div(sh.items[0], dom.sym("scale")))):
            det += " (the centre is the far corner shape/scale + shift/scale: the peak falls on the last voxel)"
        rep.ob("A", f.anchor, "the Gaussian is centred at the box centre (n-1)/2 plus shift/scale, n = round(shape/scale)", ok, det, node=f.node, fn=f,
               clause="5 gaussian", stmt="from_gaussian centre")
    # exponent: -0.5 * sum_k ((x_k - c_k)/sigma_k)**2  : the power must be inside the sum (term comparison)
    ok2 = None
    det2 = ""
    if len(texp) == 1 and len(tz) == 1:
        e = texp[0][1]
        z = tz[0][1]
        el = [_T("elem", (a,)) for a in z]
        X = _T("op", ("Pow", _T("op", ("Div", _T("op", ("Sub", el[0], el[1])), el[2])), _T("const", ("2",))))
        S = _T("fold", ("Add", _T("const", ("0",)), X))
        half = [_T("un", ("USub", _T("const", ("0.5",)))), _T("const", ("-0.5",))]
        good = [_T("op", ("Mult", h, S)) for h in half] + [_T("op", ("Mult", S, h)) for h in half] + \
            [_T("op", ("Div", _T("un", ("USub", S)), _T("const", ("2",)))), _T("un", ("USub", _T("op", ("Div", S, _T("const", ("2",))))))]
        ok2 = e in good
        det2 = "" if ok2 else f"exponent {e!r}"[:260]
        if not ok2:
            folds = [t_ for t_ in __import__("sa.domains.terms", fromlist=["subterms"]).subterms(e) if t_.op == "fold"]
            if not folds:
                det2 += "; no sum over the axes (a power applied to the sum, or a missing axis, changes the level sets from spheres to something else)"
            elif folds[0].args[2] != X:
                det2 += f"; summand {folds[0].args[2]!r} is not ((x - c) / sigma)**2 of one and the same axis"[:200]
    rep.ob("H", f.anchor, "the exponent is -1/2 * sum_k ((x_k - c_k)/sigma_k)**2 (square inside the sum over axes)", ok2, det2, node=f.node, fn=f,
           clause="5 gaussian", stmt="from_gaussian exponent")


def mask_clause(model, rep, funcs):
    for name, neg, pos in (("dilation", "binary_erosion", "binary_dilation"), ("closing", "binary_opening", "binary_closing")):
        f = funcs.get(f"acryo/pipe/_masking.py::{name}")
        if f is None:
            continue
        rep.instance("SLOT.mask", f.loc())
        # decided by sign-representative evaluation (sa/domains/signs.py): which scipy.ndimage.binary_* call is made for a negative / a positive radius, with which
        # arguments - however the selection is spelled (if/elif, conditional expression, operations passed to a helper)
        from ..domains.signs import external_calls_by_sign, tag_of
        summ = {"_get_radius_px": lambda a, k: f"rpx({','.join(a)})", "_get_structure": lambda a, k: f"ball({','.join(a)})"}
        res = external_calls_by_sign(model, f, "radius", signs=(-1, 1), summaries=summ, want=lambda n: n.rsplit(".", 1)[-1].startswith("binary_"))
        ok, det = True, []
        for sgn, want in ((-1, neg), (1, pos)):
            r = res.get(sgn, {})
            if "error" in r or r.get("impure"):
                ok = None
                det.append(f"radius {'<' if sgn < 0 else '>'} 0: not decidable by sign ({r.get('error') or r.get('impure')})")
                continue
            names = [c[0].rsplit(".", 1)[-1] for c in r["calls"]]
            if names != [want]:
                ok = False
                det.append(f"radius {'<' if sgn < 0 else '>'} 0 calls {names or 'nothing'}, required exactly {want}")
                continue
            _, a, kw, _node = r["calls"][0]
            if not a or tag_of(a[0]) != "img":
                ok = False
                det.append(f"{want} is applied to `{tag_of(a[0]) if a else None}`, not to the input image")
            if tag_of(kw.get("structure")) != "ball(rpx(radius,scale))":
                ok = False
                det.append(f"{want}: structure is `{tag_of(kw.get('structure'))}`, required _get_structure(_get_radius_px(radius, scale))")
            if "border_value" in kw and tag_of(kw["border_value"]) not in ("False", "0"):
                ok = False
                det.append(f"{want}: border_value={tag_of(kw['border_value'])}")
            if not any("img" in tag_of(v).replace("call:", "") .split("@")[0] or tag_of(v) == "img" for v in r["returns"] if v is not None):
                ok = False
                det.append("no path returns the input image (identity below one pixel)")
        rep.ob("SLOT", f.anchor, f"{name}: {neg} exactly for radius < 0, {pos} for radius > 0, identity when the radius is below one pixel", ok, "; ".join(det),
               node=f.node, fn=f, clause="6 masks", stmt=f"def {name}")
    f = funcs.get("acryo/pipe/_masking.py::gaussian_smooth")
    if f is not None:
        s = norm_src(f.node)
        rep.instance("SLOT.mask", f.loc())
        MGS = Matcher(f)
        ok = MGS.all_of(["img = ~img", "$d = ndi.distance_transform_edt(img)", "np.exp(-$d ** 2 / 2 / (sigma / scale) ** 2, ...)"])[0] or \
            MGS.all_of(["$d = ndi.distance_transform_edt(~img)", "np.exp(-$d ** 2 / 2 / (sigma / scale) ** 2, ...)"])[0]
        rep.ob("SLOT", f.anchor, "gaussian_smooth = exp(-d^2 / (2 (sigma/scale)^2)) of the distance to the mask (values in (0, 1], 1 on the mask)", ok, "", node=f.node,
               fn=f, clause="6 masks", stmt="def gaussian_smooth")
    f = funcs.get("acryo/pipe/_masking.py::_get_structure")
    if f is not None:
        s = norm_src(f.node)
        rep.instance("SLOT.mask", f.loc())
        from .common import ball_footprint
        ok = ball_footprint(Matcher(f), "r", "r")
        rep.ob("SLOT", f.anchor, "structuring element is the centred ball of radius r in a (2r+1)^3 box", ok, "", node=f.node, fn=f, clause="6 masks",
               stmt="def _get_structure")
    f = funcs.get("acryo/pipe/_masking.py::soft_otsu")
    if f is not None:
        rep.instance("SLOT.mask", f.loc())
        ok = "gaussian_smooth(sigma) @ dilation(radius) @ threshold_otsu(bins)" in norm_src(f.node)
        rep.ob("SLOT", f.anchor, "soft_otsu = smooth o dilate o threshold (applied right to left)", ok, "", node=f.node, fn=f, clause="6 masks", stmt="def soft_otsu")


def rescale_clause(model, rep, funcs):
    """Providers that resample an existing image return it unchanged only when the requested scale equals the original one within the tolerance, in either direction."""
    for name in ("from_array", "from_file"):
        try:
            f = model.func("acryo/pipe/_imread.py::" + name)
        except Exception:
            continue
        M = Matcher(f)
        tests = [n for n in ast.walk(f.node) if isinstance(n, ast.If) and "tol" in norm_src(n.test)]
        if not tests:
            continue
        rep.instance("SLOT.rescale", f.loc())
        ok = all(M.find("abs($$r - 1) < tol", within=t.test) or M.find("abs(1 - $$r) < tol", within=t.test) for t in tests)
        rep.ob("SLOT", f.anchor, "the no-resampling shortcut is taken only when |scale ratio - 1| < tol (two-sided)", bool(ok),
               "" if ok else f"`if {norm_src(tests[0].test)}`: one-sided test - every request for a coarser (or finer) scale returns the image unresampled, the physical box size "
               "changes", node=tests[0], fn=f, clause="4 units", stmt=f"def {name} tolerance")
        # the zoom factor is original_scale / scale - the very ratio the shortcut tests (the header scale only stands in when no original_scale is given)
        zooms = [c for c in calls_in(f) if (dotted(c.func) or "").split(".")[-1] == "zoom" and len(c.args) >= 2]
        for z in zooms:
            rep.instance("SLOT.rescale", f.loc(z))
            zr = norm_src(M.expr(z.args[1]))
            okz = zr in ("original_scale / scale",)
            same = any(norm_src(M.expr(b["r"][1])) == zr for t in tests for _, b in (M.find("abs($$r - 1) < tol", within=t.test) + M.find("abs(1 - $$r) < tol", within=t.test)))
            rep.ob("SLOT", f.anchor, "the image is resampled by original_scale / scale, the same ratio that the no-resampling shortcut tests", bool(okz and same),
                   "" if okz and same else f"zoom factor `{zr}`" + ("" if same else " differs from the ratio tested against tol") +
                   ("" if okz else ": an explicitly given original_scale is ignored (or the ratio is inverted), the image comes back at the wrong scale"),
                   node=z, fn=f, clause="4 units", stmt=f"def {name} zoom factor")
    rep.floor("SLOT.rescale", 1, "(from_array)")


def roundoff_clause(model, rep):
    """ROUNDOFF.  "Parameters in nanometres give identical results when parameters and scale are multiplied by the same factor": the quotient parameter / scale is the
    same real number, but not the same float (0.15 / 0.05 = 3.0000000000000004, 1.5 / 0.5 = 3.0).  A ceiling or floor applied directly to such a quotient jumps by a
    whole pixel on that difference, so the quotient must be rounded to a fixed number of decimals (or shifted by an explicit tolerance) first."""
    n = 0
    for fn in model.all_functions:
        if not fn.module.relpath.startswith("acryo/pipe/") or fn.parent is not None:
            continue
        if "scale" not in fn.param_names():
            continue
        M = Matcher(fn)
        for c in ast.walk(fn.node):
            if not (isinstance(c, ast.Call) and (dotted(c.func) or "").rsplit(".", 1)[-1] in ("ceil", "floor") and c.args):
                continue
            x = M.expr(c.args[0])
            # numerator: scalar physical parameters only (annotated nm / float); quotients of data arrays (atom coordinates) are values, not parameters
            a_ = fn.node.args
            scalar = {p_.arg for p_ in list(a_.posonlyargs) + list(a_.args) + list(a_.kwonlyargs) if p_.annotation is not None and
                      any(t in norm_src(p_.annotation) for t in ("nm", "float")) and not any(t in norm_src(p_.annotation) for t in ("ndarray", "Array"))}
            quot = [d for d in ast.walk(x) if isinstance(d, ast.BinOp) and isinstance(d.op, ast.Div) and
                    any(isinstance(y, ast.Name) and y.id == "scale" for y in ast.walk(d.right)) and
                    {y.id for y in ast.walk(d.left) if isinstance(y, ast.Name)} & scalar and
                    not ({y.id for y in ast.walk(d.left) if isinstance(y, ast.Name)} - scalar - {"np", "float", "abs", "int"})]
            if not quot:
                continue
            n += 1
            rep.instance("ROUNDOFF", fn.loc(c))
            guarded = any(isinstance(y, ast.Call) and (dotted(y.func) or "").rsplit(".", 1)[-1] in ("round", "around") and len(y.args) + len(y.keywords) >= 2
                          for y in ast.walk(x)) or \
                any(isinstance(y, ast.BinOp) and isinstance(y.op, (ast.Add, ast.Sub)) and
                    any((isinstance(z, ast.Constant) and isinstance(z.value, float) and 0 < abs(z.value) <= 1e-3) or
                        (isinstance(z, ast.Name) and any(t in z.id.lower() for t in ("eps", "tol"))) for z in (y.left, y.right)) for y in ast.walk(x))
            rep.ob("ROUNDOFF", fn.anchor, "a ceiling / floor of parameter / scale is taken after rounding the quotient to fixed decimals (or with an explicit tolerance)",
                   guarded, f"`{norm_src(c)[:70]}` of `{norm_src(quot[0])[:40]}`: the same physical parameter at another scale can land on the other side of an integer",
                   node=c, fn=fn, clause="4 units")
    rep.floor("ROUNDOFF", 1, "(pixel radius of the mask converters)")


def check(model, rep, tier):
    rep.decided += ["C19.1 operator table of both pipeline classes incl. reflected operators", "C19.2 composition nests self(other(...), scale); @ is compose; with_scale closes over scale",
                    "C19.3 currying call conventions", "C19.4 nm parameters are used only as p/scale", "C19.5 Gaussian provider centre and exponent", "C19.6 mask converter dispatch"]
    rep.not_decided += ["resampling accuracy of zoom", "associativity beyond the structural nesting", "Otsu threshold values"]
    funcs = need_funcs(model, rep, ANCHORS)
    operator_clause(model, rep, funcs)
    composition_clause(model, rep, funcs)
    curry_clause(model, rep, funcs)
    shim_clause(model, rep, funcs)
    rescale_clause(model, rep, funcs)
    units_clause(model, rep, funcs)
    gaussian_clause(model, rep, funcs)
    mask_clause(model, rep, funcs)
    roundoff_clause(model, rep)
    # the shift converter moves the content by +shift (the direction of the Gaussian provider's `shift`): scipy's shift receives +shift / scale
    fsh = funcs.get("acryo/pipe/_transform.py::shift")
    if fsh is not None:
        MS_ = Matcher(fsh)
        for c in calls_in(fsh):
            if (dotted(c.func) or "").rsplit(".", 1)[-1] in ("ndi_shift", "shift") and len(c.args) >= 2:
                arg = MS_.expr(c.args[1])
                neg = isinstance(arg, ast.UnaryOp) and isinstance(arg.op, ast.USub)
                core = arg.operand if neg else arg
                isq = isinstance(core, ast.BinOp) and isinstance(core.op, ast.Div) and norm_src(core.right) == "scale" and "shift" in norm_src(core.left)
                rep.instance("SLOT.shift", fsh.loc(c))
                rep.ob("SLOT", fsh.anchor, "the shift converter hands +shift / scale (pixels) to scipy's shift", (isq and not neg) if (isq or neg) else None,
                       f"`{norm_src(c)[:70]}` passes `{norm_src(arg)[:40]}`" + (": the image moves opposite to the requested shift" if neg else ""), node=c, fn=fsh,
                       clause="4 units")
    # the batch provider is the element-wise provider: both rescaling options reach from_array
    from .generic import forwarded_parameter_obligations
    try:
        fa, fas = model.func("acryo/pipe/_imread.py::from_array"), model.func("acryo/pipe/_imread.py::from_arrays")
        ps_ = [x.arg for x in fa.node.args.args]
        if ps_ and ps_[0] == "scale" and any("provider_function" in norm_src(d) for d in fa.node.decorator_list):
            ps_ = ps_[1:]  # the curried provider takes its arguments without the scale, which is supplied later
        for pn_ in ("original_scale", "tol"):
            if pn_ in ps_:
                forwarded_parameter_obligations(model, rep, fas, pn_, {"from_array": ps_.index(pn_)}, "5 rescale")
        rep.floor("FWDP", 2, "(from_arrays -> from_array: original_scale, tol)")
    except KeyError as e:
        rep.error(f"anchor vanished: {e}")
