"""C18 - PCA classification: centring precedes the SVD; labels stay attached to their molecules (DESIGN 5, C18; narrow claim)."""
from __future__ import annotations

import ast

from ..absint import ExtRef, FuncRef, Interp
from ..cfg import CFG
from ..domains.homog import HP, HomogDomain, Lin
from ..effects import EffectAnalysis
from ..repo import calls_in, dotted, norm_src, walk_no_nested
from ..match import Matcher, src as msrc
from .common import kwarg, need_funcs, swapped_argument_obligations

P = "acryo/classification/_dask_pca.py::DaskPCA."
C = "acryo/classification/pca.py::PcaClassifier."
ANCHORS = [P + "_fit", P + "transform", P + "fit", C + "run", C + "get_transform", C + "transform", C + "_image_flat", C + "__init__",
           "acryo/loader/_base.py::LoaderBase.classify", "acryo/alignment/_base.py::TomographyInput.masked_difference"]


def svd_clause(model, rep, funcs):
    f = funcs.get(P + "_fit")
    if f is not None:
        cfg = CFG(f.node)
        svds = [n for n in cfg.nodes if n.kind == "stmt" and any(isinstance(c, ast.Call) and (dotted(c.func) or "").split(".")[-1] in ("svd", "svd_compressed")
                                                               for c in ast.walk(n.node))]
        rep.instance("DU.svd", f.loc())
        if not svds:
            rep.ob("DU", f.anchor, "SVD call found", None, "", node=f.node, fn=f, clause="fit", stmt="def _fit svd")
        for sv in svds:
            call = [c for c in ast.walk(sv.node) if isinstance(c, ast.Call) and (dotted(c.func) or "").split(".")[-1] in ("svd", "svd_compressed")][0]
            arg = norm_src(call.args[0]) if call.args else ""

            def is_centering(n, _arg=arg):
                if n.kind != "stmt":
                    return False
                st = n.node
                if isinstance(st, ast.AugAssign) and isinstance(st.op, ast.Sub) and norm_src(st.target) == _arg and "mean_" in norm_src(st.value):
                    return True
                if isinstance(st, ast.Assign) and norm_src(st.targets[0]) == _arg and isinstance(st.value, ast.BinOp) and isinstance(st.value.op, ast.Sub) and \
                        norm_src(st.value.left) == _arg and "mean_" in norm_src(st.value.right):
                    return True
                return False

            ok = cfg.must_pass_through(sv, is_centering)
            rep.ob("DU", f.anchor, "the matrix handed to the SVD is the data minus its column mean on every path (centring precedes the decomposition)", ok,
                   f"`{norm_src(call)[:60]}` is reachable without `{arg} -= self.mean_`", node=sv.node, fn=f, clause="fit")
            if (dotted(call.func) or "").split(".")[-1] == "svd":
                # da.linalg.svd is the tall-and-skinny QR algorithm: it raises NotImplementedError unless one of the two axes is a single block.  The flattened stack
                # inherits whatever chunks the caller's stack had on the spatial axes, so the feature axis must be merged into one block before the call.
                def one_block(e):
                    for c in ast.walk(e):
                        if isinstance(c, ast.Call) and isinstance(c.func, ast.Attribute) and c.func.attr == "rechunk":
                            spec = c.args[0] if c.args else kwarg(c, "chunks")
                            if isinstance(spec, ast.Dict):
                                for k, v in zip(spec.keys, spec.values):
                                    if norm_src(k) in ("1", "-1") and (norm_src(v) in ("-1", "None") or norm_src(v).endswith("shape[1]")):
                                        return True
                            if isinstance(spec, ast.Tuple) and len(spec.elts) == 2 and (norm_src(spec.elts[1]) in ("-1", "None") or norm_src(spec.elts[1]).endswith("shape[1]")):
                                return True
                    return False

                def is_rechunk(n, _arg=arg):
                    return n.kind == "stmt" and isinstance(n.node, ast.Assign) and norm_src(n.node.targets[0]) == _arg and one_block(n.node.value)

                okc = (bool(call.args) and one_block(call.args[0])) or cfg.must_pass_through(sv, is_rechunk)
                rep.ob("DU", f.anchor, "the exact SVD gets a matrix whose feature axis is one block (rechunk({1: -1})) whatever the chunking of the image stack", okc,
                       "" if okc else f"`{norm_src(call)[:50]}`: the flattened stack keeps the caller's chunks; a stack chunked along the image axis and a spatial axis "
                       "(e.g. chunks (5, 3, 6, 6)) raises NotImplementedError('Array must be chunked in one dimension only')", node=sv.node, fn=f, clause="fit",
                       stmt="def _fit svd chunks")
        mean = [n for n in walk_no_nested(f.node) if isinstance(n, ast.Assign) and norm_src(n.targets[0]) == "self.mean_"]
        okm = len(mean) == 1 and norm_src(mean[0].value) in ("X.mean(0)", "X.mean(axis=0)")
        rep.ob("DU", f.anchor, "mean_ is the per-feature mean over samples (axis 0) of the fitted data", okm, norm_src(mean[0].value) if mean else "", node=f.node,
               fn=f, clause="fit", stmt="def _fit mean")
        M = Matcher(f)
        bq: dict = {}
        okn = M.has("$n = self.n_components", bq)
        trunc = okn and M.all_of(["self.components_ = self.components_[:$n]", "self.singular_values_ = self.singular_values_[:$n]"], bq)[0]
        rep.ob("DU", f.anchor, "components and singular values are truncated to n_components", bool(trunc), "", node=f.node, fn=f, clause="fit", stmt="def _fit truncate")
        # principal axes = right singular vectors V, singular values = S, for both solvers, and they are what is computed into the fitted attributes
        comp = M.all_of(["$U, $S, $V = da.linalg.svd(X)", "$U, $S, $V = da.linalg.svd_compressed(X, ...)", "$c, $sv = ($V, $S)",
                         "(($$a, $$b), $$nc, self.components_, self.singular_values_, $$tv) = da.compute($$sh, $$n2, $c, $sv, $$tv2)"])[0]
        rep.ob("DU", f.anchor, "principal axes are the right singular vectors V, singular values are S", bool(comp), "", node=f.node, fn=f, clause="fit",
               stmt="def _fit components")
    g = funcs.get(P + "transform")
    if g is not None:
        rep.instance("DU.svd", g.loc())
        MG = Matcher(g)
        ok = MG.all_of(["X = X - self.mean_", "da.dot(X, self.components_.T)"])[0] or MG.has("da.dot(X - self.mean_, self.components_.T)")
        rep.ob("DU", g.anchor, "transform subtracts mean_ and projects on components_.T", ok, "", node=g.node, fn=g, clause="transform", stmt="def transform body")


def solver_clause(model, rep, funcs):
    """Equality with an exact SVD needs an exact solver: which solver can reach _fit for the classifier's PCA?"""
    i = funcs.get(C + "__init__")
    if i is None:
        return
    pcs = [c for c in calls_in(i) if (dotted(c.func) or "") in ("PCA", "DaskPCA")]
    rep.instance("DU.solver", i.loc())
    if len(pcs) != 1:
        rep.ob("DU", i.anchor, "the classifier builds one PCA estimator", None, f"{len(pcs)} constructor calls", node=i.node, fn=i, clause="fit", stmt="PCA ctor")
        return
    sv = kwarg(pcs[0], "svd_solver")
    solver = sv.value if isinstance(sv, ast.Constant) else None
    if sv is None:
        try:
            di = model.func(P + "__init__")
            a = di.node.args
            names = [x.arg for x in a.args]
            defaults = dict(zip(names[len(names) - len(a.defaults):], a.defaults))
            d = defaults.get("svd_solver")
            solver = d.value if isinstance(d, ast.Constant) else None
        except Exception:
            solver = None
    ok = None
    det = f"svd_solver = {solver!r}"
    if solver in ("full", "tsqr"):
        ok = True
    elif solver == "randomized":
        ok, det = False, "svd_solver='randomized' is an approximation (svd_compressed), not the exact decomposition"
    elif solver == "auto":
        gs = None
        try:
            gs = model.func(P + "_get_solver")
        except Exception:
            pass
        if gs is not None:
            rnd = [n for n in walk_no_nested(gs.node) if isinstance(n, ast.Assign) and isinstance(n.value, ast.Constant) and n.value.value == "randomized"]
            ok = not rnd
            if rnd:
                det = ("svd_solver defaults to 'auto', and _get_solver switches to 'randomized' (da.linalg.svd_compressed) as soon as max(n_samples, n_features) > 500 and "
                       "n_components < 0.8*min(...): components, singular values and projections are then approximations, not those of the exact SVD")
    rep.ob("DU", i.anchor, "the decomposition behind the classifier is an exact SVD (solver 'full'/'tsqr') for every stack size", ok, det, node=pcs[0], fn=i, clause="fit",
           stmt="PCA solver")
    if solver == "auto" and gs is not None:
        # independent of the known finding above: whatever the policy does for large stacks, small problems (max(n_samples, n_features) <= 500) get the exact solver;
        # every assignment of 'randomized' sits in the else-part of that size test
        MS = Matcher(gs)

        def both_dims(e):
            # max(n_samples, n_features) with the two names unpacked from X.shape, whatever they are called
            ex = norm_src(MS.expr(e)).replace(" ", "")
            return ex in ("max(X.shape[0],X.shape[1])", "max(X.shape[1],X.shape[0])", "max(X.shape)", "max(*X.shape)")

        small = [n for n in ast.walk(gs.node) if isinstance(n, ast.If) and isinstance(n.test, ast.Compare) and len(n.test.ops) == 1 and
                 isinstance(n.test.ops[0], (ast.LtE, ast.Lt)) and both_dims(n.test.left) and
                 isinstance(n.test.comparators[0], ast.Constant) and any(isinstance(s, ast.Assign) and isinstance(s.value, ast.Constant) and s.value.value == "full"
                                                                          for s in n.body)]
        rnd_all = [n for n in ast.walk(gs.node) if isinstance(n, ast.Assign) and isinstance(n.value, ast.Constant) and n.value.value == "randomized"]
        rep.instance("DU.solver", gs.loc())
        oks = bool(small) and all(any(x is r for o in small[0].orelse for x in ast.walk(o)) for r in rnd_all) and small[0].test.comparators[0].value >= 500
        rep.ob("DU", gs.anchor, "the 'auto' policy keeps the exact solver for small problems: 'randomized' is only chosen when max(n_samples, n_features) > 500", oks,
               "" if oks else "no `max(n_samples, n_features) <= 500 -> 'full'` test guards the choice of the randomized solver: stacks of any size with "
               "n_components < 0.8*min(n_samples, n_features) are decomposed approximately (svd_compressed, 0 power iterations)", node=gs.node, fn=gs, clause="fit",
               stmt="auto policy small problems")


def classifier_clause(model, rep, funcs):
    f = funcs.get(C + "run")
    if f is not None:
        s = norm_src(f.node)
        rep.instance("SLOT.pca", f.loc())
        ok = Matcher(f).all_of(["self._pca.fit(self._image_flat(mask=True))", "self._labels = self._kmeans.fit_predict(self.get_transform())", "return self"])[0]
        rep.ob("SLOT", f.anchor, "run() fits the PCA on the masked, flattened stack and clusters the projections of the same stack", ok, "", node=f.node, fn=f,
               clause="classifier", stmt="def run")
    g = funcs.get(C + "get_transform")
    if g is not None:
        flats = [c for c in calls_in(g) if isinstance(c.func, ast.Attribute) and c.func.attr == "_image_flat"]
        rep.instance("SLOT.pca", g.loc())
        ok = len(flats) >= 1 and all(norm_src(kwarg(c, "mask") or ast.Constant(None)) == "True" for c in flats)
        rep.ob("SLOT", g.anchor, "projections use the same masked flattening as the fit (mask=True at every site)", ok, f"{[norm_src(c) for c in flats]}", node=g.node,
               fn=g, clause="classifier", stmt="def get_transform")
    if g is not None and g.param_names()[1:]:
        # row k of the projection of a subset belongs to labels[k]: the requested index list selects the rows as it is (no sorting / de-duplication on the way)
        pn = g.param_names()[1]
        REORDER = {"sorted", "reversed", "set", "frozenset", "unique", "sort", "argsort", "flip", "shuffle", "permutation"}
        MG = Matcher(g)
        subs = [n for n in ast.walk(g.node) if isinstance(n, ast.Subscript) and pn in {x.id for x in ast.walk(MG.expr(n.slice)) if isinstance(x, ast.Name)}
                and not (isinstance(n.value, ast.Name) and n.value.id == pn)]
        bad = []
        for n in subs:
            ex = MG.expr(n.slice)
            bad += [norm_src(c)[:50] for c in ast.walk(ex) if isinstance(c, ast.Call) and (dotted(c.func) or "").rsplit(".", 1)[-1] in REORDER]
        bad += [norm_src(c)[:50] for c in calls_in(g) if isinstance(c.func, ast.Attribute) and c.func.attr in ("sort", "reverse") and norm_src(c.func.value) == pn]
        if subs:
            rep.instance("SLOT.pca", g.loc(subs[0]))
            rep.ob("SLOT", g.anchor, f"a requested subset is projected in the requested order (row k belongs to {pn}[k])", not bad,
                   f"the rows are selected through `{bad[0] if bad else ''}`: the order of `{pn}` is lost, row k is the projection of another image", node=subs[0], fn=g,
                   clause="classifier", stmt="def get_transform order")
    h = funcs.get(C + "_image_flat")
    if h is not None:
        s = norm_src(h.node)
        rep.instance("SLOT.pca", h.loc())
        # decided on symbolic terms with `mask` bound to True and to False: the result is X.reshape(<number of images>, -1) with X the masked product on the
        # mask path and the plain stack otherwise (helpers, temporaries, if/else or conditional expression alike)
        from ..domains.terms import T as _T, TermDomain as _TD, callee_name as _cn
        from ..absint import Const as _C
        SELF = _T("param", ("self",))
        # private attribute names are taken from __init__: the one assigned the stack, the mask, and `<stack>.shape[0]`
        names_ = {"img": "_image", "msk": "_mask", "n": "_n_image"}
        ini_ = funcs.get(C + "__init__")
        if ini_ is not None:
            for st_ in ast.walk(ini_.node):
                if isinstance(st_, ast.Assign) and len(st_.targets) == 1 and isinstance(st_.targets[0], ast.Attribute) and norm_src(st_.targets[0].value) == "self":
                    v_ = norm_src(st_.value)
                    if v_ in ("image_stack.shape[0]", "len(image_stack)"):
                        names_["n"] = st_.targets[0].attr
                    elif v_ == "image_stack":
                        names_["img"] = st_.targets[0].attr
        img, msk, nimg = _T("attr", (SELF, names_["img"])), _T("attr", (SELF, names_["msk"])), _T("attr", (SELF, names_["n"]))
        ok, det_ = True, []
        for flag in (True, False):
            out = Interp(model, _TD(), depth=1).run(h, args={"mask": _C(flag)}, self_val=SELF)
            want_x = [_T("op", ("Mult", img, msk)), _T("op", ("Mult", msk, img))] if flag else [img]
            if isinstance(out, _T) and _cn(out) == "reshape" and len(out.args[1]) == 1 and isinstance(out.args[1][0], _T) and out.args[1][0].op == "tuple":
                out = _T("call", (out.args[0], tuple(out.args[1][0].args), out.args[2]))  # x.reshape((n, -1)) is x.reshape(n, -1)
            good = isinstance(out, _T) and _cn(out) == "reshape" and out.args[0].op == "attr" and out.args[0].args[0] in want_x and len(out.args[1]) == 2 and \
                out.args[1][1] in (_T("const", ("-1",)), _T("un", ("USub", _T("const", ("1",))))) and \
                out.args[1][0] in (nimg, _T("sub", (_T("attr", (out.args[0].args[0], "shape")), "0")), _T("sub", (_T("attr", (img, "shape")), "0")))
            if not good:
                ok = False if isinstance(out, _T) else None
                det_.append(f"mask={flag}: returns {out!r}"[:200])
        rep.ob("SLOT", h.anchor, "flattening keeps one row per image (reshape(n_image, -1)) after the optional mask product", ok, "; ".join(det_), node=h.node, fn=h,
               clause="classifier", stmt="def _image_flat")
    i = funcs.get(C + "__init__")
    if i is not None:
        s = norm_src(i.node)
        rep.instance("SLOT.pca", i.loc())
        MI_ = Matcher(i)
        n_ok = any(isinstance(st_, ast.Assign) and len(st_.targets) == 1 and isinstance(st_.targets[0], ast.Attribute) and norm_src(st_.targets[0].value) == "self" and
                   norm_src(st_.value) in ("image_stack.shape[0]", "len(image_stack)") for st_ in ast.walk(i.node))
        ok = n_ok and MI_.has("KMeans(n_clusters=n_clusters, random_state=seed, ...)") and MI_.has("PCA(n_components=n_components)")
        rep.ob("SLOT", i.anchor, "number of images is the first axis of the stack; k-means is seeded from the seed argument", ok, "", node=i.node, fn=i,
               clause="classifier", stmt="def __init__ (PcaClassifier)")
        # multi-start k-means: a single k-means++ run ends in a local optimum that merges two clearly separated groups for some seeds (seeded change C18-4);
        # the separation clause is over every seed, so the restarts are a necessary condition.  Decided on the constructor call: n_init is an integer literal >= 2.
        for c_ in ast.walk(i.node):
            if isinstance(c_, ast.Call) and norm_src(c_.func).split(".")[-1] == "KMeans":
                rep.instance("SLOT.pca", i.loc(c_))
                kw_ = {k.arg: k.value for k in c_.keywords if k.arg}
                v_ = kw_.get("n_init")
                if v_ is None and any(k.arg is None for k in c_.keywords):
                    ok_ = None
                elif v_ is None:
                    ok_ = False
                else:
                    v_ = MI_.expr(v_)
                    if isinstance(v_, ast.Constant):
                        ok_ = isinstance(v_.value, int) and not isinstance(v_.value, bool) and v_.value >= 2
                    else:
                        ok_ = None
                rep.ob("SLOT", i.anchor, "k-means is restarted from several initialisations (n_init is an integer >= 2), so well separated groups are not merged by one unlucky start",
                       ok_, f"`{norm_src(c_)[:90]}`: n_init={'absent (library default \'auto\' = one k-means++ run)' if v_ is None else norm_src(v_)}", node=c_, fn=i, clause="classifier")
        # the stored stack is the raw stack: the mask enters once, in _image_flat(mask=True) - a stack that is pre-multiplied here is decomposed as stack * mask**2
        h_ = funcs.get(C + "_image_flat")
        fields_ = set()
        if h_ is not None:
            for x in ast.walk(h_.node):
                if isinstance(x, ast.BinOp) and isinstance(x.op, ast.Mult):
                    for side in (x.left, x.right):
                        if isinstance(side, ast.Attribute) and norm_src(side.value) == "self":
                            fields_.add(side.attr)
        for st_ in ast.walk(i.node):
            if isinstance(st_, ast.Assign) and len(st_.targets) == 1 and isinstance(st_.targets[0], ast.Attribute) and norm_src(st_.targets[0].value) == "self" and \
                    st_.targets[0].attr in fields_ and "image_stack" in {x.id for x in ast.walk(MI_.expr(st_.value)) if isinstance(x, ast.Name)}:
                prod = [x for x in ast.walk(MI_.expr(st_.value)) if isinstance(x, ast.BinOp) and isinstance(x.op, (ast.Mult, ast.Add, ast.Sub, ast.Div))]
                rep.instance("SLOT.pca", i.loc(st_))
                rep.ob("SLOT", i.anchor, "the classifier stores the image stack as given; the mask is applied once, when the stack is flattened", not prod,
                       f"`{norm_src(st_)[:70]}`: with `_image_flat(mask=True)` multiplying again, the decomposed data is stack * mask**2 (differs from the exact SVD of "
                       f"the masked data for any soft-edged mask)", node=st_, fn=i, clause="classifier")


def labels_clause(model, rep, funcs):
    f = funcs.get("acryo/loader/_base.py::LoaderBase.classify")
    if f is None:
        return
    s = norm_src(f.node)
    rep.instance("O.labels", f.loc())
    M = Matcher(f)
    b: dict = {}
    stack_ok = M.all_of(["$model = ZNCCAlignment($$t, $$m, ...)",
                         "$stack = self.iter_mapping_tasks($model.masked_difference, output_shape=$shape, var_kwarg=dict(quaternion=self.molecules.quaternion()))"
                         ".tolist().tostack(shape=$shape, dtype=np.float32).rechunk(('auto',) + $shape)"], b)[0] or \
        M.all_of(["$model = ZNCCAlignment($$t, $$m, ...)",
                  "$stack = self.iter_mapping_tasks($model.masked_difference, output_shape=$shape, var_kwarg=dict(quaternion=self.molecules.quaternion()))"
                  ".tolist().tostack(shape=$shape, dtype=np.float32)"], b)[0]
    rep.ob("O", f.anchor, "the difference stack is built from this loader's tasks in molecule order, with each molecule's own quaternion", stack_ok, "", node=f.node,
           fn=f, clause="labels", stmt="classify stack")
    wc = [c for c in calls_in(f) if isinstance(c.func, ast.Attribute) and c.func.attr == "with_columns"]
    # the classifier is run (run() returns self, checked in the classifier clause, so `clf = PcaClassifier(...).run()` is the same), and its labels -
    # the `_labels` field or the `labels` property that returns it - become one named column
    ok = False
    if len(wc) == 1 and stack_ok:
        for mk in (["$clf = PcaClassifier($stack, $model.mask, ...)", "$clf.run()"], ["$clf = PcaClassifier($stack, $model.mask, ...).run()"]):
            for lab in ("$clf._labels", "$clf.labels"):
                b2 = dict(b)
                if M.all_of(mk + ["$mole = self.molecules.copy()", f"$mole.features = $mole.features.with_columns(pl.Series(label_name, {lab}))"], b2)[0]:
                    ok = True
                    b.update(b2)
                    break
            if ok:
                break
    rep.ob("O", f.anchor, "exactly one column (the labels, in stack order) is added to the feature table", ok, norm_src(wc[0])[:90] if wc else "", node=f.node, fn=f,
           clause="labels", stmt="classify labels")
    cp = []
    okc = bool(ok) and M.all_of(["$new = self.replace(molecules=$mole)", "return ClassificationResult($new, $clf)"], b)[0]
    rep.ob("S18", f.anchor, "labels are attached to a copy of the molecules and the result goes through replace()", okc, norm_src(cp[0].value) if cp else "",
           node=f.node, fn=f, clause="labels", stmt="classify copy")
    ea = EffectAnalysis(model)
    effs = [e for e in ea.summary(f).effects if e.kind in ("store", "mutate") and e.root == "self"]
    rep.ob("S18", f.anchor, "classify does not modify the loader it is called on", not effs, "; ".join(e.describe() for e in effs[:2]),
           node=(effs[0].node if effs else f.node), fn=f, clause="labels", stmt=(None if effs else "classify pure"))
    clf = [c for c in calls_in(f) if (dotted(c.func) or "") == "PcaClassifier"]
    okk = len(clf) == 1 and bool(ok)
    # the options of classify reach the model whose masked_difference builds the stack
    mc = [c for c in calls_in(f) if (dotted(c.func) or "") == "ZNCCAlignment"]
    okopt = len(mc) == 1 and norm_src(kwarg(mc[0], "cutoff") or ast.Constant(None)) == "cutoff" and norm_src(kwarg(mc[0], "tilt") or ast.Constant(None)) == "tilt"
    rep.ob("SLOT", f.anchor, "cutoff and tilt given to classify reach the alignment model that computes the wedge-masked differences", okopt,
           norm_src(mc[0])[:100] if mc else "no ZNCCAlignment(...) call", node=(mc[0] if mc else f.node), fn=f, clause="labels", stmt="classify model options")
    for c_ in clf:
        swapped_argument_obligations(model, rep, f, c_, "classifier")
    rep.ob("SLOT", f.anchor, "the classifier is run on the difference stack with the model's mask", okk, "", node=f.node, fn=f, clause="labels", stmt="classify clf")
    # masked difference: same wedge and transform on both
    g = funcs.get("acryo/alignment/_base.py::TomographyInput.masked_difference")
    if g is not None:
        dom = HomogDomain(model)
        it = Interp(model, dom, depth=1)

        class _D(HomogDomain):
            pass

        def call_repo(interp, funcs_, bound, args, kwargs, node, _orig=dom.call_repo):
            names = {x.name for x in funcs_}
            if names & {"_get_template_and_mask_input"}:
                from ..absint import Tup
                return Tup([HP.atom(Lin("b", ("pre",)), True), HP.atom(Lin("mask"), True)])
            if names & {"pre_transform"}:
                return dom.lin_apply(args[0], "pre") if args and isinstance(args[0], HP) else _orig(interp, funcs_, bound, args, kwargs, node)
            return _orig(interp, funcs_, bound, args, kwargs, node)

        dom.call_repo = call_repo
        out = it.run(g, args={"image": HP.atom(Lin("a"), True), "backend": ExtRef("numpy")})
        rep.instance("S11.diff", g.loc())
        ok = None
        det = f"{out!r}"[:300]
        if isinstance(out, HP) and len(out.t) == 2:
            lins = []
            for m, c in out.t.items():
                if len(m) == 1 and isinstance(m[0][0], Lin):
                    lins.append((m[0][0], c))
            if len(lins) == 2:
                a_ = [l for l in lins if l[0].src == "a"]
                b_ = [l for l in lins if l[0].src == "b"]
                if a_ and b_:
                    tail_a = tuple(o for o in a_[0][0].ops if not (isinstance(o, tuple) and "mask" in str(o)))
                    ok = tail_a == b_[0][0].ops and a_[0][1] == 1 and b_[0][1] == -1
                    det = f"image: {a_[0][0]!r}; template: {b_[0][0]!r}"
        rep.ob("S11", g.anchor, "masked difference = ifftn(pre(image*mask)*mw).real - ifftn(template_ft*mw).real: both get the same wedge mask and transform", ok, det,
               node=g.node, fn=g, clause="labels", stmt="def masked_difference")


def check(model, rep, tier):
    rep.decided += ["C18 (narrow): centring dominates the SVD; transform subtracts mean_ and projects on components_.T; truncation to n_components; fit and transform use "
                    "the same masked flattened stack; classify builds the stack in molecule order, adds one label column to a copy and goes through replace"]
    rep.not_decided += ["equality with an exact SVD (numerical)", "cluster separation (statistical)", "sign of components"]
    funcs = need_funcs(model, rep, ANCHORS)
    svd_clause(model, rep, funcs)
    solver_clause(model, rep, funcs)
    classifier_clause(model, rep, funcs)
    labels_clause(model, rep, funcs)
