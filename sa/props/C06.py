"""C06 - rotation/template search returns the best candidate, correctly labelled (DESIGN 5, C06; rule S7 flat-index codec)."""
from __future__ import annotations

import ast

from ..cfg import CFG, backward_slice_names
from ..domains.affine import AffineDomain, BoolC, Poly
from ..absint import Interp
from ..repo import FuncInfo, calls_in, dotted, norm_src, walk_no_nested
from .common import kwarg, need_funcs
from .C03 import local_assignments

AB = "acryo/alignment/_base.py::"
ANCHORS = [AB + "RotationImplemented._get_template_and_mask_input", AB + "RotationImplemented.align", AB + "RotationImplemented.fit",
           AB + "RotationImplemented.niter", AB + "RotationImplemented._is_multiple", AB + "RotationImplemented.__init__",
           AB + "BaseAlignmentModel._optimize_multiple", AB + "BaseAlignmentModel.__init__", AB + "BaseAlignmentModel.align",
           "acryo/_rotation.py::normalize_rotations", "acryo/_rotation.py::_seq_of_max_and_step_to_quat",
           "acryo/loader/_base.py::LoaderBase.align_multi_templates", "acryo/loader/_base.py::LoaderBase._post_align_multi_templates",
           "acryo/loader/_group.py::LoaderGroup.align_multi_templates", "acryo/_dask.py::DaskTaskPool.add_task", "acryo/_dask.py::DaskTaskPool.add_tasks"]


def dimension_of(fn: FuncInfo, e: ast.expr, assigns, depth=0) -> str:
    """'R' if iterating ``e`` enumerates the searched rotations in order of self.quaternions, 'T' for the templates in order
    of self._template, 'RT' for a rotation-major/template-minor expansion, '?' otherwise."""
    if depth > 8:
        return "?"
    txt = norm_src(e)
    if txt in ("self.quaternions", "self._quaternions"):
        return "R"
    if txt in ("self._template", "self.template"):
        return "T"
    if isinstance(e, ast.Name):
        vals = assigns.get(e.id, [])
        res = {dimension_of(fn, v, assigns, depth + 1) for v in vals}
        if res == {"T", "T1"}:
            # `xs = list(self._template)` for several templates and `xs = [self._template]` for a single one, selected by a test on the template count:
            # in both cases iterating xs enumerates the T templates in order
            singles = [v for v in vals if dimension_of(fn, v, assigns, depth + 1) == "T1"]
            guarded = all(any(isinstance(i, ast.If) and "_n_templates" in norm_src(i.test) and any(x is v for x in ast.walk(i)) for i in walk_no_nested(fn.node))
                          for v in singles)
            return "T" if guarded else "?"
        return res.pop() if len(res) == 1 else "?"
    if isinstance(e, (ast.List, ast.Tuple)) and len(e.elts) == 1 and norm_src(e.elts[0]) in ("self._template", "self.template"):
        return "T1"
    if isinstance(e, ast.Subscript) and dimension_of(fn, e.value, assigns, depth + 1) == "R":
        # quaternions[arange(K*T) // T]: rotation k repeated T times consecutively (the same table as np.repeat(quaternions, T, axis=0))
        ix = e.slice
        if isinstance(ix, ast.Name):
            vals = assigns.get(ix.id, [])
            ix = vals[0] if len(vals) == 1 else ix
        if isinstance(ix, ast.BinOp) and isinstance(ix.op, ast.FloorDiv) and norm_src(ix.right) in ("self._n_templates", "n_templates", "ntmp") and \
                isinstance(ix.left, ast.Call) and (dotted(ix.left.func) or "").split(".")[-1] == "arange" and len(ix.left.args) == 1 and \
                norm_src(ix.left.args[0]) in ("self.niter", "self._n_rotations * self._n_templates", "self._n_templates * self._n_rotations", "len(self.quaternions) * self._n_templates"):
            return "RT"
        return "?"
    if isinstance(e, (ast.ListComp, ast.GeneratorExp)) and len(e.generators) == 1 and not e.generators[0].ifs:
        return dimension_of(fn, e.generators[0].iter, assigns, depth + 1)
    if isinstance(e, ast.Call):
        d = dotted(e.func) or ""
        last = d.split(".")[-1]
        if last == "compose_matrices" and len(e.args) >= 2:
            return dimension_of(fn, e.args[1], assigns, depth + 1)
        if last in ("list", "tuple", "asarray", "array", "stack", "atleast_2d", "enumerate") and e.args:
            return dimension_of(fn, e.args[0], assigns, depth + 1)
        if last == "repeat" and len(e.args) >= 2:
            inner = dimension_of(fn, e.args[0], assigns, depth + 1)
            rep_txt = norm_src(e.args[1])
            ax = kwarg(e, "axis")
            if inner == "R" and rep_txt in ("self._n_templates", "n_templates", "ntmp") and ax is not None and norm_src(ax) == "0":
                return "RT"  # each rotation repeated T times consecutively: rotation-major / template-minor
            return "?"
        if last == "tile":
            return "?"
    return "?"


def _from_stack_input(e: ast.expr, assigns) -> bool:
    """Is ``e`` a local bound (by unpacking) to the result of ``self._get_template_and_mask_input(...)`` (the K*T candidate stacks)?"""
    if not isinstance(e, ast.Name):
        return False
    vals = [v for v in assigns.get("*" + e.id, []) if not (isinstance(v, ast.List) and len(v.elts) == 1 and isinstance(v.elts[0], ast.Name) and v.elts[0].id == e.id)]
    return bool(vals) and all(isinstance(v, ast.Call) and isinstance(v.func, ast.Attribute) and v.func.attr == "_get_template_and_mask_input" for v in vals)


def _with_unpacks(fn: FuncInfo, assigns: dict) -> dict:
    """local_assignments plus, under the key '*name', the right-hand sides of tuple-unpacking assignments that bind ``name``."""
    out = dict(assigns)
    for n in walk_no_nested(fn.node):
        if isinstance(n, ast.Assign) and isinstance(n.targets[0], ast.Tuple):
            for t in n.targets[0].elts:
                if isinstance(t, ast.Name):
                    out.setdefault("*" + t.id, []).append(n.value)
    for k, v in assigns.items():
        if "*" + k in out:
            out["*" + k] = out["*" + k] + list(v)
    return out


def _is_raw_argmax(e: ast.expr, assigns) -> bool:
    """``e`` is (int of) a local bound to an arg-max call: the flat candidate index itself."""
    if isinstance(e, ast.Call) and dotted(e.func) == "int" and len(e.args) == 1:
        e = e.args[0]
    if not isinstance(e, ast.Name):
        return False
    vals = assigns.get(e.id, [])

    def am(v):
        if isinstance(v, ast.Call) and dotted(v.func) == "int" and len(v.args) == 1:
            v = v.args[0]
        return isinstance(v, ast.Call) and (dotted(v.func) or "").split(".")[-1] in ("argmax", "nanargmax")

    return bool(vals) and all(am(v) for v in vals)


def denotes_T(fn: FuncInfo, e: ast.expr, assigns) -> tuple[bool, str]:
    """Does ``e`` denote the number of templates T of the model built/used in ``fn``?"""
    txt = norm_src(e)
    if txt in ("self._n_templates", "model._n_templates"):
        return True, txt
    if isinstance(e, ast.Name):
        vals = assigns.get(e.id, [])
        real = [v for v in vals if not isinstance(v, ast.Constant)]  # literal initialisers before the loader loop are sentinels
        if real and all(denotes_T(fn, v, assigns)[0] for v in real):
            return True, f"{e.id} = {norm_src(real[-1])}"
        return False, f"{e.id} is bound to {[norm_src(v)[:40] for v in vals]}"
    if isinstance(e, ast.Call) and dotted(e.func) == "len" and len(e.args) == 1:
        a = e.args[0]
        if isinstance(a, ast.Name):
            # the very sequence handed to the model constructor as template=
            handed = False
            for c in calls_in(fn):
                tv = kwarg(c, "template")
                if tv is None and c.args and (dotted(c.func) or "").endswith("alignment_model"):
                    tv = c.args[0]
                if tv is not None:
                    if isinstance(tv, ast.Name) and tv.id == a.id:
                        handed = True
                    if isinstance(tv, (ast.ListComp, ast.GeneratorExp)) and len(tv.generators) == 1 and norm_src(tv.generators[0].iter) == a.id \
                            and not tv.generators[0].ifs:
                        handed = True
            if a.id in fn.param_names():
                p = [x for x in fn.params() if x.arg == a.id][0]
                ann = norm_src(p.annotation) if p.annotation is not None else ""
                if "Mapping" in ann or "dict" in ann:
                    return False, f"`{a.id}` is a parameter that may be a Mapping (key -> templates): len() counts keys, not templates"
            if handed:
                return True, f"len of `{a.id}`, the sequence handed to the model as template="
            return False, f"`{a.id}` is not the sequence handed to the model constructor"
    return False, txt


# --------------------------------------------------------------------------- encoder
def encoder_clause(model, rep, funcs):
    f = funcs.get(AB + "RotationImplemented._get_template_and_mask_input")
    if f is None:
        return
    assigns = local_assignments(f)
    found = 0
    for outer in walk_no_nested(f.node):
        if not isinstance(outer, ast.For):
            continue
        if any(isinstance(p, ast.For) and p is not outer and any(x is outer for x in ast.walk(p)) for p in walk_no_nested(f.node)):
            continue  # not outermost
        adds = [c for c in ast.walk(outer) if isinstance(c, ast.Call) and isinstance(c.func, ast.Attribute) and c.func.attr in ("add_task", "add_tasks")]
        if not adds:
            continue
        od = dimension_of(f, outer.iter, assigns)
        inner_loops = [x for x in ast.walk(outer) if isinstance(x, ast.For) and x is not outer]
        pools = {}
        for c in adds:
            pool = dotted(c.func.value)
            inner = [lp for lp in inner_loops if any(x is c for x in ast.walk(lp))]
            if inner:
                idim = dimension_of(f, inner[0].iter, assigns)
                layout = (od, idim)
            elif c.func.attr == "add_tasks":
                dup = c.args[0] if c.args else None
                ok_t, why = denotes_T(f, dup, assigns) if dup is not None else (False, "")
                if not ok_t and isinstance(dup, ast.Call) and dotted(dup.func) == "len" and dup.args and dimension_of(f, dup.args[0], assigns) == "T":
                    ok_t = True  # the count written in place: add_tasks(len(templates), ...)
                if not ok_t and isinstance(dup, ast.Name):
                    vals = assigns.get(dup.id, [])
                    ok_t = any(isinstance(v, ast.Call) and dotted(v.func) == "len" and v.args and dimension_of(f, v.args[0], assigns) == "T" for v in vals)
                layout = (od, "T" if ok_t else "?")
            else:
                layout = (od, "1")
            pools.setdefault(pool, []).append((layout, c))
        if od == "?" and not pools:
            continue
        found += 1
        rep.instance("S7.encoder", f.loc(outer))
        layouts = {p: [l for l, _ in v] for p, v in pools.items()}
        flat = {p: set(v) for p, v in layouts.items()}
        # every pool of the nest must be rotation-major; pools in one nest must agree
        kinds = set()
        for p, ls in flat.items():
            kinds |= ls
        ok = (od == "R" and all(k in (("R", "T"), ("R", "1")) for k in kinds) and len(kinds) == 1) or kinds == {("T", "1")}
        det = f"outer loop over {norm_src(outer.iter)} = {od}; pools: " + "; ".join(f"{p}: {sorted(v)}" for p, v in flat.items())
        rep.ob("S7", f.anchor, "candidate stack is rotation-major / template-minor (flat = k*T + j) and the mask stack replicates with the same nest",
               ok, det, node=outer, fn=f, clause="1 encoder", stmt=f"for {norm_src(outer.target)} in {norm_src(outer.iter)} (task nest)")
    rep.floor("S7.encoder", 2, "(rotation x templates nest, rotation-only nest)")
    # no-rotation branch: stack over self._template only
    stacks = [c for c in calls_in(f) if isinstance(c.func, ast.Attribute) and c.func.attr == "stack"]
    rep.stats["encoder_stacks"] = len(stacks)


# --------------------------------------------------------------------------- argmax
def argmax_clause(model, rep, funcs):
    f = funcs.get(AB + "BaseAlignmentModel._optimize_multiple")
    if f is None:
        return
    loops = [n for n in walk_no_nested(f.node) if isinstance(n, ast.For)]
    rep.instance("S7.argmax", f.loc())
    ok = len(loops) == 1
    det = []
    if ok:
        lp = loops[0]
        it = lp.iter
        z = isinstance(it, ast.Call) and dotted(it.func) == "zip" and [norm_src(a) for a in it.args] == ["template_list", "mask_list"]
        if not z:
            ok = False
            det.append(f"candidates are enumerated by `{norm_src(it)}` instead of zip(template_list, mask_list)")
        apps = [c for c in ast.walk(lp) if isinstance(c, ast.Call) and isinstance(c.func, ast.Attribute) and c.func.attr == "append"]
        lists = sorted({dotted(c.func.value) for c in apps})
        conditional = [c for c in apps if any(isinstance(x, (ast.If, ast.For, ast.While)) and x is not lp and any(y is c for y in ast.walk(x)) for x in ast.walk(lp))]
        if len(lists) < 3 or conditional:
            ok = False
            det.append(f"per-candidate lists {lists}; conditional appends: {len(conditional)}")
    rets = [n for n in walk_no_nested(f.node) if isinstance(n, ast.Return) and n.value is not None]
    assigns = local_assignments(f)
    am = [c for c in calls_in(f) if (dotted(c.func) or "").split(".")[-1] in ("argmax", "argmin", "nanargmax")]
    if len(am) != 1 or (dotted(am[0].func) or "").split(".")[-1] not in ("argmax", "nanargmax"):
        ok = False
        det.append(f"selection by {[norm_src(c)[:40] for c in am]} (arg-max of the score list required)")
    else:
        arg = norm_src(am[0].args[0]) if am[0].args else ""
        if "score" not in arg:
            ok = False
            det.append(f"argmax is taken over `{arg}`")
    for r in rets:
        c = r.value
        if isinstance(c, ast.Call) and (dotted(c.func) or "").endswith("AlignmentResult"):
            args = [norm_src(a) for a in c.args] + [norm_src(k.value) for k in c.keywords]
            idx = args[0] if args else ""
            subs = [a for a in list(c.args[1:]) + [k.value for k in c.keywords][max(0, 1 - len(c.args)):] if isinstance(a, ast.Subscript)]  # positional or by keyword
            if len(subs) != 3 or any(norm_src(s.slice) != idx for s in subs):
                ok = False
                det.append(f"result fields are not all taken at the arg-max index: {args}")
    if not ok:
        # equivalent formulation: one list of per-candidate result tuples, scores read from it, every field taken from element arg-max
        from ..match import Matcher
        MO = Matcher(f)
        bo: dict = {}
        alt, _why = MO.all_of(["$res = [self._optimize($$x, ...) for $t, $m in zip(template_list, mask_list)]", "$i = int(np.argmax($$sc))",
                               "return AlignmentResult($i, $res[$i][0], $res[$i][1], $res[$i][2])"], bo)
        if alt:
            e = MO._exp.canon(bo["sc"][1])
            rx = MO._exp.canon(bo["res"][1])
            if isinstance(e, (ast.ListComp, ast.GeneratorExp)) and len(e.generators) == 1 and ast.dump(e.generators[0].iter) == ast.dump(rx) and \
                    isinstance(e.elt, ast.Subscript) and isinstance(e.elt.slice, ast.Constant) and e.elt.slice.value == 2 and \
                    isinstance(e.elt.value, ast.Call) and isinstance(e.elt.value.func, ast.Name) and e.elt.value.func.id == "__elem__" and \
                    ast.dump(e.elt.value.args[0]) == ast.dump(rx):
                ok, det = True, []
    rep.ob("S7", f.anchor, "one score per (template, mask) candidate of the full stacks; the result is the arg-max and all its fields come from that candidate",
           ok, "; ".join(det), node=f.node, fn=f, clause="2 argmax", stmt="def _optimize_multiple")


# --------------------------------------------------------------------------- decoders
def decoder_clause(model, rep, funcs):
    # (a) RotationImplemented.align : rotation = flat // T
    f = funcs.get(AB + "RotationImplemented.align")
    if f is not None:
        assigns = local_assignments(f)
        subs = [n for n in walk_no_nested(f.node) if isinstance(n, ast.Subscript) and norm_src(n.value) in ("self.quaternions",)]
        rep.instance("S7.decode", f.loc())
        if not subs:
            rep.ob("S7", f.anchor, "the reported rotation is self.quaternions[<decoded rotation index>]", None, "no subscript of self.quaternions",
                   node=f.node, fn=f, clause="3 decoders", stmt="def align (RotationImplemented)")
        for s in subs:
            ok, det = _is_major_decode(f, s.slice, assigns)
            rep.ob("S7", f.anchor, "rotation index is decoded from the flat candidate index as flat // T (rotation-major encoding)", ok, det, node=s,
                   fn=f, clause="3 decoders")
    # (b) RotationImplemented.fit
    f = funcs.get(AB + "RotationImplemented.fit")
    if f is not None:
        assigns = _with_unpacks(f, local_assignments(f))
        rep.instance("S7.decode", f.loc())
        loops = [n for n in walk_no_nested(f.node) if isinstance(n, ast.For) and isinstance(n.iter, ast.Call) and dotted(n.iter.func) == "zip"]
        ok = None
        det = "no zip loop over candidates"
        for lp in loops:
            dims = [dimension_of(f, a, assigns) for a in lp.iter.args]
            names = [norm_src(a) for a in lp.iter.args]
            # stacks returned by _get_template_and_mask_input have K*T entries
            full = ["RT" if _from_stack_input(a_, assigns) else d for a_, d in zip(lp.iter.args, dims)]
            if all(d == "RT" for d in full):
                ok, det = True, f"zip over {names}: all of length K*T"
            else:
                ok = False
                det = (f"zip({', '.join(names)}) pairs sequences of different lengths/meanings {full}: the candidate stacks have K*T entries "
                       f"(rotation-major) but `{names[0]}` has {'K' if full[0] == 'R' else full[0]} - only the first K candidates are tried and "
                       f"rotation k is paired with candidate k")
        rep.ob("S7", f.anchor, "fit() evaluates every (rotation, template) candidate with its own rotation (zip over equal-length, same-layout sequences)",
               ok, det, node=(loops[0] if loops else f.node), fn=f, clause="2 argmax", stmt="fit candidate loop")
        # reported quaternion and label
        for c in calls_in(f):
            if (dotted(c.func) or "").endswith("AlignmentResult"):
                q = kwarg(c, "quat")
                lab = kwarg(c, "label")
                if q is not None and isinstance(q, ast.Subscript):
                    base_dim = dimension_of(f, q.value, assigns)
                    if base_dim == "RT":
                        okq, detq = _is_raw_argmax(q.slice, assigns), f"{norm_src(q)} on the K*T expansion"
                    else:
                        okq, detq = _is_major_decode(f, q.slice, assigns)
                        if base_dim != "R":
                            okq, detq = None, f"quat = {norm_src(q)}"
                    rep.ob("S7", f.anchor, "fit() reports the rotation of the arg-max candidate", okq, detq, node=q, fn=f, clause="3 decoders")
                if lab is not None:
                    okl = not isinstance(lab, ast.Constant)
                    rep.ob("S7", f.anchor, "fit() reports the arg-max candidate index as label (not a constant)", okl,
                           f"label={norm_src(lab)}" + ("" if okl else ": with several templates the label never identifies the winning template"),
                           node=lab, fn=f, clause="3 decoders", stmt="fit label=" + norm_src(lab))
    # (c) _post_align_multi_templates: label = flat % remainder on every path where remainder >= 1
    f = funcs.get("acryo/loader/_base.py::LoaderBase._post_align_multi_templates")
    if f is not None:
        rep.instance("S7.decode", f.loc())
        mods = [n for n in walk_no_nested(f.node) if (isinstance(n, ast.AugAssign) and isinstance(n.op, ast.Mod)) or
                (isinstance(n, ast.BinOp) and isinstance(n.op, ast.Mod))]
        lab_mods = [n for n in mods if "labels" in norm_src(n)]
        if not lab_mods:
            other = [n for n in walk_no_nested(f.node) if ((isinstance(n, ast.AugAssign) and isinstance(n.op, (ast.FloorDiv, ast.Div))) or
                     (isinstance(n, ast.BinOp) and isinstance(n.op, (ast.FloorDiv, ast.Div)))) and "labels" in norm_src(n) and "remainder" in norm_src(n)]
            rep.ob("S7", f.anchor, "template label is decoded as flat % T", False if other else None,
                   (f"`{norm_src(other[0])}` decodes the template with a division: flat = k*T + j gives the template as flat % T" if other else "no modulo on labels"),
                   node=(other[0] if other else f.node), fn=f, clause="3 decoders", stmt=(None if other else "def _post_align_multi_templates"))
        for n in lab_mods:
            modulus = n.value if isinstance(n, ast.AugAssign) else n.right
            okm = norm_src(modulus) == "remainder"
            # guard analysis: the modulo must execute whenever remainder >= 1
            guard = None
            for g in walk_no_nested(f.node):
                if isinstance(g, ast.If) and any(x is n for st in g.body for x in ast.walk(st)):
                    guard = g
            okg, detg = True, "unconditional"
            if guard is not None:
                dom = AffineDomain(model, integer_syms={"remainder"})
                it = Interp(model, dom, depth=0)
                v = it.eval(guard.test, {"remainder": dom.sym("remainder")}, f)
                detg = f"guard `{norm_src(guard.test)}`"
                if isinstance(v, BoolC) and v.diff.is_poly():
                    # guard must hold for all remainder >= 1: refute (remainder >= 1 and not guard)
                    neg = v.negate()
                    w = dom.witness(Poly.const(-1), [neg, BoolC(dom.add(dom.sym("remainder"), dom.const(None, -1, None)), ">=")], rng=range(-2, 6))
                    if w is not None:
                        okg = False
                        detg += f" is false for {w}: with T templates = {w.get('remainder')} and several rotations the label keeps the flat index k*T+j"
                else:
                    okg = None
            rep.ob("S7", f.anchor, "label = flat % T is applied on every path on which the rotation count may exceed 1 (sentinel guard true for all T >= 1)",
                   okm and okg if (okg is not None) else None, detg + ("" if okm else f"; modulus is `{norm_src(modulus)}`"), node=n, fn=f,
                   clause="3 decoders")
    # (d) callers: what is passed as remainder denotes T
    for a, recv in (("acryo/loader/_base.py::LoaderBase.align_multi_templates", "self"), ("acryo/loader/_group.py::LoaderGroup.align_multi_templates", "loader")):
        f = funcs.get(a)
        if f is None:
            continue
        assigns = local_assignments(f)
        calls = [c for c in calls_in(f) if isinstance(c.func, ast.Attribute) and c.func.attr == "_post_align_multi_templates"]
        for c in calls:
            rem = c.args[2] if len(c.args) > 2 else kwarg(c, "remainder")
            rep.instance("S7.decode", f.loc(c))
            if rem is None:
                rep.ob("S7", a, "the template count is handed to the write-back", False, "remainder is not passed: labels are never decoded", node=c, fn=f,
                       clause="3 decoders")
                continue
            vals = assigns.get(rem.id, []) if isinstance(rem, ast.Name) else [rem]
            pos = [v for v in vals if not (isinstance(v, ast.UnaryOp) or (isinstance(v, ast.Constant) and isinstance(v.value, int) and v.value < 0))]
            if not pos:
                rep.ob("S7", a, "the modulus handed to the write-back denotes the template count T", False, f"remainder is always a sentinel: {[norm_src(v) for v in vals]}",
                       node=c, fn=f, clause="3 decoders")
            for v in pos:
                ok, why = denotes_T(f, v, assigns)
                rep.ob("S7", a, "the modulus handed to the label decoder denotes the template count T of the model that produced the flat index",
                       ok, why, node=v, fn=f, clause="3 decoders")
            # the sentinel branch is taken only when the model has a single rotation
            conds = [g for g in walk_no_nested(f.node) if isinstance(g, ast.If) and isinstance(rem, ast.Name) and
                     any(isinstance(st, ast.Assign) and any(isinstance(t, ast.Name) and t.id == rem.id for t in st.targets) for st in g.body + g.orelse)]
            for g in conds:
                names = backward_slice_names(f.node, g.test)
                txt = norm_src(g.test)
                okc = ("_n_rotations" in txt or "has_rotation" in txt or any(("has_rotation" in norm_src(x) or "_n_rotations" in norm_src(x)) for n_ in names for x in assigns.get(n_, [])))
                detc = f"condition `{txt}`"
                if okc:
                    # every conjunct of the condition must follow from "several rotations": a conjunct on the number of templates skips the decode for one
                    # template searched at K > 1 rotations (the flat index k*T + j = k is then written as the label)
                    tx = g.test
                    if isinstance(tx, ast.Name) and len(assigns.get(tx.id, [])) == 1:
                        tx = assigns[tx.id][0]
                    conj = tx.values if isinstance(tx, ast.BoolOp) and isinstance(tx.op, ast.And) else [tx]
                    for cj in conj:
                        if isinstance(cj, ast.Name) and len(assigns.get(cj.id, [])) == 1:
                            cj = assigns[cj.id][0]
                        ct = norm_src(cj)
                        if ("template" in ct.lower()) and not ("rotation" in ct.lower()):
                            okc = False
                            detc = (f"condition `{txt}`: the conjunct `{ct}` skips the decode when one template is searched at several rotations - the label is "
                                    f"then the raw candidate index k*T + j")
                rep.ob("S7", a, "the decode is selected by the model's rotation count", okc, detc, node=g.test, fn=f, clause="3 decoders")


def _is_major_decode(fn, idx: ast.expr, assigns):
    """idx == flat // T  (or divmod(flat, T)[0])"""
    e = idx
    if isinstance(e, ast.Name):
        vals = assigns.get(e.id, [])
        if len(vals) == 1:
            e = vals[0]
    if isinstance(e, ast.Call) and dotted(e.func) == "int" and e.args:
        e = e.args[0]
    if isinstance(e, ast.BinOp) and isinstance(e.op, ast.FloorDiv):
        ok, why = denotes_T(fn, e.right, assigns)
        if ok:
            return True, f"{norm_src(e)}"
        return False, f"`{norm_src(e)}`: divisor does not denote the template count ({why})"
    if isinstance(e, ast.BinOp) and isinstance(e.op, ast.Mod):
        return False, (f"`{norm_src(e)}` decodes the rotation with a modulo: with rotation-major encoding flat = k*T + j the rotation is "
                       f"flat // T; e.g. T=2, K=3, (j=0,k=1) -> flat 2 -> rotation 2 instead of 1")
    if isinstance(e, ast.Subscript) and isinstance(e.value, ast.Call) and dotted(e.value.func) == "divmod":
        k = norm_src(e.slice)
        ok, why = denotes_T(fn, e.value.args[1], assigns) if len(e.value.args) == 2 else (False, "")
        return (ok and k == "0"), f"{norm_src(e)}"
    if isinstance(e, ast.Name):
        # name unpacked from divmod
        for n in walk_no_nested(fn.node):
            if isinstance(n, ast.Assign) and isinstance(n.targets[0], ast.Tuple) and isinstance(n.value, ast.Call) and dotted(n.value.func) == "divmod":
                names = [norm_src(x) for x in n.targets[0].elts]
                if e.id in names and len(n.value.args) == 2:
                    ok, why = denotes_T(fn, n.value.args[1], assigns)
                    return (ok and names.index(e.id) == 0), f"{e.id} from {norm_src(n)}"
        return None, f"index `{e.id}` is the raw flat index" if _is_raw_argmax(e, assigns) else f"index `{e.id}`"
    return None, f"index `{norm_src(e)}`"


# --------------------------------------------------------------------------- clause 4: normalize_rotations rank
def rank_clause(model, rep, funcs):
    f = funcs.get("acryo/_rotation.py::normalize_rotations")
    if f is None:
        return
    assigns = local_assignments(f)
    rotation_object_case(model, rep, f)
    rets = [n for n in walk_no_nested(f.node) if isinstance(n, ast.Return) and n.value is not None]
    retnames = {r.value.id for r in rets if isinstance(r.value, ast.Name)}
    yielded = [(n, n.value) for n in walk_no_nested(f.node) if isinstance(n, ast.Assign) and isinstance(n.targets[0], ast.Name) and n.targets[0].id in retnames]
    yielded += [(r, r.value) for r in rets if not isinstance(r.value, ast.Name)]  # `return <array>` on the path itself instead of `quats = <array>` ... `return quats`
    for n, v in yielded:
        rep.instance("A.rank", f.loc(n))
        ok, det = _rank2(v)
        rep.ob("A", f.anchor, "every path of normalize_rotations yields an (N, 4) array (rank 2), in the order of its input", ok, det, node=n, fn=f,
               clause="4 rotation set")
    rep.floor("A.rank", 3, "(Rotation / list of Rotation or ranges / None paths)")
    for r in rets:
        okr = (isinstance(r.value, ast.Name) and r.value.id in assigns) or _rank2(r.value)[0]
        rep.ob("A", f.anchor, "normalize_rotations returns the normalised array", bool(okr), norm_src(r.value), node=r, fn=f, clause="4 rotation set")
    # RotationImplemented.__init__ takes N from shape[0]
    g = funcs.get(AB + "RotationImplemented.__init__")
    if g is not None:
        src = norm_src(g.node)
        ok = "self._n_rotations = self.quaternions.shape[0]" in src or "len(self.quaternions)" in src
        rep.instance("A.rank", g.loc())
        rep.ob("A", g.anchor, "the rotation count is the first dimension of the normalised (N, 4) array", ok, "", node=g.node, fn=g, clause="4 rotation set",
               stmt="def __init__ n_rotations")


def _rank2(v: ast.expr):
    """(ok, why): is the expression a rank-2 (N,4) array for every admissible input?"""
    txt = norm_src(v)
    if isinstance(v, ast.Call):
        last = (dotted(v.func) or "").split(".")[-1]
        if last in ("atleast_2d",):
            return True, "np.atleast_2d(...)"
        if last in ("stack", "vstack") :
            return True, f"{last}([...]) of (4,) rows"
        if last == "_seq_of_max_and_step_to_quat":
            return True, "stack of candidates"
        if last in ("array", "asarray") and v.args and isinstance(v.args[0], ast.List) and v.args[0].elts and isinstance(v.args[0].elts[0], ast.List):
            return True, "literal [[...]]"
        if last == "reshape" and ("-1, 4" in txt or "(-1, 4)" in txt):
            return True, "reshape(-1, 4)"
        if last in ("astype", "copy") and isinstance(v.func, ast.Attribute):
            return _rank2(v.func.value)
        if last == "as_quat":
            return False, (f"`{txt}`: as_quat() of a single (non-stacked) Rotation is a (4,) vector; quaternions.shape[0] then reads 4 "
                           "rotations and indexing fails - wrap in np.atleast_2d")
    return None, txt


def rotation_object_case(model, rep, f):
    """Type case `rotations` is a scipy Rotation (which may hold K rotations): evaluated on symbolic terms with isinstance(rotations, Rotation) assumed.  The (K, 4)
    table of as_quat() must be returned as it is (np.atleast_2d for K = 1); stacking it as if it were one row of a list gives (1, K, 4) - the model then sees one
    candidate and never rotates the template."""
    from ..absint import Interp as _I
    from ..domains.terms import T, TermDomain, callee_name, strip, subterms
    dom = TermDomain(assume_isinstance={"rotations": "Rotation"}, summarise=("_seq_of_max_and_step_to_quat",))
    it = _I(model, dom, depth=0)
    pn = f.param_names()[0] if f.param_names() else "rotations"
    dom.assume_isinstance = {pn: "Rotation"}
    try:
        out = it.run(f, args={pn: T("param", (pn,))})
    except Exception as e:  # pragma: no cover
        rep.note(f"normalize_rotations could not be evaluated on terms ({e!r})")
        return
    core = strip(out, ext_wrappers=("asarray", "astype", "ascontiguousarray", "copy"))
    if not isinstance(core, T):
        return
    nm = callee_name(core)
    quat_of_param = any(s_.op == "call" and callee_name(s_) == "as_quat" and isinstance(s_.args[0], T) and s_.args[0].op == "attr" and
                        isinstance(s_.args[0].args[0], T) and s_.args[0].args[0].op == "param" for s_ in subterms(core))
    rep.instance("A.rank", f.loc() + " [Rotation object]")
    if nm in ("atleast_2d", "reshape") and quat_of_param:
        rep.ob("A", f.anchor, "a Rotation object (K >= 1 rotations) is returned as its (K, 4) quaternion table", True, "", node=f.node, fn=f, clause="4 rotation set",
               stmt="Rotation object case")
    elif nm in ("stack", "vstack", "array", "concatenate") and any(s_.op == "elem" for s_ in subterms(core)):
        rep.ob("A", f.anchor, "a Rotation object (K >= 1 rotations) is returned as its (K, 4) quaternion table", False,
               f"with `{pn}` a Rotation object the result is `{core!r}`"[:300] + ": the object is treated as one row of a list, a Rotation holding K rotations becomes "
               "(1, K, 4) instead of (K, 4)", node=f.node, fn=f, clause="4 rotation set", stmt="Rotation object case")
    else:
        rep.note(f"Rotation object case of normalize_rotations evaluates to {core!r}: not classified")


# --------------------------------------------------------------------------- clause 5: width of the label column, rotation-range convention, option forwarding
def misc_clause(model, rep, funcs):
    from ..match import Matcher
    f = funcs.get("acryo/loader/_base.py::LoaderBase._post_align_multi_templates")
    if f is not None:
        # the flat candidate index (up to K*T - 1) is reduced modulo T before it is narrowed to 8 bits
        cfg = CFG(f.node)
        narrow = [n for n in cfg.nodes if n.kind == "stmt" and isinstance(n.node, ast.Assign) and isinstance(n.node.value, ast.Call) and
                  isinstance(n.node.value.func, ast.Attribute) and n.node.value.func.attr == "astype" and "uint8" in norm_src(n.node.value)]
        rep.instance("S7.decode", f.loc())
        for nn in narrow:
            later_mod = [m for m in cfg.nodes if m.kind == "stmt" and ((isinstance(m.node, ast.AugAssign) and isinstance(m.node.op, ast.Mod)) or
                         (isinstance(m.node, ast.Assign) and isinstance(m.node.value, ast.BinOp) and isinstance(m.node.value.op, ast.Mod)))
                         and m.lineno > nn.lineno]
            rep.ob("S7", f.anchor, "the flat candidate index is reduced modulo T before it is narrowed to uint8 (K*T may exceed 255)", not later_mod,
                   f"`{norm_src(nn.node)}` precedes `{norm_src(later_mod[0].node)}`: indices >= 256 wrap before the modulo, the label is wrong whenever T does not divide 256"
                   if later_mod else "", node=nn.node, fn=f, clause="3 decoders")
    try:
        g = model.func("acryo/_rotation.py::_seq_of_max_and_step_to_quat")
    except Exception:
        g = None
    if g is not None:
        if angle_grid_obligations(model, rep, g, "4 rotation set") == 0:
            rep.note("angle grid: no np.linspace(a, b, count) inside a loop over (max, step) pairs - the grid rule was not applied")
        rep.instance("A.rank", g.loc())
        ok = Matcher(g).has("from_euler_xyz_coords(np.array($a), 'zyx', degrees=True)")
        rep.ob("TABLE", g.anchor, "(max, step) ranges are given for the z, y, x axes in that order: the candidates are built by the zyx-coordinate Euler reader", ok,
               "" if ok else "the ranges no longer go through from_euler_xyz_coords(angs, 'zyx', degrees=True): the first range rotates about another axis than z",
               node=g.node, fn=g, clause="4 rotation set", stmt="def _seq_of_max_and_step_to_quat convention")


def angle_grid_obligations(model, rep, g, clause):
    """A (max, step) range means the rotations k * step for |k * step| <= max (the documented meaning; it always contains 0, the identity).  The grid passed to
    np.linspace(a, b, c) is therefore symmetric (a + b == 0) with spacing (b - a) / (c - 1) == step - decided on the affine forms of a, b, c."""
    from fractions import Fraction
    from ..domains.affine import A as _A
    n = 0
    for lp in walk_no_nested(g.node):
        if not (isinstance(lp, ast.For) and isinstance(lp.target, ast.Tuple) and len(lp.target.elts) == 2 and all(isinstance(e, ast.Name) for e in lp.target.elts)):
            continue
        mx, st = (e.id for e in lp.target.elts)
        # np.arange(a, b, s): the grid a + k*s contains 0 (the identity) and consists of multiples of step only if s == step and a is an integer multiple of it
        for c in [c for c in ast.walk(lp) if isinstance(c, ast.Call) and (dotted(c.func) or "").rsplit(".", 1)[-1] == "arange" and len(c.args) == 3]:
            n += 1
            rep.instance("A.grid", g.loc(c))
            dom = AffineDomain(model, positive_syms={st}, nonneg_syms={mx})
            it = Interp(model, dom, depth=0)
            env = {mx: dom.sym(mx), st: dom.sym(st)}
            for s_ in ast.walk(lp):
                if isinstance(s_, ast.Assign) and len(s_.targets) == 1 and isinstance(s_.targets[0], ast.Name) and s_.lineno < c.lineno:
                    try:
                        env[s_.targets[0].id] = it.eval(s_.value, env, g)
                    except Exception:
                        pass
            try:
                a, b, sp = (it.eval(x, env, g) for x in c.args)
            except Exception:
                a = b = sp = None
            if not all(isinstance(x, _A) for x in (a, b, sp)):
                rep.ob("A", g.anchor, "the angle grid of a (max, step) range is evaluated symbolically", None, f"`{norm_src(c)}`", node=c, fn=g, clause=clause,
                       stmt="angle grid")
                continue
            ok_s = dom.proves_equal(sp, dom.sym(st))
            ratio = dom.div(a, dom.sym(st))
            ok_a = ratio is not None and isinstance(ratio, _A) and dom.is_integer(ratio)
            det = ""
            if not (ok_s and ok_a):
                w = None
                for mv, sv in ((Fraction(20), Fraction(15)), (Fraction(5, 2), Fraction(1)), (Fraction(7), Fraction(2))):
                    asg = {mx: mv, st: sv}
                    av, spv = dom.eval_form(a, asg), dom.eval_form(sp, asg)
                    if av is not None and spv is not None and (spv != sv or (av / sv).denominator != 1):
                        w = (float(mv), float(sv), float(av))
                        break
                det = f"`{norm_src(c)}`" + (f": for (max, step) = ({w[0]}, {w[1]}) the grid starts at {w[2]} - it misses 0 (the identity) and the multiples of step"
                                            if w else ": start is not provably an integer multiple of step")
                verdict = False if w else None
            else:
                verdict = True
            rep.ob("A", g.anchor, "(max, step) range: the candidate angles are the multiples of step within +-max - the arange grid starts at an integer multiple "
                   "of step and advances by step", verdict, det, node=c, fn=g, clause=clause, stmt="angle grid arange")
        lins = [c for c in ast.walk(lp) if isinstance(c, ast.Call) and (dotted(c.func) or "").rsplit(".", 1)[-1] == "linspace" and len(c.args) >= 3]
        for c in lins:
            n += 1
            rep.instance("A.grid", g.loc(c))
            dom = AffineDomain(model, positive_syms={st}, nonneg_syms={mx})
            it = Interp(model, dom, depth=0)
            env = {mx: dom.sym(mx), st: dom.sym(st)}
            # straight-line definitions that precede the call in its block
            for blk in ast.walk(lp):
                body = getattr(blk, "body", None)
                for seq in (body, getattr(blk, "orelse", None)):
                    if isinstance(seq, list) and any(any(x is c for x in ast.walk(s_)) for s_ in seq):
                        for s_ in seq:
                            if any(x is c for x in ast.walk(s_)):
                                break
                            if isinstance(s_, ast.Assign) and len(s_.targets) == 1 and isinstance(s_.targets[0], ast.Name):
                                try:
                                    env[s_.targets[0].id] = it.eval(s_.value, env, g)
                                except Exception:
                                    pass
            try:
                a, b, cnt = (it.eval(x, env, g) for x in c.args[:3])
            except Exception:
                a = b = cnt = None
            if not all(isinstance(x, _A) for x in (a, b, cnt)):
                rep.ob("A", g.anchor, "the angle grid of a (max, step) range is evaluated symbolically", None, f"`{norm_src(c)}`", node=c, fn=g, clause=clause,
                       stmt="angle grid")
                continue
            stp = dom.sym(st)
            span = dom.add(b, dom.neg(a))
            want = _A(stp.num * dom.add(cnt, dom.const(None, -1, None)).num, stp.den * cnt.den)
            for what, lhs, rhs in (("spacing (b - a) == step * (count - 1)", span, want), ("symmetric about the identity: a + b == 0", dom.add(a, b), dom.const(None, 0, None))):
                ok = dom.proves_equal(lhs, rhs)
                det = ""
                if not ok:
                    diff = dom.add(lhs, dom.neg(rhs))
                    w = dom.find_witness(diff, (), tol=Fraction(1, 1000)) or dom.find_witness(dom.neg(diff), (), tol=Fraction(1, 1000))
                    ok, det = (False, f"`{norm_src(c)}`: for {w[0]} the two sides differ by {abs(w[1]):.3f} degrees - the searched angles are not the multiples of "
                               f"`{st}`") if w is not None else (None, f"cannot prove it for `{norm_src(c)}`")
                rep.ob("A", g.anchor, f"(max, step) range: the candidate angles are the multiples of step within +-max - {what}", ok, det, node=c, fn=g,
                       clause=clause, stmt=f"angle grid {what.split()[0]}")
    return n


def forwarding_obligations(model, rep, fn, clause):
    """A function that collects options in **kw and delegates to a sibling entry point must forward **kw (otherwise rotations / cutoff / tilt are silently dropped)."""
    kw = fn.node.args.kwarg.arg if fn.node.args.kwarg is not None else None
    if kw is None:
        return 0
    n = 0
    for c in calls_in(fn):
        if isinstance(c.func, ast.Attribute) and isinstance(c.func.value, ast.Name) and c.func.value.id == "self" and \
                c.func.attr in ("align", "align_multi_templates", "align_no_template", "construct_landscape", "score", "classify"):
            n += 1
            rep.instance("FWD", fn.loc(c))
            ok = any(k.arg is None and isinstance(k.value, ast.Name) and k.value.id == kw for k in c.keywords)
            rep.ob("FWD", fn.anchor, f"the delegating call `self.{c.func.attr}(...)` forwards **{kw} (rotations, cutoff, tilt, ... reach the model)", ok,
                   "" if ok else f"`{norm_src(c)[:80]}` drops **{kw}: the delegated alignment runs with default options (identity rotation only)", node=c, fn=fn, clause=clause)
    return n


def check(model, rep, tier):
    rep.decided += ["C06.1 candidate encoding is rotation-major/template-minor for templates and masks", "C06.2 arg-max over one score per candidate; equal-length zips",
                    "C06.3 every decoder uses flat // T for the rotation and flat % T for the template with T of the same model, on every path where K > 1 may hold",
                    "C06.4 normalize_rotations yields rank-2 (N,4) on every path"]
    rep.not_decided += ["that the best-scoring candidate is the planted one (numerical)"]
    rep.assumptions += ["AlignmentResult.label at model level is the flat candidate index; loaders decode it"]
    funcs = need_funcs(model, rep, ANCHORS)
    encoder_clause(model, rep, funcs)
    argmax_clause(model, rep, funcs)
    decoder_clause(model, rep, funcs)
    rank_clause(model, rep, funcs)
    misc_clause(model, rep, funcs)
    # the multi-template write-back reports the winning shift in the frame it was measured in (pose frames, rule shared with C01)
    from . import C01_frames
    from .common import ClauseView
    try:
        fpm = model.func("acryo/loader/_base.py::LoaderBase._post_align_multi_templates")
        C01_frames.frames_clause(model, ClauseView(rep, "3 decoders"), {"acryo/loader/_base.py::LoaderBase._post_align_multi_templates": fpm})
    except KeyError as e:
        rep.error(f"anchor vanished: {e}")
    # every rotated candidate is the template rotated about its own centre, for one template and for a stack (rule shared with C01)
    from .common import rotation_centre_obligations
    f_bank = funcs.get(AB + "RotationImplemented._get_template_and_mask_input")
    if f_bank is not None:
        rotation_centre_obligations(model, rep, f_bank, "1 encoding")
        rep.floor("A.centre", 1, "(the template bank rotates about (n-1)/2)")
    nf = 0
    for a in ("acryo/loader/_base.py::LoaderBase.align", "acryo/loader/_base.py::LoaderBase.align_no_template", "acryo/loader/_group.py::LoaderGroup.align"):
        try:
            fa = funcs.get(a) or model.func(a)
        except Exception:
            continue
        nf += forwarding_obligations(model, rep, fa, "2 argmax")
    rep.floor("FWD", 1, "(LoaderBase.align delegates hetero-template stacks to align_multi_templates)")
    from .generic import with_params_forwarding_obligations
    with_params_forwarding_obligations(model, rep, "4 rotation set", ("rotations",))
    rep.floor("WPARAM", 2, "(with_params of the alignment model classes that name this option)")
