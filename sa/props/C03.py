"""C03 - row i of every result belongs to molecule i (DESIGN 5, C03)."""
from __future__ import annotations

import ast

from ..cfg import CFG
from ..effects import EffectAnalysis
from ..repo import FuncInfo, calls_in, dotted, norm_src, walk_no_nested
from ..match import Matcher, src as msrc
from .common import kwarg, need_funcs

LB = "acryo/loader/_base.py::LoaderBase."
LG = "acryo/loader/_group.py::LoaderGroup."
BL = "acryo/loader/_batch.py::BatchLoader."
SL = "acryo/loader/_loader.py::SubtomogramLoader."
ML = "acryo/loader/_mock.py::MockLoader."

ANCHORS = [
    BL + "construct_loading_tasks", BL + "add_tomogram", BL + "add_loader", BL + "replace", BL + "binning",
    "acryo/loader/_batch.py::LoaderAccessor.__iter__", "acryo/loader/_batch.py::LoaderAccessor.__getitem__",
    LB + "iter_mapping_tasks", LB + "construct_mapping_tasks", LB + "construct_dask", LB + "asnumpy", LB + "load", LB + "load_iter",
    LB + "_post_align", LB + "_post_align_multi_templates", LB + "score", LB + "apply", LB + "classify", LB + "head", LB + "tail",
    LB + "sample", LB + "filter", LB + "groupby", LB + "copy", LB + "align", LB + "align_multi_templates", LB + "construct_landscape",
    SL + "replace", SL + "binning", SL + "construct_loading_tasks", ML + "construct_loading_tasks", ML + "replace",
    LG + "__init__", LG + "__iter__", LG + "align", LG + "align_multi_templates", LG + "average", LG + "average_split", LG + "apply",
    LG + "fsc", LG + "count", LG + "filter", LG + "head", LG + "tail", LG + "sample",
    "acryo/loader/_group.py::LoaderGroupByIterator.__iter__", "acryo/loader/_misc.py::dict_iterrows",
    "acryo/_dask.py::DaskArrayList.concat", "acryo/_dask.py::DaskTaskList.asarrays", "acryo/_dask.py::DaskTaskList.tostack",
    "acryo/_dask.py::DaskTaskPool.add_task", "acryo/_dask.py::DaskTaskPool.add_tasks", "acryo/_dask.py::compute",
    "acryo/molecules/core.py::Molecules.group_by", "acryo/molecules/core.py::Molecules.cutby",
]

MOL_DERIVED = {"affine_matrix", "pos", "quaternion", "rotator", "rotvec", "matrix", "euler_angle", "x", "y", "z", "features"}


def local_assignments(fn: FuncInfo) -> dict[str, list[ast.expr]]:
    out: dict[str, list[ast.expr]] = {}
    for n in walk_no_nested(fn.node):
        if isinstance(n, ast.Assign):
            for t in n.targets:
                if isinstance(t, ast.Name):
                    out.setdefault(t.id, []).append(n.value)
        elif isinstance(n, ast.AnnAssign) and isinstance(n.target, ast.Name) and n.value is not None:
            out.setdefault(n.target.id, []).append(n.value)
    return out


def is_self_molecules(e: ast.expr, base: str = "self", assigns=None) -> bool:
    d = dotted(e)
    if d in (f"{base}.molecules", f"{base}._molecules"):
        return True
    if assigns is not None and isinstance(e, ast.Name):
        # a local alias: `molecules = self.molecules`
        vals = assigns.get(e.id, [])
        return len(vals) == 1 and is_self_molecules(vals[0], base)
    return False


def mol_order_source(e: ast.expr, assigns, base="self", depth=0) -> str:
    """'Mol' when iterating ``e`` visits the molecules of ``base`` in row order; 'Grouped' for the
    per-tomogram loaders of a batch; '?' otherwise."""
    if depth > 6:
        return "?"
    if isinstance(e, ast.Call):
        f = e.func
        if isinstance(f, ast.Name) and f.id in ("range",) and len(e.args) == 1:
            a = e.args[0]
            if isinstance(a, ast.Call) and isinstance(a.func, ast.Attribute) and a.func.attr in ("count", "__len__") and is_self_molecules(a.func.value, base, assigns):
                return "Mol"
            if isinstance(a, ast.Call) and isinstance(a.func, ast.Name) and a.func.id == "len" and a.args and is_self_molecules(a.args[0], base, assigns):
                return "Mol"
            if isinstance(a, ast.Call) and isinstance(a.func, ast.Attribute) and a.func.attr == "count" and dotted(a.func.value) == base:
                return "Mol"
            if isinstance(a, ast.BinOp) and "molecules" in norm_src(a) and ("count" in norm_src(a) or "len(" in norm_src(a)):
                return "Subset"
            return "?"
        if isinstance(f, ast.Name) and f.id in ("enumerate", "list", "tuple", "iter") and e.args:
            return mol_order_source(e.args[0], assigns, base, depth + 1)
        if isinstance(f, ast.Attribute) and f.attr in MOL_DERIVED and is_self_molecules(f.value, base, assigns):
            return "Mol"
        if isinstance(f, ast.Attribute) and f.attr in ("enumerate", "tolist", "asarrays", "__iter__"):
            return mol_order_source(f.value, assigns, base, depth + 1)
        return "?"
    if isinstance(e, ast.Attribute):
        if e.attr in MOL_DERIVED and is_self_molecules(e.value, base, assigns):
            return "Mol"
        if e.attr == "loaders" and dotted(e.value) == base:
            return "Grouped"
        return "?"
    if isinstance(e, ast.Name):
        vals = assigns.get(e.id, [])
        if not vals:
            return "?"
        res = {mol_order_source(v, assigns, base, depth + 1) for v in vals}
        return res.pop() if len(res) == 1 else "?"
    if isinstance(e, ast.BinOp):
        l = mol_order_source(e.left, assigns, base, depth + 1)
        r = mol_order_source(e.right, assigns, base, depth + 1)
        if "Mol" in (l, r) and "Grouped" not in (l, r):
            return "Mol"
    if isinstance(e, ast.Subscript):
        return "Subset" if isinstance(e.slice, ast.Slice) else "?"
    return "?"


# --------------------------------------------------------------------------- clause 1: task order
def task_order(model, fn: FuncInfo):
    """Provenance of the order of the task list returned by a construct_loading_tasks implementation.
    Returns (order, explanation, node)."""
    assigns = local_assignments(fn)
    rets = [n for n in walk_no_nested(fn.node) if isinstance(n, ast.Return) and n.value is not None]
    if not rets:
        return "?", "no return", fn.node
    results = []
    for r in rets:
        results.append(_order_of_expr(model, fn, r.value, assigns, 0) + (r,))
    orders = {o for o, _, _ in results}
    if len(orders) == 1:
        return results[0]
    for o, why, node in results:
        if o != "Mol":
            return o, why, node
    return results[0]


def _pool_loops(fn: FuncInfo, pool: str):
    """For-loops (outermost first) that contain `pool.add_task(...)`."""
    out = []
    for lp in walk_no_nested(fn.node):
        if isinstance(lp, ast.For):
            adds = [c for c in ast.walk(lp) if isinstance(c, ast.Call) and isinstance(c.func, ast.Attribute) and c.func.attr in ("add_task", "add_tasks", "append")
                    and isinstance(c.func.value, ast.Name) and c.func.value.id == pool]
            if adds:
                out.append((lp, adds))
    return out


def _scatter_alternatives(fn, e, assigns):
    """Two more ways to put the per-tomogram tasks back into molecule order (same obligations on indices and tasks as the indexed assignment):
    (b) a dictionary row -> task filled per loader (`d.update(zip(indices, tasks))` / `d[i] = t`) and read as `[d.get(i) for i in range(count)]`;
    (c) rows and tasks collected side by side (`rows.extend(indices); ts.extend(tasks)`) and gathered by the inverse permutation
        `[ts[j] for j in np.argsort(rows, kind="stable")]`."""
    if not (isinstance(e, (ast.ListComp, ast.GeneratorExp)) and len(e.generators) == 1 and not e.generators[0].ifs and isinstance(e.generators[0].target, ast.Name)):
        return None
    g = e.generators[0]
    v = g.target.id
    outer = [lp for lp in walk_no_nested(fn.node) if isinstance(lp, ast.For) and mol_order_source(lp.iter, assigns) == "Grouped"]
    if len(outer) != 1:
        return None
    lp = outer[0]
    ldr = lp.target.id if isinstance(lp.target, ast.Name) else None

    def single(name):
        vals = assigns.get(name, [])
        return vals[0] if len(vals) == 1 else None

    elt = e.elt
    # (b) dictionary
    d = None
    if isinstance(elt, ast.Call) and isinstance(elt.func, ast.Attribute) and elt.func.attr == "get" and isinstance(elt.func.value, ast.Name) and len(elt.args) == 1 and \
            isinstance(elt.args[0], ast.Name) and elt.args[0].id == v:
        d = elt.func.value.id
    elif isinstance(elt, ast.Subscript) and isinstance(elt.value, ast.Name) and isinstance(elt.slice, ast.Name) and elt.slice.id == v:
        d = elt.value.id
    it = g.iter
    if isinstance(it, ast.Name) and single(it.id) is not None:
        it_x = single(it.id)
    else:
        it_x = it
    if d is not None and isinstance(it_x, ast.Call) and dotted(it_x.func) == "range" and len(it_x.args) == 1:
        n_src = it_x.args[0]
        n_txt = norm_src(single(n_src.id)) if isinstance(n_src, ast.Name) and single(n_src.id) is not None else norm_src(n_src)
        if not ("molecules" in n_txt and ("count" in n_txt or "len(" in n_txt)):
            return "?", f"`{norm_src(e)[:60]}` does not range over the molecule count"
        dval = single(d)
        if not (isinstance(dval, ast.Dict) and not dval.keys) and not (isinstance(dval, ast.Call) and dotted(dval.func) == "dict" and not dval.args):
            return None
        ups = [c for c in ast.walk(lp) if isinstance(c, ast.Call) and isinstance(c.func, ast.Attribute) and c.func.attr == "update" and isinstance(c.func.value, ast.Name)
               and c.func.value.id == d]
        other = [c for c in ast.walk(fn.node) if isinstance(c, ast.Call) and isinstance(c.func, ast.Attribute) and isinstance(c.func.value, ast.Name) and
                 c.func.value.id == d and c.func.attr in ("update", "pop", "clear", "setdefault", "popitem") and c not in ups]
        stores = [st for st in ast.walk(fn.node) if isinstance(st, ast.Assign) and any(isinstance(t, ast.Subscript) and isinstance(t.value, ast.Name) and t.value.id == d
                                                                                       for t in st.targets)]
        if len(ups) == 1 and not other and not stores and len(ups[0].args) == 1 and isinstance(ups[0].args[0], ast.Call) and dotted(ups[0].args[0].func) == "zip" and \
                len(ups[0].args[0].args) == 2:
            idx_src, task_src = ups[0].args[0].args
            return _scatter_sources(fn, assigns, ldr, idx_src, task_src)
        return "?", f"dictionary `{d}` is not filled by one `update(zip(indices, tasks))` per tomogram"
    # (c) inverse permutation
    if isinstance(elt, ast.Subscript) and isinstance(elt.value, ast.Name) and isinstance(elt.slice, ast.Name) and elt.slice.id == v and isinstance(it_x, ast.Call) and \
            (dotted(it_x.func) or "").split(".")[-1] == "argsort" and it_x.args:
        tlist = elt.value.id
        rows = it_x.args[0]
        while isinstance(rows, ast.Call) and (dotted(rows.func) or "").split(".")[-1] in ("asarray", "array") and rows.args:
            rows = rows.args[0]
        if not isinstance(rows, ast.Name):
            return "?", "argsort of something that is not the collected row list"
        ext = {}
        for c in ast.walk(lp):
            if isinstance(c, ast.Call) and isinstance(c.func, ast.Attribute) and c.func.attr == "extend" and isinstance(c.func.value, ast.Name) and len(c.args) == 1:
                ext.setdefault(c.func.value.id, []).append(c.args[0])
        mut_elsewhere = [c for c in ast.walk(fn.node) if isinstance(c, ast.Call) and isinstance(c.func, ast.Attribute) and isinstance(c.func.value, ast.Name) and
                         c.func.value.id in (rows.id, tlist) and c.func.attr in ("append", "extend", "insert", "pop", "sort", "reverse", "remove", "clear") and
                         not any(c is x for x in ast.walk(lp))]
        if len(ext.get(rows.id, [])) == 1 and len(ext.get(tlist, [])) == 1 and not mut_elsewhere:
            return _scatter_sources(fn, assigns, ldr, ext[rows.id][0], ext[tlist][0])
        return "?", f"`{rows.id}` and `{tlist}` are not extended once each, side by side, per tomogram"
    return None


def _order_of_expr(model, fn, e, assigns, depth):
    if depth > 8:
        return "?", "too deep"
    alt = _scatter_alternatives(fn, e, assigns)
    if alt is not None:
        return alt
    if isinstance(e, ast.Name):
        vals = assigns.get(e.id, [])
        # scatter list?
        sc = _scatter(fn, e.id, assigns)
        if sc is not None:
            return sc
        if not vals:
            return "?", f"{e.id} unbound"
        # a plain list filled by `name.append(task)` in a loop is the task pool spelled out: the order of that loop
        if all((isinstance(v, ast.List) and not v.elts) or (isinstance(v, ast.Call) and dotted(v.func) == "list" and not v.args) for v in vals) and _pool_loops(fn, e.id):
            return _order_of_pool(model, fn, e.id, assigns, depth)
        outs = []
        for v in vals:
            sub = dict(assigns)
            sub[e.id] = [x for x in vals if x is not v]
            outs.append(_order_of_expr(model, fn, v, sub, depth + 1))
        kinds = {o for o, _ in outs}
        if len(kinds) == 1:
            return outs[-1]
        for o in outs:
            if o[0] != "Mol":
                return o
        return outs[-1]
    if isinstance(e, ast.Call):
        f = e.func
        d = dotted(f) or ""
        # pool.asarrays(...) / pool: order of the add_task loop
        if isinstance(f, ast.Attribute) and f.attr in ("asarrays", "tolist") and isinstance(f.value, ast.Name):
            return _order_of_pool(model, fn, f.value.id, assigns, depth)
        if d.endswith("DaskArrayList.concat") or (isinstance(f, ast.Attribute) and f.attr == "concat"):
            if e.args and isinstance(e.args[0], (ast.GeneratorExp, ast.ListComp)):
                g = e.args[0].generators[0]
                src = mol_order_source(g.iter, assigns)
                if src == "Grouped":
                    return "Grouped", f"tasks are concatenated per tomogram over `{norm_src(g.iter)}` (grouped by image id), not in molecule order"
                return "?", f"concatenation over `{norm_src(g.iter)}`"
            return "?", "concat of unknown"
        if d.endswith("DaskArrayList") or d == "DaskArrayList" or d in ("list", "tuple"):
            if e.args:
                a = e.args[0]
                if isinstance(a, (ast.GeneratorExp, ast.ListComp)):
                    alt2 = _scatter_alternatives(fn, a, assigns)
                    if alt2 is not None:
                        return alt2
                    g = a.generators[0]
                    it = g.iter
                    # X.enumerate() / enumerate(X) / X
                    if isinstance(it, ast.Call) and isinstance(it.func, ast.Attribute) and it.func.attr == "enumerate":
                        it = it.func.value
                    elif isinstance(it, ast.Call) and isinstance(it.func, ast.Name) and it.func.id == "enumerate" and it.args:
                        it = it.args[0]
                    if a.generators[0].ifs or len(a.generators) > 1:
                        return "?", "filtered or nested comprehension"
                    return _order_of_expr(model, fn, it, assigns, depth + 1)
                return _order_of_expr(model, fn, a, assigns, depth + 1)
        return "?", f"call `{norm_src(e)[:60]}`"
    return "?", f"expression `{norm_src(e)[:60]}`"


def _order_of_pool(model, fn, pool, assigns, depth):
    loops = _pool_loops(fn, pool)
    if not loops:
        return "?", f"no loop adds tasks to {pool}"
    outer = [lp for lp, adds in loops if not any(lp is not o and any(x is lp for x in ast.walk(o)) for o, _ in loops)]
    if len(outer) != 1:
        return "?", f"{len(outer)} task loops"
    lp = outer[0]
    adds = [a for l, a in loops if l is lp][0]
    inner_loops = [x for x in ast.walk(lp) if isinstance(x, (ast.For, ast.While)) and x is not lp and any(c in list(ast.walk(x)) for c in adds)]
    if inner_loops or len(adds) != 1:
        return "?", "task added in a nested loop or more than once per iteration"
    cond = [x for x in ast.walk(lp) if isinstance(x, ast.If) and any(c in list(ast.walk(x)) for c in adds)]
    if cond:
        return "Subset", "task is added conditionally: some molecules get no task"
    src = mol_order_source(lp.iter, assigns)
    if src == "Mol":
        return "Mol", f"one task per iteration of `for {norm_src(lp.target)} in {norm_src(lp.iter)}`"
    if src == "Subset":
        return "Subset", f"task loop iterates `{norm_src(lp.iter)}`: not every molecule gets a task"
    return src, f"task loop iterates `{norm_src(lp.iter)}`"


def _scatter(fn, name, assigns):
    """`out = [None] * count(self.molecules)` filled by `out[i] = task` where, inside a loop over self.loaders, the indices i are the
    rows of self.molecules whose image id equals that loader's key, zipped with that loader's own tasks."""
    from ..cfg import backward_slice_names
    vals = assigns.get(name, [])
    alloc = [v for v in vals if isinstance(v, ast.BinOp) and isinstance(v.op, ast.Mult) and isinstance(v.left, ast.List)]
    if not alloc:
        return None
    if not any("molecules" in norm_src(v.right) and ("count" in norm_src(v.right) or "len" in norm_src(v.right)) for v in alloc):
        return "?", f"{name} is pre-allocated with a length that is not the molecule count"
    nec = _scatter_necessary(fn, name, assigns)
    if nec is not None:
        return nec
    outer = [lp for lp in walk_no_nested(fn.node) if isinstance(lp, ast.For) and mol_order_source(lp.iter, assigns) == "Grouped"]
    if len(outer) != 1:
        return "?", "no single loop over self.loaders fills the list"
    lp = outer[0]
    ldr = lp.target.id if isinstance(lp.target, ast.Name) else None
    inner = [x for x in ast.walk(lp) if isinstance(x, ast.For) and x is not lp]
    stores = [(x, st) for x in inner for st in ast.walk(x) if isinstance(st, ast.Assign) and
              any(isinstance(t, ast.Subscript) and isinstance(t.value, ast.Name) and t.value.id == name for t in st.targets)]
    all_stores = [st for st in walk_no_nested(fn.node) if isinstance(st, ast.Assign) and
                  any(isinstance(t, ast.Subscript) and isinstance(t.value, ast.Name) and t.value.id == name for t in st.targets)]
    if len(stores) != 1 or len(all_stores) != 1:
        return "?", f"{len(all_stores)} store(s) into {name}"
    il, st = stores[0]
    if not (isinstance(il.iter, ast.Call) and dotted(il.iter.func) == "zip" and len(il.iter.args) == 2 and isinstance(il.target, ast.Tuple)):
        return "?", "indices and tasks are not zipped"
    idx_var, task_var = (norm_src(x) for x in il.target.elts)
    tgt = [t for t in st.targets if isinstance(t, ast.Subscript)][0]
    if norm_src(tgt.slice) != idx_var or norm_src(st.value) != task_var:
        return "Perm", f"store `{norm_src(st)}` does not write the zipped task at the zipped index"
    idx_src, task_src = il.iter.args
    return _scatter_sources(fn, assigns, ldr, idx_src, task_src)


def _reads_id_column(fn, e, assigns, seen=None):
    """Does the value of expression ``e`` depend (through local definitions and loop targets) on the image-id column of this batch's molecules?"""
    from ..cfg import backward_slice_names
    txt = norm_src(e)
    for nm in backward_slice_names(fn.node, e):
        for vv in assigns.get(nm, []):
            txt += " " + norm_src(vv)
    return ("IMAGE_ID_LABEL" in txt or "image-id" in txt) and ("self.molecules" in txt or "self._molecules" in txt)


def _scatter_necessary(fn, name, assigns):
    """Conditions every correct scatter into the pre-allocated list must meet, whatever its idiom (a refutation here is a violation; None = nothing refuted):

    N1  the molecules of one tomogram are not necessarily stored contiguously or in any id order (add_tomogram may be called twice with one id, molecules may be
        re-ordered), so the row a task is written to must be computed from the per-molecule image-id column of self.molecules;
    N2  iterating self.loaders visits the tomograms in order of first appearance (group_by(maintain_order=True), clause 6) whereas argsort of the id column lists
        the rows tomogram by tomogram in ascending id order: pairing the one with the other mis-assigns tasks as soon as ids do not first appear in ascending order."""
    stores = [st for st in walk_no_nested(fn.node) if isinstance(st, ast.Assign) and
              any(isinstance(t, ast.Subscript) and isinstance(t.value, ast.Name) and t.value.id == name for t in st.targets)]
    for st in stores:
        tgt = [t for t in st.targets if isinstance(t, ast.Subscript) and isinstance(t.value, ast.Name) and t.value.id == name][0]
        if not _reads_id_column(fn, tgt.slice, assigns):
            return "Perm", (f"`{norm_src(st)[:70]}`: the row index does not depend on the image-id column of self.molecules - rows of one tomogram are not "
                            f"necessarily contiguous or in loader order")
    for lp in walk_no_nested(fn.node):
        if isinstance(lp, ast.For) and isinstance(lp.iter, ast.Call) and dotted(lp.iter.func) == "zip" and len(lp.iter.args) == 2 and \
                any(st in list(ast.walk(lp)) for st in stores):
            isrc, tsrc = lp.iter.args

            def defs(x):
                return assigns.get(x.id, []) if isinstance(x, ast.Name) else [x]

            by_sorted = any(isinstance(c, ast.Call) and (dotted(c.func) or "").split(".")[-1] in ("argsort", "arg_sort", "lexsort") and _reads_id_column(fn, c, assigns)
                            for v in defs(isrc) for c in ast.walk(v))
            by_groups = any(isinstance(g, (ast.GeneratorExp, ast.ListComp)) and any(mol_order_source(gg.iter, assigns) == "Grouped" for gg in g.generators)
                            for v in defs(tsrc) for g in ast.walk(v))
            if by_sorted and by_groups:
                return "Perm", (f"rows come from a sort of the image ids (ascending id order) but the tasks are concatenated over self.loaders (order of first "
                                f"appearance): `for {norm_src(lp.target)} in {norm_src(lp.iter)[:60]}` pairs them position by position")
    return None


def _scatter_sources(fn, assigns, ldr, idx_src, task_src):
    """Common part of the scatter idioms: the tasks are the group loader's own, the indices are the rows of self.molecules with that loader's image id."""
    from ..cfg import backward_slice_names
    # tasks: the loader's own construct_loading_tasks
    tnames = backward_slice_names(fn.node, task_src)
    tvals = assigns.get(task_src.id, []) if isinstance(task_src, ast.Name) else [task_src]
    if not any(isinstance(v, ast.Call) and isinstance(v.func, ast.Attribute) and v.func.attr == "construct_loading_tasks" and dotted(v.func.value) == ldr for v in tvals):
        return "?", "zipped tasks are not the group loader's own tasks"
    # indices: rows of self.molecules whose id == key of this loader
    ivals = assigns.get(idx_src.id, []) if isinstance(idx_src, ast.Name) else [idx_src]
    good = False
    why = ""
    for v in ivals:
        cmps = [c for c in ast.walk(v) if isinstance(c, ast.Compare) and len(c.ops) == 1 and isinstance(c.ops[0], ast.Eq)]
        sel = any(isinstance(c, ast.Call) and ((isinstance(c.func, ast.Attribute) and c.func.attr in ("arg_true", "nonzero")) or dotted(c.func) in ("np.where", "np.nonzero", "np.flatnonzero")) for c in ast.walk(v))
        for c in cmps:
            sides = [c.left, c.comparators[0]]
            deps = [backward_slice_names(fn.node, s_) for s_ in sides]
            txts = []
            for s_, d in zip(sides, deps):
                t = norm_src(s_)
                for nm in d:
                    for vv in assigns.get(nm, []):
                        t += " " + norm_src(vv)
                txts.append(t)
            col = [("IMAGE_ID_LABEL" in t or "image-id" in t) and ("self.molecules" in t or "self._molecules" in t) and (ldr not in d) for t, d in zip(txts, deps)]
            key = [("IMAGE_ID_LABEL" in t or "image-id" in t) and (ldr in d) for t, d in zip(txts, deps)]
            if sel and ((col[0] and key[1]) or (col[1] and key[0])):
                good = True
        why = norm_src(v)[:80]
    if good:
        return "Mol", (f"tasks of each per-tomogram loader are scattered into a list of length count(self.molecules) at the row indices whose "
                       f"image id equals that loader's key (`{why}`); groups keep row order (maintain_order=True, clause 6)")
    return "?", f"scatter indices `{why}` are not the rows whose image id equals the group's key"


def batch_task_order_obligation(model, rep, clause):
    """The batch loader's task list is in molecule order - shared with the properties that pair loaded subtomograms with molecules by position (C01, C02)."""
    try:
        f = model.func(BL + "construct_loading_tasks")
    except Exception:
        f = None
    if f is None:
        rep.error("BatchLoader.construct_loading_tasks not found")
        return
    order, why, node = task_order(model, f)
    rep.instance("O.tasks", f.loc(node))
    ok = True if order == "Mol" else (None if order == "?" else False)
    rep.ob("O", BL + "construct_loading_tasks", "batch loading tasks are produced in the row order of self.molecules (subtomogram i is cropped around molecule i)",
           ok, f"order = {order}: {why}", node=node, fn=f, clause=clause)


def task_order_clause(model, rep, funcs):
    for a in (SL + "construct_loading_tasks", ML + "construct_loading_tasks", BL + "construct_loading_tasks"):
        f = funcs.get(a)
        if f is None:
            continue
        order, why, node = task_order(model, f)
        rep.instance("O.tasks", f.loc(node))
        ok = True if order == "Mol" else (None if order == "?" else False)
        rep.ob("O", a, "loading tasks are produced in the row order of self.molecules (they are zipped with per-molecule kwargs and "
               "results are written back by position)", ok, f"order = {order}: {why}", node=node, fn=f, clause="1 order")
    # every other concrete subclass of LoaderBase must be covered
    try:
        base = model.cls("acryo/loader/_base.py::LoaderBase")
        impls = {c.name for c in base.all_subclasses() if "construct_loading_tasks" in c.methods}
        known = {"SubtomogramLoader", "MockLoader", "BatchLoader"}
        for extra in sorted(impls - known):
            rep.ob("O", f"class {extra}", "every construct_loading_tasks implementation is analysed", None,
                   f"new loader class {extra} has its own construct_loading_tasks that this check does not cover", clause="1 order", stmt=extra)
    except Exception as e:  # pragma: no cover
        rep.error(str(e))


def pairing_clause(model, rep, funcs):
    f = funcs.get(LB + "iter_mapping_tasks")
    if f is not None:
        zips = [c for c in ast.walk(f.node) if isinstance(c, ast.Call) and isinstance(c.func, ast.Name) and c.func.id == "zip"]
        assigns = local_assignments(f)
        ok_any = False
        for z in zips:
            rep.instance("O.zip", f.loc(z))
            a0 = z.args[0] if z.args else None
            src = None
            if isinstance(a0, ast.Name):
                for v in assigns.get(a0.id, []):
                    if isinstance(v, ast.Call) and isinstance(v.func, ast.Attribute) and v.func.attr == "construct_loading_tasks" and dotted(v.func.value) == "self":
                        src = v
            a1 = z.args[1] if len(z.args) > 1 else None
            def _is_rows(e):
                return isinstance(e, ast.Call) and (dotted(e.func) or "").endswith("dict_iterrows") and e.args and norm_src(e.args[0]) == "var_kwarg"

            def _is_empty_rows(e):  # itertools.repeat({}): the row of "no per-molecule argument", as many times as needed
                return isinstance(e, ast.Call) and (dotted(e.func) or "").split(".")[-1] == "repeat" and len(e.args) == 1 and \
                    ((isinstance(e.args[0], ast.Dict) and not e.args[0].keys) or norm_src(e.args[0]) == "dict()")

            rows = _is_rows(a1)
            if not rows and isinstance(a1, ast.Name):
                vals_ = assigns.get(a1.id, [])
                rows = bool(vals_) and any(_is_rows(v) for v in vals_) and all(_is_rows(v) or _is_empty_rows(v) for v in vals_)
            ok = src is not None and rows and len(z.args) == 2
            ok_any = ok_any or ok
            rep.ob("O", f.anchor, "tasks of self.construct_loading_tasks() are zipped, unmodified, with the rows of var_kwarg", ok,
                   f"zip arguments: {norm_src(z)}", node=z, fn=f, clause="1 order")
        if not zips:
            rep.ob("O", f.anchor, "iter_mapping_tasks pairs tasks with var_kwarg rows through zip", None, "no zip found", node=f.node, fn=f,
                   clause="1 order", stmt="def iter_mapping_tasks")
    # var_kwarg values come from the molecules of the loader whose tasks are mapped
    sites = [(LB + n, "self") for n in ("align", "align_multi_templates", "construct_landscape", "score", "classify")] + \
            [(LG + n, "loader") for n in ("align", "align_multi_templates")]
    for a, _ in sites:
        f = funcs.get(a)
        if f is None:
            continue
        for c in calls_in(f):
            if not (isinstance(c.func, ast.Attribute) and c.func.attr in ("construct_mapping_tasks", "iter_mapping_tasks")):
                continue
            vk = kwarg(c, "var_kwarg")
            if vk is None:
                continue
            MX_ = Matcher(f)
            recv = MX_.expr(c.func.value)  # `sub = self.replace(...); sub.iter_mapping_tasks(...)`
            # receiver may be self.replace(output_shape=...): same molecules
            while isinstance(recv, ast.Call) and isinstance(recv.func, ast.Attribute) and recv.func.attr == "replace" and not kwarg(recv, "molecules"):
                recv = recv.func.value
            base = dotted(recv)
            rep.instance("O.kwargs", f.loc(c))
            vk = Matcher(f).expr(vk)  # a dictionary that was given a name first is the same dictionary
            if isinstance(vk, ast.Call) and isinstance(vk.func, ast.Attribute) and not vk.args and not vk.keywords:
                # `recv._helper()`: a private zero-argument method whose single return is the dictionary - read it there, with `self` standing for the receiver
                try:
                    kind_, tg_ = model.resolve_call(f, vk)
                except Exception:
                    kind_, tg_ = None, None
                if not (kind_ == "repo" and tg_):
                    # receiver of unknown type (a loop variable): the method name, when the package defines exactly one private method of that name
                    cands_ = [g_ for g_ in model.all_functions if g_.name == vk.func.attr and g_.cls is not None and not g_.is_overload]
                    kind_, tg_ = ("repo", cands_) if len(cands_) == 1 else (kind_, tg_)
                if kind_ == "repo" and tg_ and len(tg_) == 1 and tg_[0].name.startswith("_"):
                    h_ = tg_[0]
                    rets_ = [r for r in walk_no_nested(h_.node) if isinstance(r, ast.Return) and r.value is not None]
                    if len(rets_) == 1:
                        body_ = Matcher(h_).expr(rets_[0].value)
                        recv_src = vk.func.value
                        selfname = h_.param_names()[0] if h_.param_names() else "self"

                        class _Sub(ast.NodeTransformer):
                            def visit_Name(self_, n_):
                                return copy.deepcopy(recv_src) if n_.id == selfname else n_
                        import copy
                        vk = ast.fix_missing_locations(_Sub().visit(copy.deepcopy(body_)))
            if isinstance(vk, ast.Dict) and all(isinstance(k_, ast.Constant) and isinstance(k_.value, str) for k_ in vk.keys):
                # `{"quaternion": col}` is `dict(quaternion=col)`
                vk = ast.Call(func=ast.Name(id="dict", ctx=ast.Load()), args=[], keywords=[ast.keyword(arg=k_.value, value=v_) for k_, v_ in zip(vk.keys, vk.values)])
            if not (isinstance(vk, ast.Call) and dotted(vk.func) == "dict"):
                rep.ob("O", a, "var_kwarg is a dict display of per-molecule columns", None, norm_src(vk), node=c, fn=f, clause="1 order")
                continue
            for k in vk.keywords:
                k = ast.keyword(arg=k.arg, value=MX_.expr(k.value))  # `molecules = self.molecules; molecules.pos / self.scale`
                txt = norm_src(k.value)
                names = [dotted(n) for n in ast.walk(k.value) if isinstance(n, ast.Attribute)]
                mol_refs = [n for n in names if n and (n.endswith(".molecules") or n.endswith("._molecules"))]
                ok = bool(mol_refs) and all(n in (f"{base}.molecules", f"{base}._molecules") for n in mol_refs)
                subs = [n for n in ast.walk(k.value) if isinstance(n, ast.Subscript)]
                rev = [n for n in ast.walk(k.value) if isinstance(n, ast.Call) and dotted(n.func) in ("reversed", "sorted", "np.flip", "np.sort", "np.roll")]
                if subs or rev:
                    ok = False
                rep.ob("O", a, f"per-molecule argument `{k.arg}` is the full, unpermuted column of the same loader's molecules", ok,
                       f"{k.arg} = {txt}; tasks come from `{base}`", node=k.value, fn=f, clause="1 order")
    # write-back by enumerate index
    for a in (LB + "_post_align", LB + "_post_align_multi_templates"):
        f = funcs.get(a)
        if f is None:
            continue
        loops = [n for n in walk_no_nested(f.node) if isinstance(n, ast.For)]
        done = False
        for lp in loops:
            it = lp.iter
            if isinstance(it, ast.Call) and dotted(it.func) == "enumerate" and it.args and isinstance(lp.target, ast.Tuple) and len(lp.target.elts) == 2:
                done = True
                rep.instance("O.writeback", f.loc(lp))
                idx = lp.target.elts[0].id if isinstance(lp.target.elts[0], ast.Name) else None
                ok_iter = isinstance(it.args[0], ast.Name) and it.args[0].id == "results" and len(it.args) == 1 and not it.keywords
                rep.ob("O", a, "results are visited in the order they were computed (enumerate(results))", ok_iter, f"iterates {norm_src(it)}",
                       node=it, fn=f, clause="1 order")
                bad = []
                nst = 0
                for st in ast.walk(lp):
                    if isinstance(st, ast.Subscript) and isinstance(st.ctx, ast.Store):
                        nst += 1
                        if norm_src(st.slice) != idx:
                            bad.append(norm_src(st))
                rep.ob("O", a, "row i of the result arrays is written from result i", (not bad) and nst >= 3, f"stores not at the loop index: {bad}; {nst} stores",
                       node=lp, fn=f, clause="1 order", stmt=f"write-back loop of {f.name}")
        if not done:
            # column-wise write-back: `a, b, c, d = zip(*results)` transposes the results in order, and every buffer is filled by one whole-slice
            # assignment from one of these columns (or an unfiltered comprehension over one of them): row i is still written from result i
            zs = [n for n in walk_no_nested(f.node) if isinstance(n, ast.Assign) and isinstance(n.targets[0], ast.Tuple) and isinstance(n.value, ast.Call) and
                  dotted(n.value.func) == "zip" and len(n.value.args) == 1 and isinstance(n.value.args[0], ast.Starred) and norm_src(n.value.args[0].value) == "results"]
            if len(zs) == 1:
                rep.instance("O.writeback", f.loc(zs[0]))
                cols = {t.id for t in zs[0].targets[0].elts if isinstance(t, ast.Name)}
                stores = [n for n in ast.walk(f.node) if isinstance(n, ast.Assign) and isinstance(n.targets[0], ast.Subscript)]
                bad = []
                for st in stores:
                    sl = st.targets[0].slice
                    whole = isinstance(sl, ast.Slice) and sl.lower is None and sl.upper is None and sl.step is None
                    v = st.value
                    src_ok = (isinstance(v, ast.Name) and v.id in cols) or \
                        (isinstance(v, (ast.ListComp, ast.GeneratorExp)) and len(v.generators) == 1 and not v.generators[0].ifs and
                         isinstance(v.generators[0].iter, ast.Name) and v.generators[0].iter.id in cols)
                    if not (whole and src_ok):
                        bad.append(norm_src(st)[:60])
                rep.ob("O", a, "row i of the result arrays is written from result i", (not bad) and len(stores) >= 3,
                       f"stores that are not whole-slice assignments from a column of zip(*results): {bad}; {len(stores)} stores", node=zs[0], fn=f, clause="1 order",
                       stmt=f"write-back loop of {f.name}")
            else:
                rep.ob("O", a, "write-back loop enumerates the results", None, "no `for i, result in enumerate(results)` loop", node=f.node, fn=f,
                       clause="1 order", stmt=f"def {f.name}")
    # group alignment: tasks appended while iterating self, results zipped with self again
    for a in (LG + "align", LG + "align_multi_templates"):
        f = funcs.get(a)
        if f is None:
            continue
        M = Matcher(f)
        rep.instance("O.group", f.loc())
        b: dict = {}
        ok, det = M.all_of(["$all = []", "for $k, $loader in self:\n    ...", "$res = compute($all)",
                            "for ($k2, $l2), $r in zip(self, $res):\n    ..."], b)
        if ok:
            build = M.find("for $k, $loader in self:\n    ...", b)[0][0]
            back = M.find("for ($k2, $l2), $r in zip(self, $res):\n    ...", b)[0][0]
            # one task list per group, appended in iteration order, built from that group's own loader
            app = M.find("$all.append($tasks)", b, within=build)
            ok = len(app) == 1
            if not ok:
                det = f"{len(app)} appends to the task list inside the loop over the groups"
            else:
                b2 = app[0][1]
                mk = M.find("$tasks = $loader.construct_mapping_tasks(...)", b2, within=build) or M.find("$tasks = $loader.$$_(...)", b2, within=build)
                if not mk:
                    ok, det = False, "the appended task list is not built from the loader of the same iteration"
            if ok:
                wb = M.find("$l2.$$_($r, ...)", b, within=back)
                wb = [x for x in wb if isinstance(x[0], ast.AST)]
                post = [c for c in ast.walk(back) if isinstance(c, ast.Call) and isinstance(c.func, ast.Attribute) and c.func.attr.startswith("_post_align")]
                names = (msrc(b["l2"][1]), msrc(b["r"][1]))
                from .common import positional_view
                pv_ = positional_view(model, f, post[0]) if post else []
                if not pv_ and post and post[0].keywords:
                    pv_ = [k_.value for k_ in post[0].keywords if k_.arg == "results"]
                if not post or dotted(post[0].func.value) != names[0] or not pv_ or norm_src(pv_[0]) != names[1]:
                    ok, det = False, "write-back does not use the zipped (loader, results) pair"
        rep.ob("O", a, "per-group results are paired with the group they were computed for (same iteration order of self)", ok, det,
               node=f.node, fn=f, clause="1 order", stmt=f"def {f.name} zip")


# --------------------------------------------------------------------------- clause 2: registered tomogram
def registered_image_clause(model, rep, funcs):
    f = funcs.get("acryo/loader/_batch.py::LoaderAccessor.__iter__")
    if f is not None:
        loops = [n for n in walk_no_nested(f.node) if isinstance(n, ast.For)]
        ok = None
        det = "no loop over molecule groups"
        for lp in loops:
            if "groupby" in norm_src(lp.iter) or "group_by" in norm_src(lp.iter):
                rep.instance("SAME.image", f.loc(lp))
                by_id = "IMAGE_ID_LABEL" in norm_src(lp.iter) or "image-id" in norm_src(lp.iter)
                if not (isinstance(lp.target, ast.Tuple) and len(lp.target.elts) == 2):
                    ok, det = None, "group loop does not unpack (key, group)"
                    break
                key, grp = (norm_src(x) for x in lp.target.elts)
                ctor = [c for c in ast.walk(lp) if isinstance(c, ast.Call) and dotted(c.func) == "SubtomogramLoader"]
                assigns = {}
                for st in ast.walk(lp):
                    if isinstance(st, ast.Assign) and isinstance(st.targets[0], ast.Name):
                        assigns[st.targets[0].id] = st.value
                ok = bool(ctor) and by_id
                det = f"groups by image id: {by_id}; "
                for c in ctor:
                    img, mol = (c.args[0] if c.args else kwarg(c, "image")), (c.args[1] if len(c.args) > 1 else kwarg(c, "molecules"))
                    img_e = assigns.get(img.id) if isinstance(img, ast.Name) else img
                    good_img = isinstance(img_e, ast.Subscript) and norm_src(img_e.slice) == key and norm_src(img_e.value).endswith("_images")
                    good_mol = mol is not None and norm_src(mol) == grp
                    if not (good_img and good_mol):
                        ok = False
                    det += f"image = {norm_src(img_e) if img_e is not None else None}, molecules = {norm_src(mol) if mol is not None else None} (group loop yields {key}, {grp})"
                break
        if not ok:
            # the same rule on the canonical form (temporaries and private one-expression helpers expanded)
            MI = Matcher(f)
            bi: dict = {}
            if MI.has("for $key, $grp in $ldr.molecules.groupby(IMAGE_ID_LABEL):\n    ...", bi) and \
                    MI.has("SubtomogramLoader($ldr._images[$key], $grp, ...)", bi):
                ok, det = True, "per-group loader built from _images[key] and the group's molecules (canonical form)"
        if ok is None:
            # not the recognised loop: is a per-tomogram loader built from an image that was not looked up by the group's key?
            ctor_all = [c for c in calls_in(f) if dotted(c.func) == "SubtomogramLoader"]
            by_key = [n for n in walk_no_nested(f.node) if isinstance(n, ast.Subscript) and norm_src(n.value).endswith("_images")]
            positional = [n for n in walk_no_nested(f.node) if isinstance(n, ast.Call) and dotted(n.func) == "zip" and
                          any("_images" in norm_src(a_) for a_ in n.args)]
            if ctor_all and not by_key and positional:
                ok = False
                det = (f"`{norm_src(positional[0])[:90]}` pairs molecule groups with images by position: groups come in order of first appearance of the id, images "
                       "in registration order, so a sorted / sampled batch or an unused tomogram gives every group the wrong image")
        rep.ob("SAME", f.anchor, "each per-tomogram loader gets the image registered under the key of the very group whose molecules it gets", ok,
               det, node=f.node, fn=f, clause="2 registered tomogram", stmt="def __iter__")
    f = funcs.get("acryo/loader/_batch.py::LoaderAccessor.__getitem__")
    if f is not None:
        rep.instance("SAME.image", f.loc())
        p = f.param_names()[1] if len(f.param_names()) > 1 else "idx"
        flt = [c for c in calls_in(f) if isinstance(c.func, ast.Attribute) and c.func.attr == "filter"]
        sub = [n for n in walk_no_nested(f.node) if isinstance(n, ast.Subscript) and norm_src(n.value).endswith("_images")]
        ok = bool(flt) and bool(sub) and all(p in {x.id for x in ast.walk(c) if isinstance(x, ast.Name)} and "IMAGE_ID_LABEL" in norm_src(c) for c in flt) \
            and all(norm_src(s.slice) == p for s in sub)
        if not ok:
            MG_ = Matcher(f)
            bg_: dict = {}
            if MG_.has(f"SubtomogramLoader($ldr._images[{p}], $ldr.filter(pl.col(IMAGE_ID_LABEL) == {p}).molecules, ...)", bg_):
                ok = bool(flt) and all(p in {x.id for x in ast.walk(c) if isinstance(x, ast.Name)} and "IMAGE_ID_LABEL" in norm_src(c) for c in flt)
        rep.ob("SAME", f.anchor, "loader i gets image i and exactly the molecules tagged i", ok,
               f"filter: {[norm_src(c) for c in flt]}, image lookup: {[norm_src(s) for s in sub]}", node=f.node, fn=f,
               clause="2 registered tomogram", stmt="def __getitem__")


# --------------------------------------------------------------------------- clause 3: one-shot iterables (S4)
def reiterable(e: ast.expr, fn: FuncInfo, model, assigns) -> tuple[bool | None, str]:
    if isinstance(e, (ast.List, ast.Tuple, ast.Dict, ast.ListComp, ast.DictComp, ast.Set, ast.SetComp)):
        return True, "display/comprehension"
    if isinstance(e, ast.GeneratorExp):
        return False, "generator expression (exhausted after the first pass)"
    if isinstance(e, ast.Call):
        d = dotted(e.func) or ""
        if d in ("list", "tuple", "dict", "sorted"):
            return True, d
        if d in ("map", "filter", "zip", "iter", "enumerate", "reversed"):
            return False, f"{d}() iterator (exhausted after the first pass)"
        kind, tg = model.resolve_call(fn, e)
        if kind == "class":
            ci = tg[0]
            it = ci.find_method("__iter__")
            if it is not None and it.is_generator:
                return True, f"{ci.name} defines a generator-function __iter__ (fresh iterator per pass)"
            if it is not None:
                return None, f"{ci.name}.__iter__ is not a generator function"
            return None, f"{ci.name} has no __iter__"
        if kind == "repo" and tg and all(t.is_generator for t in tg):
            return False, "generator function call"
        return None, f"call {d}"
    if isinstance(e, ast.Name):
        vals = assigns.get(e.id, [])
        if not vals:
            # parameter: trust the annotation-free contract only if it is the constructor's own parameter
            return None, f"{e.id} is not bound locally"
        res = [reiterable(v, fn, model, assigns) for v in vals]
        if any(r[0] is False for r in res):
            return [r for r in res if r[0] is False][0]
        if all(r[0] is True for r in res):
            return res[-1]
        return None, f"{e.id}: undetermined"
    return None, norm_src(e)[:50]


def one_shot_clause(model, rep, funcs):
    try:
        lg = model.cls("acryo/loader/_group.py::LoaderGroup")
    except Exception as e:
        rep.error(str(e))
        return
    # how many passes over self._it does the class make?
    passes = []
    for name, fs in lg.methods.items():
        for f in fs:
            n = 0
            for node in walk_no_nested(f.node):
                if isinstance(node, ast.For) and norm_src(node.iter) in ("self", "self._it"):
                    n += 1
                elif isinstance(node, (ast.ListComp, ast.GeneratorExp, ast.DictComp, ast.SetComp)):
                    n += sum(1 for g in node.generators if norm_src(g.iter) in ("self", "self._it"))
                elif isinstance(node, ast.Call) and isinstance(node.func, ast.Name) and node.func.id == "zip" and any(norm_src(a) in ("self", "self._it") for a in node.args):
                    n += 1
            if n:
                passes.append((f.name, n))
    multi = [p for p in passes if p[1] >= 2]
    rep.stats["LoaderGroup_passes"] = passes
    if not multi and len(passes) < 2:
        rep.note("LoaderGroup iterates its source at most once; S4 not needed")
        return
    # constructor sites
    sites = []
    for fn in model.all_functions:
        for c in calls_in(fn):
            kind, tg = model.resolve_call(fn, c)
            is_ctor = kind == "class" and tg and tg[0].is_subclass_of(lg)
            if not is_ctor and isinstance(c.func, ast.Attribute) and c.func.attr == "__class__" and fn.cls is not None and fn.cls.is_subclass_of(lg):
                is_ctor = True
            if not is_ctor and isinstance(c.func, ast.Name) and c.func.id == "cls" and fn.cls is not None and fn.cls.is_subclass_of(lg) and fn.is_classmethod:
                is_ctor = True
            if is_ctor:
                sites.append((fn, c))
    for fn, c in sites:
        arg = c.args[0] if c.args else kwarg(c, "it")
        rep.instance("S4", fn.loc(c))
        if arg is None:
            rep.ob("S4", fn.anchor, "LoaderGroup is constructed from a re-iterable", None, "no iterable argument", node=c, fn=fn, clause="3 one-shot")
            continue
        ok, why = reiterable(arg, fn, model, local_assignments(fn))
        rep.ob("S4", fn.anchor, f"LoaderGroup (iterated {sum(n for _, n in passes)} times across its methods, e.g. {multi[:2]}) is constructed "
               "from a re-iterable", ok, f"argument `{norm_src(arg)[:80]}`: {why}", node=c, fn=fn, clause="3 one-shot")
    rep.floor("S4", 5, "(LoaderGroup constructor sites)")


# --------------------------------------------------------------------------- clause 4: aliasing generator
def aliasing_generator_clause(model, rep, funcs):
    g = funcs.get("acryo/loader/_misc.py::dict_iterrows")
    if g is None:
        return
    # does it yield one mutable object repeatedly?
    yields = [n for n in walk_no_nested(g.node) if isinstance(n, ast.Yield) and n.value is not None]
    fresh = all(isinstance(y.value, (ast.Dict, ast.DictComp, ast.Call)) for y in yields)
    if fresh:
        rep.note("dict_iterrows yields a fresh dict per row; consumers may keep the rows")
        rep.instance("M.alias", g.loc())
        rep.ob("M", g.anchor, "rows yielded by dict_iterrows are safe to keep", True, "", node=g.node, fn=g, clause="4 aliasing", stmt="def dict_iterrows")
        return
    n = 0
    for fn in model.all_functions:
        for c in calls_in(fn, include_nested=False):
            if (dotted(c.func) or "").endswith("dict_iterrows"):
                n += 1
                rep.instance("M.alias", fn.loc(c))
                # accepted: used as an iterable of a comprehension/for whose element is **-unpacked or copied immediately
                parent_ok, why = _immediate_unpack(fn, c)
                rep.ob("M", fn.anchor, "dict_iterrows yields ONE dict it keeps mutating: every consumer must unpack/copy the row immediately",
                       parent_ok, why, node=c, fn=fn, clause="4 aliasing")
    if n == 0:
        rep.note("dict_iterrows has no consumer")


def _immediate_unpack(fn: FuncInfo, call: ast.Call):
    # the generator may be given a name first (`rows = dict_iterrows(..)` ... `zip(tasks, rows)`): then the name stands for the call, provided every use of
    # the name is as the iterable of a loop / comprehension (an un-consumed generator is not a collection of rows)
    alias = None
    for st in ast.walk(fn.node):
        if isinstance(st, (ast.Assign, ast.AnnAssign)) and getattr(st, "value", None) is call:
            t = st.targets[0] if isinstance(st, ast.Assign) else st.target
            if isinstance(t, ast.Name):
                alias = t.id

    def _is_carrier(x):
        return x is call or (alias is not None and isinstance(x, ast.Name) and x.id == alias and isinstance(x.ctx, ast.Load))

    for node in ast.walk(fn.node):
        gens = []
        if isinstance(node, (ast.GeneratorExp, ast.ListComp)):
            gens = [(g, node.elt) for g in node.generators]
        elif isinstance(node, ast.For):
            gens = [(node, node)]
        for g, body in gens:
            it = g.iter
            inside = any(_is_carrier(x) for x in ast.walk(it))
            if not inside:
                continue
            # variable bound to the row
            if isinstance(it, ast.Call) and dotted(it.func) == "zip":
                pos = [i for i, a in enumerate(it.args) if any(_is_carrier(x) for x in ast.walk(a))]
                tgt = g.target.elts[pos[0]] if isinstance(g.target, ast.Tuple) and pos else None
            elif _is_carrier(it):
                tgt = g.target
            else:
                return False, f"rows flow through `{norm_src(it)[:60]}` before use"
            if not isinstance(tgt, ast.Name):
                return None, "row target is not a simple name"
            uses = [x for x in ast.walk(body) if isinstance(x, ast.Name) and x.id == tgt.id and isinstance(x.ctx, ast.Load)]
            ok = True
            for u in uses:
                good = False
                for p in ast.walk(body):
                    if isinstance(p, ast.Call) and any(k.arg is None and k.value is u for k in p.keywords):
                        good = True
                    if isinstance(p, ast.Call) and dotted(p.func) in ("dict", "copy.copy") and p.args and p.args[0] is u:
                        good = True
                    if isinstance(p, ast.Call) and isinstance(p.func, ast.Attribute) and p.func.attr == "copy" and p.func.value is u:
                        good = True
                    if isinstance(p, ast.Dict) and any(k is None and v is u for k, v in zip(p.keys, p.values)):
                        good = True
                    if isinstance(p, ast.Subscript) and p.value is u:
                        good = True
                if not good:
                    ok = False
            return ok, f"row variable `{tgt.id}` used {len(uses)} time(s), {'all' if ok else 'not all'} as **{tgt.id} / copy / item access"
    return False, "rows are collected (e.g. list(dict_iterrows(..))) instead of being consumed one at a time: all entries alias the last row"


# --------------------------------------------------------------------------- clause 5: derived loaders are pure
PURE_METHODS = {
    "LoaderBase": ["head", "tail", "sample", "filter", "groupby", "copy", "construct_dask", "asnumpy", "load", "average", "average_split",
                   "align", "_post_align", "_post_align_multi_templates", "align_multi_templates", "score", "apply", "classify",
                   "construct_landscape", "iter_mapping_tasks", "construct_mapping_tasks", "fsc_with_halfmaps", "reshape"],
    "SubtomogramLoader": ["replace", "binning", "construct_loading_tasks"],
    "BatchLoader": ["replace", "binning", "construct_loading_tasks"],
    "MockLoader": ["replace", "construct_loading_tasks"],
    "LoaderGroup": ["filter", "head", "tail", "sample", "align", "align_multi_templates", "average", "average_split", "apply", "fsc", "count"],
}
WATCHED = {"_molecules", "molecules", "_images", "images", "_image", "image", "_it", "_pos", "_rotator", "_features", "features", "pos", "rotator"}
MODS = {"LoaderBase": "acryo/loader/_base.py", "SubtomogramLoader": "acryo/loader/_loader.py", "BatchLoader": "acryo/loader/_batch.py",
        "MockLoader": "acryo/loader/_mock.py", "LoaderGroup": "acryo/loader/_group.py"}


def purity_clause(model, rep, funcs):
    ea = EffectAnalysis(model)
    for cname, meths in PURE_METHODS.items():
        for mname in meths:
            try:
                f = model.func(f"{MODS[cname]}::{cname}.{mname}")
            except Exception as e:
                rep.error(f"anchor vanished: {e}")
                continue
            rep.instance("S18", f.anchor)
            effs = [e for e in ea.closed_effects(f, depth=4) if e.kind in ("store", "mutate")]
            bad = []
            for e in effs:
                if e.root == "self" and (e.field in WATCHED or e.field == ""):
                    bad.append(e)
                elif e.root.startswith("param:") and e.root[6:] not in ("self",):
                    pname = e.root[6:]
                    if pname in ("molecules", "loader", "other", "image", "mask", "template", "templates"):
                        bad.append(e)
            if not bad:
                rep.ob("S18", f.anchor, "derives its result without writing to the loader/molecules it was called on or given", True, "",
                       node=f.node, fn=f, clause="5 purity", stmt=f"def {mname}")
            for e in bad[:3]:
                rep.ob("S18", f.anchor, "derives its result without writing to the loader/molecules it was called on or given", False,
                       e.describe(), node=e.node, fn=e.fn, clause="5 purity")
    # add_tomogram copies the caller's molecules before tagging them
    f = funcs.get(BL + "add_tomogram")
    if f is not None:
        effs = [e for e in ea.closed_effects(f, depth=3) if e.kind in ("store", "mutate") and e.root.startswith("param:")]
        rep.instance("S18", f.anchor)
        rep.ob("S18", f.anchor, "add_tomogram does not modify the molecules/image objects handed in by the caller", not effs,
               "; ".join(e.describe() for e in effs[:2]), node=(effs[0].node if effs else f.node), fn=f, clause="5 purity",
               stmt=(None if effs else "def add_tomogram"))
    # derived loaders delegate to the same-named Molecules operation
    for mname in ("head", "tail", "sample", "filter"):
        f = funcs.get(LB + mname)
        if f is None:
            continue
        rets = [n for n in walk_no_nested(f.node) if isinstance(n, ast.Return) and n.value is not None]
        ok = False
        det = ""
        for r in rets:
            c = r.value
            if isinstance(c, ast.Call) and isinstance(c.func, ast.Attribute) and c.func.attr == "replace" and dotted(c.func.value) == "self":
                mv = kwarg(c, "molecules")
                det = norm_src(mv) if mv is not None else "no molecules="
                if isinstance(mv, ast.Call) and isinstance(mv.func, ast.Attribute) and mv.func.attr == mname and dotted(mv.func.value) in ("self.molecules", "self._molecules"):
                    params = [p for p in f.param_names()[1:]]
                    passed = [norm_src(a) for a in mv.args] + [norm_src(k.value) for k in mv.keywords]
                    ok = passed == params
                    det += f" (parameters {params}, passed {passed})"
        rep.instance("SLOT.derived", f.loc())
        rep.ob("SLOT", f.anchor, f"loader.{mname}(...) is replace(molecules=self.molecules.{mname}(same arguments))", ok, det, node=f.node, fn=f,
               clause="5 purity", stmt=f"def {mname}")


# --------------------------------------------------------------------------- clause 8: derived objects do not share mutable containers (S27)
def sharing_clause(model, rep, funcs):
    """A loader derived from another one (replace / copy / binning / filter ...) must not hold the *same* dict or list object in one of its
    fields: registering a tomogram in one of them would change the other."""
    n = 0
    for ci in model.all_classes:
        if not ci.module.relpath.startswith("acryo/loader/"):
            continue
        init = ci.find_method("__init__")
        if init is None:
            continue
        mutable = set()
        for st in walk_no_nested(init.node):
            tgt = val = None
            if isinstance(st, ast.Assign) and len(st.targets) == 1:
                tgt, val = st.targets[0], st.value
            elif isinstance(st, ast.AnnAssign) and st.value is not None:
                tgt, val = st.target, st.value
            if isinstance(tgt, ast.Attribute) and isinstance(tgt.value, ast.Name) and tgt.value.id == "self":
                if isinstance(val, (ast.Dict, ast.List, ast.Set)) or (isinstance(val, ast.Call) and dotted(val.func) in ("dict", "list", "set", "OrderedDict")):
                    mutable.add(tgt.attr)
        if not mutable:
            continue
        for fn in model.all_functions:
            if fn.cls is None or not (fn.cls is ci or fn.cls.is_subclass_of(ci)) or fn.name == "__init__":
                continue
            for st in walk_no_nested(fn.node):
                if isinstance(st, ast.Assign) and len(st.targets) == 1 and isinstance(st.targets[0], ast.Attribute) and st.targets[0].attr in mutable and \
                        isinstance(st.targets[0].value, ast.Name) and st.targets[0].value.id != "self":
                    n += 1
                    rep.instance("S27", fn.loc(st))
                    v = st.value
                    alias = isinstance(v, ast.Attribute) and isinstance(v.value, ast.Name) and v.value.id == "self" and v.attr in mutable
                    rep.ob("S27", fn.anchor, f"the derived object gets its own `{st.targets[0].attr}` container (copy / new dict), not the parent's object", not alias,
                           f"`{norm_src(st)}` makes both loaders share one container: add_tomogram on either of them changes (or is rejected by) the other" if alias else "",
                           node=st, fn=fn, clause="5 purity")
    rep.floor("S27", 2, "(BatchLoader.replace / binning assign the image registry of the derived loader)")


def borrowed_fields_clause(model, rep, funcs):
    """S28.  A field that a loader class fills with an object handed in by the caller (`self._molecules = molecules` in a constructor, `out._molecules = molecules`
    in replace) is borrowed: the caller, the parent loader and every sibling made by replace() hold the very same object.  No loader method may therefore change
    such an object in place (`self._molecules.append(...)`): it re-binds the field to a new object instead."""
    ea = EffectAnalysis(model)
    loader_classes = [ci for ci in model.all_classes if ci.module.relpath.startswith("acryo/loader/")]
    borrowed: dict = {}
    for fn in model.all_functions:
        if fn.cls is None or fn.cls not in loader_classes:
            continue
        params = set(fn.param_names()[1:])
        for st in walk_no_nested(fn.node):
            if isinstance(st, ast.Assign) and len(st.targets) == 1 and isinstance(st.targets[0], ast.Attribute) and isinstance(st.targets[0].value, ast.Name) and \
                    isinstance(st.value, ast.Name) and st.value.id in params:
                borrowed.setdefault(st.targets[0].attr, fn.loc(st))
    for fld, where in sorted(borrowed.items()):
        rep.instance("S28.field", f"{fld} <- parameter at {where}")
    for fn in model.all_functions:
        if fn.cls is None or fn.cls not in loader_classes or fn.parent is not None:
            continue
        effs = [e for e in ea.closed_effects(fn, depth=2) if e.kind == "mutate" and e.root == "self" and e.field in borrowed]
        if not effs and not any(isinstance(n, ast.Attribute) and n.attr in borrowed for n in ast.walk(fn.node)):
            continue
        rep.instance("S28", fn.loc())
        rep.ob("S28", fn.anchor, "objects handed in by the caller (borrowed fields) are never changed in place by the loader; the field is re-bound instead",
               not effs, "; ".join(e.describe() for e in effs[:2]) + (f" - `{effs[0].field}` is the object stored at {borrowed[effs[0].field]}, shared with its "
                                                                     f"provider and with every loader made by replace()" if effs else ""),
               node=(effs[0].node if effs else fn.node), fn=(effs[0].fn if effs else fn), clause="5 purity", stmt=(None if effs else f"def {fn.name} borrowed"))
    rep.floor("S28.field", 2, "(molecules and image fields are filled from constructor / replace parameters)")


# --------------------------------------------------------------------------- clause 6: partition
def partition_clause(model, rep, funcs):
    n = 0
    for fn in model.all_functions:
        for c in calls_in(fn):
            if isinstance(c.func, ast.Attribute) and c.func.attr == "group_by" and fn.module.relpath.startswith("acryo/molecules"):
                recv = norm_src(c.func.value)
                if recv in ("self", "cls"):
                    continue
                n += 1
                rep.instance("PART", fn.loc(c))
                mo = kwarg(c, "maintain_order")
                ok = isinstance(mo, ast.Constant) and mo.value is True
                rep.ob("PART", fn.anchor, "data-frame group_by keeps row order inside and across groups (maintain_order=True)", ok,
                       f"maintain_order={norm_src(mo) if mo is not None else 'absent (polars default False: group order is arbitrary)'}", node=c, fn=fn,
                       clause="6 partition")
    rep.floor("PART", 3, "(polars group_by calls in acryo/molecules)")
    f = funcs.get("acryo/loader/_group.py::LoaderGroupByIterator.__iter__")
    if f is not None:
        loops = [lp for lp in walk_no_nested(f.node) if isinstance(lp, ast.For)]
        ok = None
        det = "group loop not found"
        for lp in loops:
            if "groupby" in norm_src(lp.iter) or "group_by" in norm_src(lp.iter):
                rep.instance("PART", f.loc(lp))
                if isinstance(lp.target, ast.Tuple) and len(lp.target.elts) == 2:
                    key, grp = (norm_src(x) for x in lp.target.elts)
                    reps = [c for c in ast.walk(lp) if isinstance(c, ast.Call) and isinstance(c.func, ast.Attribute) and c.func.attr == "replace"]
                    ys = [y for y in ast.walk(lp) if isinstance(y, ast.Yield)]
                    ok = bool(reps) and bool(ys)
                    for c in reps:
                        mv = kwarg(c, "molecules")
                        names = {x.id for x in ast.walk(mv) if isinstance(x, ast.Name)} if mv is not None else set()
                        if grp not in names:
                            ok = False
                    det = f"group loader built with molecules={[norm_src(kwarg(c, 'molecules')) for c in reps if kwarg(c, 'molecules') is not None]} from group variable {grp}"
        rep.ob("PART", f.anchor, "each group loader is built from that group's own molecules and yielded with that group's key", ok, det,
               node=f.node, fn=f, clause="6 partition", stmt="def __iter__ (LoaderGroupByIterator)")


# --------------------------------------------------------------------------- clause 7: image-id bookkeeping (S22)
def registry_clause(model, rep, funcs):
    f = funcs.get(BL + "add_tomogram")
    if f is None:
        return
    cfg = CFG(f.node)
    stores = []
    for n in cfg.nodes:
        if n.kind == "stmt" and isinstance(n.node, ast.Assign):
            for t in n.node.targets:
                if isinstance(t, ast.Subscript) and norm_src(t.value) in ("self._images",):
                    stores.append((n, t))
    if not stores:
        rep.error("add_tomogram: store into self._images not found")
        return
    for n, t in stores:
        key = norm_src(t.slice)
        rep.instance("S22", f.loc(n.node))

        def guard(c, _key=key):
            # a freshness loop `while key in self._images` or a membership test of the key whose true-branch raises
            if c.kind == "test" and isinstance(c.node, (ast.While, ast.If)):
                txt = norm_src(c.node.test)
                # membership idioms: `key in D`, `key not in D`, and the lookup with a default `D.get(key, default)` (differs from the default only if key is bound)
                if _key in txt and "self._images" in txt and (" in " in txt or " not in " in txt or f"self._images.get({_key}" in txt):
                    if isinstance(c.node, ast.While):
                        return True
                    raises = any(isinstance(x, ast.Raise) for st in c.node.body + c.node.orelse for x in ast.walk(st))
                    return raises
            return False

        ok = cfg.must_pass_through(n, guard)
        rep.ob("S22", f.anchor, "an image id already bound to an image is never silently re-bound (fresh-id loop or rejecting guard on every path "
               "to the store): existing molecules carrying that id would load from the new image", ok,
               f"`{norm_src(n.node)}` is reachable with a caller-supplied id that already exists in self._images without any membership test",
               node=n.node, fn=f, clause="7 image ids")
    # replace prunes only ids no remaining molecule carries
    f = funcs.get(BL + "replace")
    if f is not None:
        pops = [c for c in calls_in(f) if isinstance(c.func, ast.Attribute) and c.func.attr == "pop" and norm_src(c.func.value).endswith("_images")]
        rep.instance("S22", f.loc())
        ok = None
        det = "no pruning"
        for c in pops:
            # enclosing if: `k not in <set built from molecules.features[IMAGE_ID_LABEL]>`
            ok = False
            for node in walk_no_nested(f.node):
                if isinstance(node, ast.If) and any(x is c for x in ast.walk(node)):
                    txt = norm_src(node.test)
                    if "not in" in txt and norm_src(c.args[0]) in txt:
                        ok = True
                        det = f"pops `{norm_src(c.args[0])}` only if `{txt}`"
            src = norm_src(f.node)
            if "IMAGE_ID_LABEL" not in src:
                ok = False
                det = "the set of surviving ids is not computed from the image-id column of the new molecules"
        if not pops:
            ok = True
            det = "replace keeps all images (no pruning)"
        rep.ob("S22", f.anchor, "replace() drops only images whose id no remaining molecule carries", ok, det, node=f.node, fn=f,
               clause="7 image ids", stmt="def replace pruning")


def check(model, rep, tier):
    rep.decided += ["C03.1 row-order provenance of task lists, per-molecule kwargs and write-back loops", "C03.2 image looked up with the key of the group passed",
                    "C03.3 LoaderGroup is built from re-iterables", "C03.4 consumers of the aliasing row generator unpack immediately",
                    "C03.5 derived loaders write nothing reachable from their source", "C03.6 group_by keeps order; group loaders use their own molecules",
                    "C03.7 image-id registry cannot silently re-bind"]
    rep.not_decided += ["correctness of polars group_by/filter/sort themselves"]
    funcs = need_funcs(model, rep, ANCHORS)
    task_order_clause(model, rep, funcs)
    pairing_clause(model, rep, funcs)
    registered_image_clause(model, rep, funcs)
    one_shot_clause(model, rep, funcs)
    aliasing_generator_clause(model, rep, funcs)
    purity_clause(model, rep, funcs)
    partition_clause(model, rep, funcs)
    registry_clause(model, rep, funcs)
    sharing_clause(model, rep, funcs)
    borrowed_fields_clause(model, rep, funcs)
    # derived loaders contain exactly the selected molecules - also when the selection is empty
    from .generic import truthiness_default_obligations, functions_in
    nt = truthiness_default_obligations(model, rep, functions_in(model, ["acryo/loader/_loader.py", "acryo/loader/_batch.py", "acryo/loader/_base.py",
                                                                         "acryo/loader/_group.py", "acryo/loader/_mock.py"]), "5 purity")
    rep.stats["optional_parameters_tested_by_truthiness"] = nt
    from .common import dask_key_obligations, frame_orientation_obligations
    for a_ in (LB + "apply", LG + "apply"):
        if funcs.get(a_) is not None:
            frame_orientation_obligations(model, rep, funcs[a_], "1 order")
    rep.floor("ORIENT.frame", 1, "(LoaderBase.apply builds the result table)")
    dask_key_obligations(model, rep, "1 order")
    rep.floor("KEY.site", 8, "(from_array / from_delayed / delayed / map_blocks call sites)")
