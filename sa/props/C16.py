"""C16 - low-pass filtering is a real, linear, zero-phase Butterworth filter (DESIGN 5, C16)."""
from __future__ import annotations

import ast

from ..absint import TOP, Const, ExtRef, Interp, Tup
from ..domains.affine import A, AffineDomain, BoolAnd, BoolC, BoolOr, mkA
from ..repo import calls_in, dotted, norm_src, walk_no_nested
from ..match import Matcher, src as msrc
from .common import kwarg, need_funcs

U_ = "acryo/_utils.py::"
B_ = "acryo/backend/_bandpass.py::"
WEIGHTS = [U_ + "nd_butterworth_weight", B_ + "nd_butterworth_weight"]
REAL = [U_ + "lowpass_filter", B_ + "lowpass_filter"]
FT = [U_ + "lowpass_filter_ft", B_ + "lowpass_filter_ft"]
ANCHORS = WEIGHTS + REAL + FT + ["acryo/backend/_api.py::Backend.lowpass_filter", "acryo/backend/_api.py::Backend.lowpass_filter_ft",
                                 "acryo/pipe/_transform.py::lowpass_filter", "acryo/alignment/_base.py::TomographyInput.pre_transform",
                                 "acryo/alignment/_base.py::TomographyInput.__init__"]


def _irfftn_calls(f):
    return [c for c in calls_in(f) if (c.func.attr if isinstance(c.func, ast.Attribute) else getattr(c.func, "id", "")) == "irfftn"]


def shape_clause(model, rep, funcs):
    for a in REAL:
        f = funcs.get(a)
        if f is None:
            continue
        cs = _irfftn_calls(f)
        if not cs:
            # the round trip through the half spectrum lives in a private helper that every filtering path returns: read it there
            tgt = set()
            for r in walk_no_nested(f.node):
                if isinstance(r, ast.Return) and isinstance(r.value, ast.Call) and norm_src(r.value) != "img":
                    try:
                        k_, t_ = model.resolve_call(f, r.value)
                    except Exception:
                        k_, t_ = None, None
                    if k_ == "repo" and t_ and len(t_) == 1 and t_[0].name.startswith("_"):
                        tgt.add(t_[0])
            if len(tgt) == 1:
                f = next(iter(tgt))
                cs = _irfftn_calls(f)
        rep.instance("S2", f.loc())
        if not cs:
            rep.ob("S2", a, "real-space low-pass goes through irfftn", None, "no irfftn call", node=f.node, fn=f, clause="1 shape", stmt=f"def lowpass_filter ({a})")
        for c in cs:
            s = kwarg(c, "s") or (c.args[1] if len(c.args) > 1 else None)
            ok = s is not None and norm_src(s) in ("img.shape", "shape", "tuple(img.shape)")
            rep.ob("S2", a, "irfftn is given s=img.shape: without it the last axis comes back as 2*(n//2+1-1) = n-1 for odd n", ok,
                   f"`{norm_src(c)[:70]}`" + ("" if ok else ": output shape differs from the input for an odd last axis (e.g. 9 -> 8)"), node=c, fn=f, clause="1 shape")
        rets = [r for r in walk_no_nested(f.node) if isinstance(r, ast.Return) and r.value is not None]
        others = [r for r in rets if norm_src(r.value) != "img"]
        real_ok = bool(others) and all(norm_src(r.value).endswith(".real") or "irfftn(" in norm_src(r.value) for r in others)
        rep.ob("S2", a, "the filtered image is returned as a real array", real_ok, "", node=f.node, fn=f, clause="1 shape", stmt=f"def lowpass_filter real ({a})")


def layout_clause(model, rep, funcs):
    results = {}
    for a in WEIGHTS:
        f = funcs.get(a)
        if f is None:
            continue
        rep.instance("L.weight", f.loc())
        loops = [lp for lp in walk_no_nested(f.node) if isinstance(lp, ast.For) and norm_src(lp.iter) == "shape"]
        comps = [g for n_ in ast.walk(f.node) if isinstance(n_, (ast.ListComp, ast.GeneratorExp)) for g in n_.generators if norm_src(g.iter) == "shape"]
        if len(loops) == 1:
            lp = loops[0]
            dv = norm_src(lp.target)
            ar = [c for c in ast.walk(lp) if isinstance(c, ast.Call) and (dotted(c.func) or "").split(".")[-1] == "arange"]
            sh = [c for c in ast.walk(lp) if isinstance(c, ast.Call) and (dotted(c.func) or "").split(".")[-1] in ("ifftshift", "fftshift")]
        elif not loops and len(comps) == 1:
            # the same grid written as comprehensions: one over the axis sizes builds the axes, the shift is applied to each of them
            lp = f.node
            dv = norm_src(comps[0].target)
            ar = [c for c in ast.walk(f.node) if isinstance(c, ast.Call) and (dotted(c.func) or "").split(".")[-1] == "arange"]
            sh = [c for c in ast.walk(f.node) if isinstance(c, ast.Call) and (dotted(c.func) or "").split(".")[-1] in ("ifftshift", "fftshift")]
        else:
            rep.ob("L", a, "per-axis frequency grid loop found", None, "", node=f.node, fn=f, clause="2 layout", stmt=f"def nd_butterworth_weight ({a})")
            continue
        if len(ar) != 1 or len(sh) != 1 or len(ar[0].args) < 2:
            rep.ob("L", a, "grid is arange(lo, hi) followed by one shift", None, f"arange: {len(ar)}, shift: {len(sh)}", node=lp, fn=f, clause="2 layout",
                   stmt=f"weight grid ({a})")
            continue
        kind = (dotted(sh[0].func) or "").split(".")[-1]
        per = {}
        for parity in ("even", "odd"):
            dom = AffineDomain(model, integer_syms={"k"}, positive_syms={"k"})
            it = Interp(model, dom, depth=0)
            k = dom.sym("k")
            n = dom.add(k, k) if parity == "even" else dom.add(dom.add(k, k), mkA(1))
            lo = it.eval(ar[0].args[0], {dv: n}, f)
            hi = it.eval(ar[0].args[1], {dv: n}, f)
            if not (isinstance(lo, A) and isinstance(hi, A)):
                per[parity] = (None, "bounds not evaluable")
                continue
            length = dom.add(hi, dom.neg(lo))
            half = dom.floordiv(n, mkA(2))
            r = half if kind == "fftshift" else dom.add(n, dom.neg(half))
            ok = length.equals(n) and dom.neg(lo).equals(half) and r.equals(dom.add(n, dom.neg(half)))
            per[parity] = (ok, f"n={'2k' if parity == 'even' else '2k+1'}: arange({lo!r}, {hi!r}) has {length!r} points, zero at index {dom.neg(lo)!r}, "
                               f"{kind} rolls by {r!r}; FFT order needs zero at n//2 = {half!r} and a roll of ceil(n/2) = {dom.add(n, dom.neg(half))!r}")
        results[a] = tuple((p, per[p][0]) for p in per)
        for parity, (ok, det) in per.items():
            rep.ob("L", a, f"Butterworth weight grid is FFT-ordered (matches fftn/rfftn bins) for {parity} axis lengths", ok, det, node=lp, fn=f, clause="2 layout",
                   stmt=f"weight grid #{parity} ({a})")
        # half spectrum: only the last axis is truncated to n//2 + 1
        s = norm_src(f.node)
        ifs = [n_ for n_ in walk_no_nested(f.node) if isinstance(n_, ast.If) and norm_src(n_.test) == "real"]
        MW = Matcher(f)
        ok_half = len(ifs) == 1 and (MW.has("if real:\n    $lim = shape[-1] // 2 + 1\n    $rg[-1] = $rg[-1][:$lim]") or
                                     MW.has("if real:\n    $rg[-1] = $rg[-1][:shape[-1] // 2 + 1]"))
        rep.ob("L", a, "with real=True only the last axis is truncated to n//2 + 1 (the rfftn layout)", ok_half, "", node=f.node, fn=f, clause="2 layout",
               stmt=f"weight half ({a})")
    if len(results) == 2:
        rep.ob("S11", "butterworth siblings", "numpy-level and backend-level weight grids have the same layout", len(set(results.values())) == 1, f"{results}",
               clause="5 siblings", stmt="weight siblings layout")
    rep.floor("L.weight", 2, "(two weight builders)")


def formula_clause(model, rep, funcs):
    for a in WEIGHTS:
        f = funcs.get(a)
        if f is None:
            continue
        rep.instance("H.weight", f.loc())
        dom = AffineDomain(model, positive_syms={"q2", "order"})
        it = Interp(model, dom, depth=0)
        MW = Matcher(f)
        bw: dict = {}
        okq, _ = MW.all_of(["$q2 = reduce($$add, $$grid)", "return $$w"], bw)
        wf = [r for r in walk_no_nested(f.node) if isinstance(r, ast.Return) and r.value is not None]
        ok = None
        det = ""
        if okq and len(wf) == 1:
            q2n = msrc(bw["q2"][1])
            wexpr = MW.expr(wf[0].value, keep=(q2n,))
            env = {q2n: dom.sym("q2"), "order": dom.sym("order")}
            got = it.eval(wexpr, dict(env), f)
            want = it.eval(ast.parse("1 / (1 + q2 ** order)", mode="eval").body, {"q2": dom.sym("q2"), "order": dom.sym("order")}, f)
            ok = isinstance(got, A) and isinstance(want, A) and got.equals(want)
            det = f"weight = {norm_src(wexpr)}"
        rep.ob("H", a, "weight = 1 / (1 + q2**order): gain 1 at zero frequency, real and positive", ok, det, node=(wf[0] if wf else f.node), fn=f,
               clause="3 formula", stmt=f"wfilt ({a})")
        # q2: decided on symbolic terms.  Whatever builds the per-axis list (append loop, one or two comprehensions), the generic element handed to
        # meshgrid(*ranges) must be ifftshift((arange(..) / (d * cutoff)) ** 2) with d the generic element of `shape`, and q2 the add-reduction of the sparse ij mesh
        from ..domains.terms import T, TermDomain, callee_name, freeze
        from ..absint import Const as _Const, ListOf as _ListOf
        tdom = TermDomain()
        tit = Interp(model, tdom, depth=0)
        seen_mesh = []

        def on_call(interp, fn_, node, callee, args, kwargs, env, _f=f):
            if fn_ is _f and (dotted(node.func) or norm_src(node.func)).split(".")[-1] == "meshgrid":
                seen_mesh.append((node, list(args), dict(kwargs)))

        tit.on_call.append(on_call)
        targs = {p_: T("param", (p_,)) for p_ in f.param_names()}
        targs["real"] = _Const(False)
        try:
            tit.run(f, args=targs)
        except Exception:  # pragma: no cover
            seen_mesh = []
        ok2, det2 = None, "meshgrid call not evaluated"
        if len(seen_mesh) == 1:
            node_, margs, mkw = seen_mesh[0]
            el = None
            if len(margs) == 1 and isinstance(margs[0], tuple) and margs[0][0] == "*":
                v = margs[0][1]
                el = v.elem if isinstance(v, _ListOf) else None
            elif margs and all(isinstance(x, T) for x in margs) and len({freeze(x) for x in margs}) == 1:
                el = margs[0]
            d = T("elem", (T("param", ("shape",)),))
            cut = T("param", ("cutoff",))
            ok2 = False
            det2 = f"per-axis term {el!r}"[:220]
            # a re-ordering of the samples commutes with an element-wise power: ifftshift(x) ** 2 is ifftshift(x ** 2)
            if isinstance(el, T) and el.op == "op" and el.args[0] == "Pow" and isinstance(el.args[1], T) and callee_name(el.args[1]) == "ifftshift" and el.args[1].args[1]:
                sh_ = el.args[1]
                el = T("call", (sh_.args[0], (T("op", ("Pow", sh_.args[1][0], el.args[2])),) + tuple(sh_.args[1][1:]), sh_.args[2]))
            if isinstance(el, T) and callee_name(el) == "ifftshift" and el.args[1]:
                pw = el.args[1][0]
                if isinstance(pw, T) and pw.op == "op" and pw.args[0] == "Pow" and pw.args[2] == T("const", ("2",)):
                    q = pw.args[1]
                    if isinstance(q, T) and q.op == "op" and q.args[0] == "Div" and callee_name(q.args[1]) == "arange":
                        den = q.args[2]
                        ok2 = isinstance(den, T) and den.op == "op" and den.args[0] == "Mult" and {den.args[1], den.args[2]} == {d, cut}
                        if not ok2:
                            det2 = f"denominator {den!r} is not d * cutoff"
                    else:
                        det2 = f"squared quantity {q!r} is not arange(...) / (d * cutoff)"[:220]
                elif isinstance(pw, T):
                    det2 = f"the shifted per-axis array {pw!r} is not a square (the square must be taken per axis, before the sum)"[:220]
            ij = mkw.get("indexing")
            if ok2 and not (isinstance(ij, _Const) and ij.value == "ij"):
                ok2, det2 = False, "meshgrid is not called with indexing='ij'"
        red = [c for c in calls_in(f) if dotted(c.func) == "reduce"]
        sum_ok = bool(red) and norm_src(red[0].args[0]).endswith("add") and len(red[0].args) == 2 and \
            any(isinstance(x, ast.Call) and (dotted(x.func) or norm_src(x.func)).split(".")[-1] == "meshgrid" for x in ast.walk(MW.expr(red[0].args[1])))
        rep.ob("H", a, "each axis contributes (k / (d * cutoff))**2 (frequency in cycles per pixel over the cutoff), squared before the sparse-meshgrid sum",
               (ok2 and sum_ok) if ok2 is not None else None, det2 + f"; sum over axes ok: {sum_ok}", node=f.node, fn=f, clause="3 formula", stmt=f"q2 ({a})")
        # the weight depends on the image only through its shape  => linear filter
        params = f.param_names()
        rep.ob("H", a, "the weight is a function of (shape, cutoff, order, real) only, i.e. independent of the image values (=> the filter is linear)",
               "img" not in params and "image" not in params, f"parameters {params}", node=f.node, fn=f, clause="3 formula", stmt=f"weight params ({a})")


def _guard_form(model, f, test):
    dom = AffineDomain(model, positive_syms={"ndim"})
    it = Interp(model, dom, depth=0)
    env = {"cutoff": dom.sym("cutoff"), "img": dom.sym("img"), "np": ExtRef("numpy")}
    v = it.eval(test, env, f)
    def key(x):
        if isinstance(x, BoolC):
            d = x.diff
            return ("c", repr(d), x.op)
        if isinstance(x, (BoolOr, BoolAnd)):
            return (type(x).__name__, tuple(sorted(key(p) for p in x.parts)))
        return ("?", repr(x))
    return key(v)


def guard_clause(model, rep, funcs):
    forms = {}
    ref = ast.parse("cutoff >= 0.5 * np.sqrt(img.ndim) or cutoff <= 0", mode="eval").body
    for a in REAL + FT:
        f = funcs.get(a)
        if f is None:
            continue
        rep.instance("GUARD.identity", f.loc())
        first = [n for n in f.node.body if isinstance(n, ast.If)]
        if not first:
            rep.ob("GUARD", a, "identity guard present", False, "no guard: a non-positive or beyond-Nyquist cutoff is not the identity", node=f.node, fn=f,
                   clause="4 identity", stmt=f"guard ({a})")
            continue
        g = first[0]
        MGd = Matcher(f)
        test = MGd.expr(g.test)  # named thresholds / flags (`no_filter = ...`) expanded
        body, orelse = g.body, g.orelse
        while isinstance(test, ast.UnaryOp) and isinstance(test.op, ast.Not):
            # `if not G: <filter> else: <identity>` is `if G: <identity> else: <filter>`
            test = test.operand
            body, orelse = (orelse if orelse else [st for st in f.node.body[f.node.body.index(g) + 1:]]), body
        got = _guard_form(model, f, test)
        want = _guard_form(model, f, ref)
        forms[a] = got
        ret = [r for r in body if isinstance(r, ast.Return)]
        is_ft = a in FT
        rv = norm_src(Matcher(f).expr(ret[0].value)) if ret else ""  # temporaries expanded: `img_ft = fftn(img); ...; return img_ft`
        ret_ok = bool(ret) and (rv == "img" if not is_ft else rv in ("fftn(img)", "backend.fftn(img)"))
        rep.ob("GUARD", a, "identity guard is `cutoff >= 0.5*sqrt(ndim) or cutoff <= 0` and returns the input " + ("spectrum" if is_ft else "image") + " unchanged",
               got == want and ret_ok, f"guard `{norm_src(g.test)}` returns `{norm_src(ret[0].value) if ret else None}`", node=g, fn=f, clause="4 identity",
               stmt=f"guard ({a})")
    if forms:
        rep.ob("S11", "low-pass siblings", "the four low-pass functions share one identity guard", len(set(forms.values())) == 1, "", clause="5 siblings",
               stmt="guard siblings")


def sibling_clause(model, rep, funcs):
    # same weight function, differing only in `real`
    for group in (REAL, FT):
        for a in group:
            f = funcs.get(a)
            if f is None:
                continue
            rep.instance("S11.lowpass", f.loc())
            w = [c for c in calls_in(f) if (dotted(c.func) or "").endswith("nd_butterworth_weight")]
            ok = len(w) == 1
            det = ""
            if ok:
                args = [norm_src(x) for x in w[0].args] + [f"{k.arg}={norm_src(k.value)}" for k in w[0].keywords]
                want_real = "real=True" if a in REAL else "real=False"
                ok = args[:3] == ["img.shape", "cutoff", "order"] and want_real in args
                det = f"nd_butterworth_weight({', '.join(args)})"
            prod = [n for n in ast.walk(f.node) if isinstance(n, ast.BinOp) and isinstance(n.op, ast.Mult) and "weight" in norm_src(n)]
            fam = "rfftn(img)" if a in REAL else "fftn(img)"
            px = norm_src(Matcher(f).expr(prod[0])) if prod else ""  # `img_ft = rfftn(img); weight * img_ft` is the same product
            ok = ok and len(prod) == 1 and fam in px and ("rfftn" in px) == (a in REAL)
            rep.ob("S11", a, "weight(img.shape, cutoff, order, real=" + ("True" if a in REAL else "False") + ") multiplies the " + ("half" if a in REAL else "full") +
                   " spectrum of the image (weight and spectrum layouts agree)", ok, det + f"; product `{norm_src(prod[0]) if prod else None}`", node=f.node, fn=f,
                   clause="5 siblings", stmt=f"lowpass weight use ({a})")
    for a, target in (("acryo/backend/_api.py::Backend.lowpass_filter", "_bandpass.lowpass_filter(self, self.asarray(img), cutoff, order)"),
                      ("acryo/backend/_api.py::Backend.lowpass_filter_ft", "_bandpass.lowpass_filter_ft(self, self.asarray(img), cutoff, order)"),
                      ("acryo/pipe/_transform.py::lowpass_filter", "_utils.lowpass_filter(img, cutoff=cutoff, order=order)"),
                      ("acryo/alignment/_base.py::TomographyInput.pre_transform", "backend.lowpass_filter_ft(image, cutoff=self._cutoff)")):
        f = funcs.get(a)
        if f is None:
            continue
        rets = [r for r in walk_no_nested(f.node) if isinstance(r, ast.Return) and r.value is not None]
        rep.instance("S11.lowpass", f.loc())
        ok = len(rets) == 1 and Matcher(f).has("return " + target)
        rep.ob("S11", a, "delegates to the low-pass implementation without re-scaling the cutoff (cycles per pixel)", ok, norm_src(rets[0].value) if rets else "",
               node=f.node, fn=f, clause="5 siblings", stmt=f"delegate ({a})")
    f = funcs.get("acryo/alignment/_base.py::TomographyInput.__init__")
    if f is not None:
        st = [n for n in walk_no_nested(f.node) if isinstance(n, ast.Assign) and norm_src(n.targets[0]) == "self._cutoff"]
        rep.instance("S11.lowpass", f.loc())
        ok = len(st) == 1 and norm_src(st[0].value) in ("cutoff or 1.0", "1.0 if cutoff is None else cutoff")
        rep.ob("S11", f.anchor, "the model stores the user's cutoff (no cutoff -> 1.0, beyond Nyquist = identity)", ok, norm_src(st[0].value) if st else "",
               node=f.node, fn=f, clause="5 siblings", stmt="TomographyInput cutoff")


def check(model, rep, tier):
    rep.decided += ["C16.1 irfftn restores the input shape (s=img.shape)", "C16.2 weight grid is FFT-ordered for both parities; half-spectrum truncation on the last axis only",
                    "C16.3 weight = 1/(1+q2**order), q2 = sum (k/(d*cutoff))**2, independent of image values (linear, unit DC gain, real and even => zero phase)",
                    "C16.4 identity guard shared by all four low-pass functions", "C16.5 numpy/backend siblings and delegations agree"]
    rep.not_decided += ["numerical agreement between implementations"]
    funcs = need_funcs(model, rep, ANCHORS)
    shape_clause(model, rep, funcs)
    layout_clause(model, rep, funcs)
    formula_clause(model, rep, funcs)
    guard_clause(model, rep, funcs)
    sibling_clause(model, rep, funcs)
    from .generic import axis_convention_obligations
    axis_convention_obligations(model, rep, ["acryo/backend/_bandpass.py", "acryo/_utils.py"], "2 layout", floor=3)
    from .generic import with_params_forwarding_obligations
    with_params_forwarding_obligations(model, rep, "3 callers", ("cutoff",))
    rep.floor("WPARAM", 1, "(with_params of the alignment model classes that name this option)")
