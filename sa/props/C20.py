"""C20 - particle picking finds planted particles regardless of chunking (DESIGN 5, C20).

All structural rules are stated as AST patterns matched modulo local-variable names and introduced temporaries (sa.match), or
as symbolic forms computed by the interpreter; no rule depends on the spelling of a local variable."""
from __future__ import annotations

import ast
from fractions import Fraction

from ..absint import TOP, Const, DictV, ExtRef, FuncRef, Interp, Tup
from ..domains.affine import A, Poly, mkA
from ..domains.arrays import Arr, ArrayDomain
from ..domains.units import PX, U_NM, U_S, UnitsDomain
from ..match import Matcher, src
from ..repo import calls_in, dotted, norm_src
from .common import kwarg, need_funcs
from . import C05

PB = "acryo/pick/_base.py::"
PCC = "acryo/pick/_concrete.py::"
ANCHORS = [PB + "BasePickerModel.pick_molecules", PB + "BasePickerModel._pick_in_chunk_wrapped", PB + "BasePickerModel._depth_margin",
           PB + "BaseTemplateMatcher.get_params_and_depth", PB + "BaseTemplateMatcher._index_to_quaternions", PB + "MoleculesBox.to_molecules",
           PCC + "ZNCCTemplateMatcher.pick_molecules", PCC + "ZNCCTemplateMatcher.pick_in_chunk", PCC + "ZNCCTemplateMatcher._depth_margin",
           PCC + "LoGPicker.pick_in_chunk", PCC + "LoGPicker.get_params_and_depth", PCC + "DoGPicker.pick_in_chunk", PCC + "DoGPicker.get_params_and_depth",
           PCC + "find_maxima", PCC + "maximum_filter", PCC + "simple_pick"]
SIGMA_FIELDS = ("_sigma", "_sigma_low", "_sigma_high")


class PickUnits(UnitsDomain):
    def seed_field(self, interp, obj, name, node):
        if name in SIGMA_FIELDS:
            return U_NM
        return super().seed_field(interp, obj, name, node)

    def seed_param(self, interp, fn, arg):
        if arg.arg == "scale":
            return U_S
        return super().seed_param(interp, fn, arg)


class PickForms(ArrayDomain):
    """sigma fields are seeded as (width in pixels) * scale so that sigma / scale is a plain symbol."""

    def seed_field(self, interp, obj, name, node):
        if name in SIGMA_FIELDS:
            s = self.sym("px" + name)
            self.positive.add("px" + name)
            return A(s.num * self.sym("scale").num)
        return super().seed_field(interp, obj, name, node)


def _strip_asarray(e):
    while isinstance(e, ast.Call) and (dotted(e.func) or "") in ("np.asarray", "np.array", "numpy.asarray", "numpy.array", "tuple", "list") and e.args:
        e = e.args[0]
    return e


def _class_invariants(model, dom, cls_anchor):
    """Facts p >= 0 between the pixel widths that the constructor enforces (``if a >= b: raise`` with a, b stored in sigma fields)."""
    try:
        ini = model.func(cls_anchor + ".__init__")
    except Exception:
        return []
    M = Matcher(ini)
    out = []
    for pat, strict in (("if $a >= $b:\n    raise $$e", True), ("if $a > $b:\n    raise $$e", False)):
        for _, b in M.find(pat):
            fa = [bb for _, bb in M.find("self.$$_ = $a", b)]
            stores = {}
            for st in ast.walk(ini.node):
                if isinstance(st, ast.Assign) and isinstance(st.targets[0], ast.Attribute) and isinstance(st.value, ast.Name):
                    stores[st.value.id] = st.targets[0].attr
            a, c = src(b["a"][1]), src(b["b"][1])
            if stores.get(a) in SIGMA_FIELDS and stores.get(c) in SIGMA_FIELDS:
                # on the normal path a < b (or a <= b): px_b - px_a >= 0
                out.append(dom.sym("px" + stores[c]).poly() - dom.sym("px" + stores[a]).poly())
    return out


def units_clause(model, rep, funcs):
    for a in (PCC + "LoGPicker.get_params_and_depth", PCC + "DoGPicker.get_params_and_depth"):
        f = funcs.get(a)
        if f is None:
            continue
        dom = PickUnits(model)
        out = Interp(model, dom, depth=0).run(f)
        rep.instance("U.pick", f.loc())
        ok = None
        det = f"{out!r}"[:200]
        if isinstance(out, Tup) and len(out.items) == 2 and isinstance(out.items[0], DictV) and out.items[0].items:
            ok = True
            for k, v in out.items[0].items.items():
                u = dom._lift(v)
                if u is None:
                    ok, det = None, f"parameter `{k}` has no unit"
                    break
                if not u.fits(frozenset({PX})):
                    ok = False
                    det = f"parameter `{k}` handed to pick_in_chunk is {u!r}, pixels required (sigma / scale)"
        rep.ob("U", a, "filter widths are converted from nm to pixels (sigma / scale) before they reach scipy.ndimage", ok, det, node=f.node, fn=f, clause="units",
               stmt=f"def get_params_and_depth units ({a})")
    f = funcs.get(PCC + "ZNCCTemplateMatcher.pick_molecules")
    if f is not None:
        c = [x for x in calls_in(f) if isinstance(x.func, ast.Attribute) and x.func.attr == "pick_molecules"]
        rep.instance("U.pick", f.loc())
        ok, det = None, "no call of the base pick_molecules"
        if c:
            dom = PickUnits(model, seeds={(f.anchor, "min_distance"): U_NM})
            it = Interp(model, dom, depth=0)
            seen = []

            def on_call(interp, fn, node, callee, args, kwargs, env):
                if node is c[0]:
                    seen.append(kwargs.get("min_distance"))

            it.on_call.append(on_call)
            it.run(f)
            if seen and seen[0] is not None:
                u = dom._lift(seen[0])
                if u is not None:
                    ok = u.fits(frozenset({PX}))
                    det = f"min_distance reaches the per-chunk maxima search as {u!r}"
        rep.ob("U", f.anchor, "min_distance is converted to pixels (min_distance / scale) for the per-chunk maxima search", ok, det,
               node=f.node, fn=f, clause="units", stmt="ZNCC min_distance")


def _maxima_radius_rule(rep, funcs, model=None):
    """maximum_filter(image, radius) looks exactly ceil(radius) pixels around each voxel."""
    f = funcs.get(PCC + "maximum_filter")
    if f is None:
        return False
    M = Matcher(f)
    b: dict = {}
    ok, why = M.all_of(["$r = int(np.ceil(radius))", "return ndi.maximum_filter(image, ..., footprint=$$foot)"], b)
    ok2 = False
    if ok:
        # the footprint is a ball of that radius centred in the (2r+1)^3 box (idioms enumerated in common.ball_footprint)
        from .common import ball_footprint
        ok2 = ball_footprint(M, "$r", "radius", b)
        if not ok2:
            why = "the footprint is not recognised as the ball sum_k offset_k**2 <= radius**2 over offsets -ceil(radius)..ceil(radius)"
    rep.instance("S17", f.loc())
    rep.ob("S17", f.anchor, "the maxima search looks ceil(radius) pixels around each voxel (ball footprint in a (2*ceil(r)+1)^3 box)", bool(ok and ok2), why, node=f.node,
           fn=f, clause="halo", stmt="maximum_filter radius")
    # the shortcut that returns the image unfiltered is only right where the ball contains the centre voxel alone, i.e. for radius < 1 (at radius == 1 the six
    # face neighbours belong to the ball: skipping the filter there reports adjacent voxels as separate maxima)
    try:
        from fractions import Fraction
        from ..absint import Interp as _I, Const as _C
        from ..domains.affine import AffineDomain as _AD, mkA as _mk
        dom = _AD(model)
        it = _I(model, dom, depth=0)
        marker = _C("<the image>")
        bad = []

        def on_return(interp, fn_, st, val, env):
            if fn_ is f and val is marker:
                pcs = env.get("$pc", ())
                # the path condition is a conjunction of comparisons of `radius` with constants: deciding it on the thresholds, the points between and beyond
                # them is exact for such conditions
                ths = set()
                lin = True
                for c_ in pcs:
                    if not hasattr(c_, "diff"):
                        continue
                    d_ = c_.diff
                    v0, v1 = dom.eval_form(d_, {"radius": Fraction(0)}), dom.eval_form(d_, {"radius": Fraction(1)})
                    if v0 is None or v1 is None:
                        lin = False
                        continue
                    if v1 != v0:
                        ths.add(-v0 / (v1 - v0))
                pts = sorted(ths | {Fraction(1)})
                samples = set(pts) | {(a_ + b_) / 2 for a_, b_ in zip(pts, pts[1:])} | {pts[0] - 1, pts[-1] + 1}
                w = None
                for r_ in sorted(x for x in samples if x >= 1):
                    asg = {"radius": r_}
                    if all((lambda v_: v_ is not None and {"<": v_ < 0, "<=": v_ <= 0, ">": v_ > 0, ">=": v_ >= 0, "==": v_ == 0, "!=": v_ != 0}[c_.op])
                           (dom.eval_form(c_.diff, asg)) for c_ in pcs if hasattr(c_, "diff")):
                        w = float(r_)
                        break
                if w is not None or not lin:
                    bad.append((st, w))

        it.on_return.append(on_return)
        it.run(f, args={f.param_names()[0]: marker, "radius": dom.sym("radius")})
        rep.instance("S17", f.loc() + " [shortcut]")
        oks = not bad
        dets = ""
        if bad:
            st_, w_ = bad[0]
            oks = False if w_ is not None else None
            dets = f"`{norm_src(st_)}` is reached" + (f" for radius = {w_}: the ball of that radius has neighbours, the filter must run" if w_ is not None else
                                                        " on a path that does not imply radius < 1")
        rep.ob("S17", f.anchor, "the image is returned unfiltered only for radius < 1 (ball = centre voxel)", oks, dets, node=(bad[0][0] if bad else f.node), fn=f,
               clause="halo", stmt="maximum_filter shortcut")
    except (KeyError, AttributeError) as e:  # pragma: no cover
        rep.note(f"maximum_filter shortcut not evaluated ({e!r})")
    g = funcs.get(PCC + "find_maxima")
    okg = False
    if g is not None:
        okg = Matcher(g).has("maximum_filter(img, min_distance)")
        rep.ob("S17", g.anchor, "find_maxima searches maxima with radius min_distance", okg, "", node=g.node, fn=g, clause="halo", stmt="find_maxima radius")
    return bool(ok and ok2 and okg)


def _halo_semantics(model, g, dpar):
    """Abstract evaluation of the chunk wrapper on per-axis symbols: positions P_k (columns of `pos`), chunk starts s_k (block_info[None]['array-location']),
    overlap d_k, overlapped chunk sizes n_k.  Returns (mask constraints, final columns, filtered arguments of MoleculesBox) or an error string."""
    from dataclasses import dataclass as _dc
    from ..domains.affine import AffineDomain as _AD, BoolAnd as _BA, BoolC as _BC
    from ..absint import ClassRef as _CR

    @_dc(frozen=True)
    class Cols:
        cols: tuple
        maybe_none = False

    @_dc(frozen=True)
    class Rows:
        name: str
        maybe_none = False

    @_dc(frozen=True)
    class Filt:
        base: object
        mask: object
        maybe_none = False

    @_dc(frozen=True)
    class Mark:
        kind: str
        maybe_none = False

    def _as_int(k):
        if isinstance(k, Const) and isinstance(k.value, int):
            return k.value
        if isinstance(k, A) and k.is_poly() and k.poly().is_const():
            return int(k.poly().const_value())
        return None

    class HD(_AD):
        def _is_mask(self, v):
            return isinstance(v, (_BC, _BA)) or (isinstance(v, Const) and v.value is True)

        def call_external(self, interp, name, recv, args, kwargs, node):
            last = (name or "").rsplit(".", 1)[-1]
            if last == "ones" and "bool" in norm_src(node):
                return _BA(())
            return super().call_external(interp, name, recv, args, kwargs, node)

        def call_repo(self, interp, funcs_, bound, args, kwargs, node):
            if {x.name for x in funcs_} == {"pick_in_chunk"}:
                return Tup([Cols(tuple(self.sym(f"P{k}") for k in range(3))), Rows("quats"), Rows("features")])
            return super().call_repo(interp, funcs_, bound, args, kwargs, node)

        def binop(self, interp, op, l, r, node):
            if isinstance(op, ast.BitAnd) and self._is_mask(l) and self._is_mask(r):
                parts = []
                for v in (l, r):
                    if isinstance(v, _BA):
                        parts += list(v.parts)
                    elif isinstance(v, _BC):
                        parts.append(v)
                return _BA(tuple(parts))
            return super().binop(interp, op, l, r, node)

        def attr(self, interp, val, name, node):
            if isinstance(val, Mark) and val.kind == "image" and name == "shape":
                return Tup([self.sym(f"n{k}") for k in range(3)])
            if isinstance(val, Cols) and name == "shape":
                return Tup([self.sym("N"), mkA(3)])
            return super().attr(interp, val, name, node)

        def subscript(self, interp, val, index_node, index_val, node):
            if isinstance(val, Mark) and val.kind == "block_info":
                return Mark("block_info[None]") if norm_src(index_node) == "None" else TOP
            if isinstance(val, Mark) and val.kind == "block_info[None]":
                if norm_src(index_node) in ("'array-location'", '"array-location"'):
                    return Tup([Tup([self.sym(f"s{k}"), self.sym(f"e{k}")]) for k in range(3)])
                return TOP
            if isinstance(val, Cols):
                if isinstance(index_node, ast.Tuple) and len(index_node.elts) == 2 and isinstance(index_node.elts[0], ast.Slice) and index_node.elts[0].lower is None \
                        and index_node.elts[0].upper is None and isinstance(index_val, Tup):
                    kk = _as_int(index_val.items[1])
                    if kk is not None and 0 <= kk < 3:
                        return val.cols[kk]
                    return TOP
                if self._is_mask(index_val):
                    return Filt(val, index_val)
                return TOP
            if isinstance(val, Rows):
                return Filt(val, index_val) if self._is_mask(index_val) else TOP
            if isinstance(val, Tup) and _as_int(index_val) is not None and -len(val.items) <= _as_int(index_val) < len(val.items):
                return val.items[_as_int(index_val)]  # shape[i] with the loop index known
            return super().subscript(interp, val, index_node, index_val, node)

        def store_sub(self, interp, container, index_node, index_val, value, node):
            if isinstance(container, Cols) and isinstance(index_node, ast.Tuple) and len(index_node.elts) == 2 and isinstance(index_val, Tup):
                kk = _as_int(index_val.items[1])
                if kk is not None and 0 <= kk < 3 and isinstance(value, A):
                    cols = list(container.cols)
                    cols[kk] = value
                    return Cols(tuple(cols))
            return TOP

    dom = HD(model, integer_syms={f"{c}{k}" for c in "Psden" for k in range(3)}, nonneg_syms={f"d{k}" for k in range(3)})
    it = Interp(model, dom, depth=0)
    box = []

    def on_call(interp, fn_, node, callee, args, kwargs, env):
        if fn_ is g and isinstance(callee, _CR) and callee.cls.name == "MoleculesBox":
            box.append(list(args))

    it.on_call.append(on_call)
    args = {"image": Mark("image"), "block_info": Mark("block_info"), dpar: Tup([dom.sym(f"d{k}") for k in range(3)])}
    try:
        it.run(g, args=args)
    except Exception as e:
        return f"the wrapper could not be evaluated ({e!r})"[:200]
    if len(box) != 1 or len(box[0]) < 2:
        return f"{len(box)} MoleculesBox constructions evaluated"
    a0, a1 = box[0][0], box[0][1]
    if not (isinstance(a0, Filt) and isinstance(a0.base, Cols) and isinstance(a1, Filt) and isinstance(a1.base, Rows)):
        return f"MoleculesBox receives {a0!r}, {a1!r}: positions / orientations are not filtered by a mask"[:220]
    if a0.mask != a1.mask:
        return "positions and orientations are filtered with different masks"
    return dom, a0.mask, a0.base.cols


def halo_clause(model, rep, funcs):
    f = funcs.get(PB + "BasePickerModel.pick_molecules")
    g = funcs.get(PB + "BasePickerModel._pick_in_chunk_wrapped")
    if f is None or g is None:
        return
    mo = [c for c in calls_in(f) if isinstance(c.func, ast.Attribute) and c.func.attr == "map_overlap"]
    rep.instance("S17", f.loc())
    if len(mo) != 1:
        rep.ob("S17", f.anchor, "block-wise picking uses one map_overlap call", None, f"{len(mo)} calls", node=f.node, fn=f, clause="halo", stmt="map_overlap")
        return
    c = mo[0]
    MF, MG = Matcher(f), Matcher(g)
    trim = kwarg(c, "trim")
    trimmed = trim is None or (isinstance(trim, ast.Constant) and trim.value is True)
    depth = kwarg(c, "depth")
    fn_arg = c.args[0] if c.args else None
    ok_fn = fn_arg is not None and norm_src(fn_arg) == "self._pick_in_chunk_wrapped"
    rep.ob("S17", f.anchor, "map_overlap maps the chunk wrapper", ok_fn, norm_src(fn_arg) if fn_arg is not None else "", node=c, fn=f, clause="halo",
           stmt="map_overlap target")
    if depth is None:
        rep.ob("S17", f.anchor, "map_overlap is given an explicit depth", None, "", node=c, fn=f, clause="halo", stmt="map_overlap depth")
        return
    # (a) the wrapper receives the very depth given to map_overlap
    passed = [k for k in c.keywords if k.arg not in (None, "depth", "trim", "boundary", "dtype", "meta") and norm_src(k.value) == norm_src(depth)]
    params = g.param_names()
    recv = [k.arg for k in passed if k.arg in params]
    rep.ob("S17", f.anchor, "(a) with trim=False the per-chunk worker is told the overlap depth", bool(recv) or trimmed,
           f"depth={norm_src(depth)}; forwarded as {[k.arg for k in passed]}; worker parameters {params}", node=c, fn=f, clause="halo",
           stmt="map_overlap depth forwarded")
    dpar = recv[0] if recv else "overlap_depth"
    # (b) picks in the halo are discarded, (c) chunk start added once: decided on per-axis symbols by abstract evaluation of the wrapper (_halo_semantics) -
    # one loop or several, any spelling of the interior test
    sem = _halo_semantics(model, g, dpar)
    okb, det = False, ""
    okc, detc = False, ""
    if isinstance(sem, str):
        det = detc = sem
    else:
        dom_, mask, cols = sem
        from ..domains.affine import BoolAnd as _BA, BoolC as _BC
        want = []
        for k in range(3):
            P, d, n = dom_.sym(f"P{k}"), dom_.sym(f"d{k}"), dom_.sym(f"n{k}")
            want.append(("ge", dom_.add(P, dom_.neg(d))))            # P - d >= 0
            want.append(("gt", dom_.add(dom_.add(n, dom_.neg(d)), dom_.neg(P))))  # n - d - P > 0
        got = []
        bad = None
        for c in (mask.parts if isinstance(mask, _BA) else [mask]):
            if not isinstance(c, _BC):
                bad = f"mask term {c!r}"
                break
            if c.op in ("<=", "<"):
                got.append(("ge" if c.op == "<=" else "gt", dom_.neg(c.diff)))
            elif c.op in (">=", ">"):
                got.append(("ge" if c.op == ">=" else "gt", c.diff))
            else:
                bad = f"mask term {c!r}"
                break
        if bad is None:
            missing = [w for w in want if not any(g_[0] == w[0] and g_[1].equals(w[1]) for g_ in got)]
            extra = [g_ for g_ in got if not any(g_[0] == w[0] and g_[1].equals(w[1]) for w in want)]
            if missing or extra:
                bad = (f"interior test is {[f'{g_[1]!r} {chr(62)}{chr(61) if g_[0] == chr(103) + chr(101) else str()} 0' for g_ in got]}; required d_k <= P_k < n_k - d_k on every axis of the "
                       "position *in the overlapped chunk* (before the chunk start is added)")[:400]
        if bad is None:
            MGf = Matcher(g)
            okf = MGf.has("{$k: np.asarray($v)[$keep] for $k, $v in $feat.items()}") or MGf.has("{$k: $v[$keep] for $k, $v in $feat.items()}")
            okb = bool(okf)
            det = "" if okf else "the feature columns are not filtered with the mask"
        else:
            det = bad
        # (c) final columns: P_k + s_k (chunk start in the un-overlapped image, read from block_info[None]['array-location'])
        offs = [dom_.add(cols[k], dom_.neg(dom_.sym(f"P{k}"))) for k in range(3)]
        fin = MF.find("$m._pos = ($m._pos - $$back) * scale")
        fin0 = MF.find("$m._pos = $m._pos * scale")
        if all(offs[k].equals(dom_.sym(f"s{k}")) for k in range(3)) and fin:
            back = _strip_asarray(MF.expr(fin[0][1]["back"][1]))
            want_ = _strip_asarray(MF.expr(depth))
            okc = ast.dump(back) == ast.dump(want_)
            detc = (f"positions are shifted back by `{src(fin[0][1]['back'][1])}` but the chunks were overlapped by `{norm_src(depth)}`" if not okc else "")
        elif all(offs[k].equals(dom_.add(dom_.sym(f"s{k}"), dom_.neg(dom_.sym(f"d{k}")))) for k in range(3)) and fin0 and not fin:
            okc = True
        else:
            detc = (f"per-axis offset added to the chunk-local position: {[repr(o) for o in offs]}; final shift "
                    f"`{src(fin[0][0]) if fin else (src(fin0[0][0]) if fin0 else None)}`: the chunk start must be added once and the overlap depth removed exactly once")[:400]
    rep.ob("S17", g.anchor, "(b) picks in the overlapped (halo) region are discarded: each chunk keeps only d <= pos < size - d, applied to positions, orientations "
           "and features alike", okb or trimmed, det, node=g.node, fn=g, clause="halo", stmt="halo filter")
    rep.ob("S17", g.anchor, "(c) global position = position in the overlapped chunk + chunk start in the original image - overlap depth given to dask "
           "(removed exactly once)", okc, detc, node=g.node, fn=g, clause="halo", stmt="chunk offset")
    # the margin is added to the depth that goes to dask
    bm: dict = {}
    okm, whym = MF.all_of(["$p, $dep = self.get_params_and_depth(scale)", "$margin = self._depth_margin(**kwargs)", "$dep2 = tuple($x + $margin for $x in $$dep0)",
                           "$clip = tuple(int(min($s, $y)) for $s, $y in zip($$img.shape, $dep2))"], bm)
    canon_ = lambda e: ast.dump(MF._exp.canon(MF._exp.canon(e)))
    okm2 = bool(okm) and canon_(depth) == canon_(bm["clip"][1])
    rep.ob("S17", f.anchor, "the overlap handed to dask is the picker's depth plus the maxima margin, clipped to the image size", okm2,
           whym or f"depth given to map_overlap is `{norm_src(depth)}`", node=f.node, fn=f, clause="halo", stmt="depth margin clipped")
    # (d) the overlap covers the support of the per-chunk filter and of the maxima filter
    radius_ok = _maxima_radius_rule(rep, funcs, model)
    for cls in ("LoGPicker", "DoGPicker"):
        h = funcs.get(PCC + cls + ".get_params_and_depth")
        w = funcs.get(PCC + cls + ".pick_in_chunk")
        if h is None or w is None:
            continue
        rep.instance("S17", h.loc())
        dom = PickForms(model, positive_syms={"scale"})
        out = Interp(model, dom, depth=0).run(h)
        ok, det = None, f"get_params_and_depth evaluates to {out!r}"[:200]
        if isinstance(out, Tup) and len(out.items) == 2 and isinstance(out.items[0], DictV) and isinstance(out.items[1], A):
            d = out.items[1]
            it = Interp(model, dom, depth=2)
            widths, radii = [], []

            def on_call(interp, fn, node, callee, args, kwargs, env, _w=widths, _r=radii):
                if isinstance(callee, ExtRef) and callee.name.split(".")[-1] in ("gaussian_laplace", "gaussian_filter") and (len(args) >= 2 or "sigma" in kwargs):
                    _w.append(args[1] if len(args) >= 2 else kwargs["sigma"])
                if isinstance(callee, FuncRef) and {x.name for x in callee.funcs} & {"find_maxima"} and len(args) >= 2:
                    _r.append(args[1])

            it.on_call.append(on_call)
            args = {"image": Arr(C05.syms(dom, "n0", "n1", "n2"))}
            args.update(out.items[0].items)
            it.run(w, args=args)
            if widths and radii and all(isinstance(x, A) and x.is_poly() for x in widths + radii) and d.is_poly():
                ok = True
                inv = _class_invariants(model, dom, PCC + cls)

                def covered(wv, rv):
                    need = dom.add(dom.opaque("int", A(wv.poly().scale(4) + Poly.const(Fraction(1, 2)))), dom.opaque("ceil", rv))
                    goal = dom.add(d, dom.neg(need))
                    return bool(goal.is_poly() and dom.prove_ge(goal.poly(), ())), need

                for wv in widths:
                    for rv in radii:
                        good, need = covered(wv, rv)
                        if not good:
                            # int(4w + 0.5) is monotone in w: a wider filter that is covered covers this one (widths ordered by the constructor's guard)
                            good = any(covered(w2, rv)[0] and dom.prove_ge((w2.poly() - wv.poly()), (), extra=inv) for w2 in widths if w2 is not wv)
                        if not good:
                            ok = False
                            det = (f"depth = {d!r} is not >= {need!r}: int(4*sigma + 0.5) is the radius of scipy's Gaussian kernels, ceil(r) the radius of the maxima "
                                   "search; values and maxima near chunk borders differ from those of the whole image")
            else:
                det = f"filter widths {widths!r}, maxima radii {radii!r}, depth {d!r}"[:200]
        rep.ob("S17", h.anchor, "(d) the overlap depth covers the filter support plus the maxima-search radius (interior of each chunk sees what the whole image sees)",
               (ok and radius_ok) if ok is not None else None, det, node=h.node, fn=h, clause="halo", stmt=f"{cls} depth")
    h = funcs.get(PB + "BaseTemplateMatcher.get_params_and_depth")
    zm = funcs.get(PCC + "ZNCCTemplateMatcher._depth_margin")
    zp = funcs.get(PCC + "ZNCCTemplateMatcher.pick_in_chunk")
    if h is not None and zm is not None and zp is not None:
        rep.instance("S17", h.loc())
        MH = Matcher(h)
        # the depth that is returned next to the template bank is ceil(n / 2) per axis of the (rotated) templates: evaluated in the affine domain for even and
        # odd sizes, so `np.ceil(n / 2)`, `(n + 1) // 2`, `n - n // 2` ... are the same depth
        ok1, why = False, "depth expression not found"
        rets_ = [r for r in ast.walk(h.node) if isinstance(r, ast.Return) and isinstance(r.value, ast.Tuple) and len(r.value.elts) == 2]
        if len(rets_) == 1 and MH.has("return {'templates': $t}, $$d"):
            bt: dict = {}
            MH.has("return {'templates': $t}, $$d", bt)
            tname = bt["t"][1].id if isinstance(bt["t"][1], ast.Name) else None
            dexpr = MH.expr(rets_[0].value.elts[1], keep=((tname,) if tname else ()))
            ok1, why = True, ""
            for parity in ("even", "odd"):
                dq = ArrayDomain(model, integer_syms={"k"}, positive_syms={"k"})
                k_ = dq.sym("k")
                n_ = dq.add(k_, k_) if parity == "even" else dq.add(dq.add(k_, k_), mkA(1))
                try:
                    v_ = Interp(model, dq, depth=0).eval(dexpr, {tname or "templates": Tup([Arr((n_, n_, n_))]), "np": ExtRef("numpy")}, h)
                    comps_ = dq.vec(v_)
                except Exception:
                    comps_ = None
                want_ = k_ if parity == "even" else dq.add(k_, mkA(1))
                if not comps_ or len(comps_) != 3 or not all(isinstance(c_, A) and c_.equals(want_) for c_ in comps_):
                    ok1 = False if comps_ else None
                    why = f"overlap depth for {parity} template sizes evaluates to {comps_!r}, required ceil(n/2) = {want_!r}"[:240]
                    break
        dom = ArrayDomain(model, nonneg_syms={"min_distance"})
        out = Interp(model, dom, depth=0).run(zm)
        ok2 = None
        det = why
        if isinstance(out, A) and out.is_poly():
            goal = dom.add(out, dom.neg(dom.add(dom.opaque("ceil", dom.sym("min_distance")), mkA(1))))
            ok2 = bool(goal.is_poly() and dom.prove_ge(goal.poly(), ()))
            if not ok2:
                det = (f"margin = {out!r} is smaller than ceil(min_distance) + 1: a particle within min_distance of a chunk border yields spurious or missing maxima "
                       "in the neighbouring chunk")
        else:
            det = f"margin evaluates to {out!r}"
        zmm = Matcher(zp).has("find_maxima($$l, min_distance, min_score)")
        rep.ob("S17", h.anchor, "(d) template matching: overlap = half the template (no valid correlation closer to the border) plus ceil(min_distance) + 1 for the maxima search",
               bool(ok1 and ok2 and zmm and radius_ok) if ok2 is not None else None, det, node=h.node, fn=h, clause="halo", stmt="template matcher depth")
    # local-maximum detection: a voxel is kept when it equals the maximum of its neighbourhood and exceeds the threshold; one position per connected plateau
    fm = funcs.get(PCC + "find_maxima")
    if fm is not None:
        rep.instance("S17", fm.loc())
        ok, why = Matcher(fm).all_of(["$mf = maximum_filter(img, min_distance)", "$is = ($mf == img) & (img > min_intensity)",
                                      "$lab, $n = ndi.label($is, ...)", "$cen = ndi.center_of_mass(img, $lab, range(1, $n + 1))", "return np.array($cen, ...).reshape(...)"])
        rep.ob("S17", fm.anchor, "local maxima = voxels equal to the neighbourhood maximum and above the threshold; one centre of mass per labelled plateau (labels 1..n)",
               ok, why, node=fm.node, fn=fm, clause="maxima", stmt="find_maxima body")
    # response polarity: particles are bright, the filters answer with a positive peak at the particle centre
    lp = funcs.get(PCC + "LoGPicker.pick_in_chunk")
    if lp is not None:
        rep.instance("S17", lp.loc())
        ok, why = Matcher(lp).all_of(["$f = -ndi.gaussian_laplace(image, sigma)", "$pos = find_maxima($f, sigma, 0.0)", "return simple_pick($f, $pos)"])
        rep.ob("S17", lp.anchor, "LoG response is negated (a bright blob has a negative Laplacian), maxima searched with radius sigma and sampled on the same response",
               ok, why, node=lp.node, fn=lp, clause="maxima", stmt="LoG polarity")
    dp = funcs.get(PCC + "DoGPicker.pick_in_chunk")
    dg = None
    try:
        dg = model.func(PCC + "_differece_of_gaussian")
    except Exception:
        pass
    if dp is not None:
        rep.instance("S17", dp.loc())
        if dg is not None:
            ok, why = Matcher(dp).all_of(["$f = _differece_of_gaussian(image, sigma_low, sigma_high)", "$pos = find_maxima($f, sigma_low, 0.0)", "return simple_pick($f, $pos)"])
            ok2, why2 = Matcher(dg).all_of(["$l = ndi.gaussian_filter(image, sigma_low)", "$h = ndi.gaussian_filter(image, sigma_high)", "return $l - $h"])
        else:
            # the difference is computed in the picker itself (the private helper was inlined)
            ok, why = Matcher(dp).all_of(["$f = ndi.gaussian_filter(image, sigma_low) - ndi.gaussian_filter(image, sigma_high)", "$pos = find_maxima($f, sigma_low, 0.0)",
                                          "return simple_pick($f, $pos)"])
            ok2, why2 = ok, why
        rep.ob("S17", dp.anchor, "DoG response is (narrow Gaussian) - (wide Gaussian), positive on bright blobs; maxima searched with radius sigma_low", bool(ok and ok2),
               why or why2, node=dp.node, fn=dp, clause="maxima", stmt="DoG polarity")
    sp = funcs.get(PCC + "simple_pick")
    if sp is not None:
        ss = None
        try:
            ss = model.func(PCC + "_sample_score")
        except Exception:
            pass
        ok = Matcher(sp).has("$score = _sample_score(img, pos)") and ss is not None and Matcher(ss).has("return ndi.map_coordinates(img, pos.T, ...)")
        rep.ob("S17", sp.anchor, "the score of a pick is the response sampled at the pick (image first, positions second)", bool(ok), "", node=sp.node, fn=sp,
               clause="maxima", stmt="simple_pick score")
    # empty chunks do not break the per-chunk worker
    fm = funcs.get(PCC + "find_maxima")
    if fm is not None:
        rep.instance("S17", fm.loc())
        M = Matcher(fm)
        ok = M.has("return np.array($$c, ...).reshape(-1, img.ndim)") or M.has("return np.array($$c, ...).reshape(-1, 3)")
        rep.ob("S17", fm.anchor, "a chunk without maxima yields an empty (0, ndim) position array (not a (0,) array)", ok, "", node=fm.node, fn=fm, clause="halo",
               stmt="find_maxima empty")


def bank_clause(model, rep, funcs):
    f = funcs.get(PB + "BaseTemplateMatcher.get_params_and_depth")
    if f is not None:
        rep.instance("F.bank", f.loc())
        M = Matcher(f)
        b: dict = {}
        ok, why = M.all_of(["$rot = [Rotation.from_quat($r).inv() for $r in self._quaternions]", "$mats = compose_matrices($$c, $rot)",
                            "for $m in $mats:\n    $pool.add_task($tmpl, $m, ...)", "$out = $pool.compute()", "$ts = [$o * $mask for $o in $out]",
                            "return {'templates': $ts}, $$d"], b)
        okc = None
        if ok:
            # rotation centre = (n - 1) / 2 of the template
            dom = C05.mkdom(model)
            t = C05.syms(dom, "r0", "r1", "r2")
            cexpr = M.expr(b["c"][1])
            env = {"np": ExtRef("numpy")}
            for n in ast.walk(cexpr):
                if isinstance(n, ast.Name) and n.id != "np":
                    env[n.id] = Arr(t)
            v = Interp(model, dom, depth=0).eval(cexpr, env, f)
            vv = dom.vec(v) if v is not TOP else None
            if vv and len(vv) == 3:
                okc = all(vv[i].equals(dom.div(dom.add(t[i], mkA(-1)), mkA(2))) for i in range(3))
                if not okc:
                    why = f"templates are rotated about {vv!r}, not about their centre (n - 1) / 2"
        rep.ob("F", f.anchor, "the template bank is rendered with the inverse of each searched rotation, about the template centre, one entry per quaternion in order",
               bool(ok and okc) if (not ok or okc is not None) else None, why, node=f.node, fn=f, clause="bank", stmt="picker bank")
    g = funcs.get(PB + "BaseTemplateMatcher._index_to_quaternions")
    if g is not None:
        rep.instance("F.bank", g.loc())
        M = Matcher(g)
        ok = M.has("return np.take_along_axis(self._quaternions, argmax_indices[:, np.newaxis], axis=0)") or M.has("return self._quaternions[argmax_indices]")
        rep.ob("SAME", g.anchor, "the reported rotation of a pick is self._quaternions[arg-max template index] (same array, same order as the bank)", ok, "",
               node=g.node, fn=g, clause="bank", stmt="_index_to_quaternions")
    h = funcs.get(PCC + "ZNCCTemplateMatcher.pick_in_chunk")
    if h is not None:
        rep.instance("F.bank", h.loc())
        M = Matcher(h)
        b = {}
        head = ["$all = np.stack([ncc_landscape_no_pad(image - np.mean(image), $t - np.mean($t), ...) for $t in templates], axis=0)",
                "$arg = np.argmax($all, axis=0)", "$mx = np.max($all, axis=0)", "$pos = find_maxima($mx, min_distance, min_score)", "$score = _sample_score($mx, $pos)"]
        tail = ["$q = self._index_to_quaternions($idx)", "return $pos + $$off, $q, {'score': $score}"]
        # the arg-max map read at the voxel nearest to each maximum: per maximum, or gathered for all maxima at once (same voxels, same order)
        gathers = [["$idx = np.array([$arg[tuple(np.round($p).astype($$ty))] for $p in $pos], ...)"],
                   ["$z, $y, $x = np.round($pos).astype($$ty).T", "$idx = $arg[$z, $y, $x]"],
                   ["$z, $y, $x = np.round($pos).astype($$ty).T", "$idx = $arg[$z, $y, $x].astype(...)"],
                   ["$idx = $arg[tuple(np.round($pos).astype($$ty).T)]"]]
        ok, why = False, ""
        for gt in gathers:
            b_try: dict = {}
            ok, why_ = M.all_of(head + gt + tail, b_try)
            if ok:
                b = b_try
                break
            why = why or why_
        rep.ob("SAME", h.anchor, "landscapes are stacked in template order; the arg-max over that axis, read at each maximum, indexes the quaternions", ok, why,
               node=h.node, fn=h, clause="bank", stmt="ZNCC argmax")
        okc, det = None, why
        if ok:
            dom = C05.mkdom(model)
            it = Interp(model, dom, depth=5)
            n = C05.syms(dom, "n0", "n1", "n2")
            t = C05.syms(dom, "r0", "r1", "r2")
            lf = model.func("acryo/backend/_zncc.py::ncc_landscape_no_pad")
            out = it.run(lf, args={"img0": Arr(n, lpad=tuple(mkA(0) for _ in n)), "img1": Arr(t), "backend": ExtRef("numpy")})
            det = f"landscape {out!r}"[:200]
            if isinstance(out, Arr) and out.origin is not None:
                ov = Interp(model, dom, depth=0).eval(M.expr(b["off"][1]), {"templates": Tup([Arr(t)]), "np": ExtRef("numpy")}, h)
                ovv = dom.vec(ov) if ov is not TOP else None
                if ovv:
                    okc = True
                    for i in range(3):
                        # landscape index j <-> template start j - origin; particle centre = start + (r-1)/2
                        want = dom.add(dom.neg(out.origin[i]), dom.div(dom.add(t[i], mkA(-1)), mkA(2)))
                        if not ovv[i].equals(want):
                            okc = False
                            det = f"axis {i}: offset {ovv[i]!r}, required -origin + (r-1)/2 = {want!r}"
        rep.ob("A", h.anchor, "position = landscape index + (template size + 1)/2: start of the [1:-1]-trimmed valid correlation plus the template centre", okc, det,
               node=h.node, fn=h, clause="bank", stmt="ZNCC offset")
    k = funcs.get(PB + "MoleculesBox.to_molecules")
    if k is not None:
        rep.instance("F.bank", k.loc())
        ok = Matcher(k).has("return Molecules.from_quat(self._pos, self._quats, features=self._features)")
        ini = model.func(PB + "MoleculesBox.__init__")
        ok = ok and Matcher(ini).all_of(["self._pos = pos", "self._quats = quats", "self._features = features"])[0]
        rep.ob("SAME", k.anchor, "positions, quaternions and features of a chunk travel together", ok, "", node=k.node, fn=k, clause="bank", stmt="MoleculesBox")
    sp = funcs.get(PCC + "simple_pick")
    if sp is not None:
        rep.instance("F.bank", sp.loc())
        ok, why = Matcher(sp).all_of(["$q = np.zeros((pos.shape[0], 4), ...)", "$q[:, 3] = 1.0", "return pos, $q, $$f"])
        rep.ob("SAME", sp.anchor, "LoG/DoG picks carry the identity rotation, one row per position", ok, why, node=sp.node, fn=sp, clause="bank", stmt="simple_pick")


def check(model, rep, tier):
    rep.decided += ["C20 units of sigma/min_distance/positions", "C20 halo discipline of the overlapped block-wise picking (depth forwarded, halo picks discarded, offset, "
                    "clipped depth removed once, overlap covers filter support + maxima radius, empty chunks)",
                    "C20 template bank / rotation lookup use the same quaternion array in the same order; ZNCC offset identity"]
    rep.not_decided += ["detection quality, thresholds", "sub-pixel position of maxima"]
    funcs = need_funcs(model, rep, ANCHORS)
    units_clause(model, rep, funcs)
    halo_clause(model, rep, funcs)
    bank_clause(model, rep, funcs)
    from .generic import narrow_index_obligations, functions_in
    narrow_index_obligations(model, rep, functions_in(model, ["acryo/pick/_concrete.py", "acryo/pick/_base.py"]), "bank")
    rep.floor("NARROW", 1, "(arg-max over the template bank)")
    # "the same whether the image is a numpy array or a dask array": the container-kind branch of pick_molecules only re-wraps (rule shared with C10)
    from .generic import representation_branch_obligations
    try:
        representation_branch_obligations(model, rep, model.func("acryo/pick/_base.py::BasePickerModel.pick_molecules"), "numpy / dask")
    except KeyError as e:
        rep.error(f"anchor vanished: {e}")
    rep.floor("U.pick", 3, "(LoG, DoG, ZNCC min_distance)")
    rep.floor("S17", 9, "(map_overlap site, maximum_filter, LoG/DoG/template depth, find_maxima)")
    rep.floor("F.bank", 5, "(bank, lookup, arg-max, box, simple_pick)")
