"""C20 - particle picking finds planted particles regardless of chunking (DESIGN 5, C20)."""
from __future__ import annotations

import ast
from fractions import Fraction

from ..absint import TOP, Const, ExtRef, FuncRef, Interp, Tup
from ..cfg import backward_slice_names
from ..domains.affine import A, mkA
from ..domains.arrays import Arr, ArrayDomain, Vec3
from ..domains.frames import FramesDomain, Rot
from ..domains.units import PX, U_NM, U_S, UnitsDomain
from ..repo import calls_in, dotted, norm_src, walk_no_nested
from .common import kwarg, need_funcs
from . import C05

PB = "acryo/pick/_base.py::"
PCC = "acryo/pick/_concrete.py::"
ANCHORS = [PB + "BasePickerModel.pick_molecules", PB + "BasePickerModel._pick_in_chunk_wrapped", PB + "BaseTemplateMatcher.get_params_and_depth",
           PB + "BaseTemplateMatcher._index_to_quaternions", PB + "MoleculesBox.to_molecules", PCC + "ZNCCTemplateMatcher.pick_molecules",
           PCC + "ZNCCTemplateMatcher.pick_in_chunk", PCC + "LoGPicker.pick_in_chunk", PCC + "LoGPicker.get_params_and_depth", PCC + "DoGPicker.pick_in_chunk",
           PCC + "DoGPicker.get_params_and_depth", PCC + "find_maxima", PCC + "maximum_filter", PCC + "simple_pick"]


class PickUnits(UnitsDomain):
    def seed_field(self, interp, obj, name, node):
        if name in ("_sigma", "_sigma_low", "_sigma_high"):
            return U_NM
        return super().seed_field(interp, obj, name, node)

    def seed_param(self, interp, fn, arg):
        if arg.arg == "scale":
            return U_S
        return super().seed_param(interp, fn, arg)


def units_clause(model, rep, funcs):
    for a, keys in ((PCC + "LoGPicker.get_params_and_depth", ["sigma"]), (PCC + "DoGPicker.get_params_and_depth", ["sigma_low", "sigma_high"])):
        f = funcs.get(a)
        if f is None:
            continue
        dom = PickUnits(model)
        it = Interp(model, dom, depth=0)
        out = it.run(f)
        rep.instance("U.pick", f.loc())
        ok = None
        det = f"{out!r}"[:200]
        if isinstance(out, Tup) and len(out.items) == 2:
            from ..absint import DictV
            d = out.items[0]
            if isinstance(d, DictV):
                ok = True
                for k in keys:
                    u = dom._lift(d.items.get(k, TOP))
                    if u is None or not u.fits(frozenset({PX})):
                        ok = False
                        det = f"parameter `{k}` handed to pick_in_chunk is {u!r}, pixels required (sigma / scale)"
        rep.ob("U", a, "filter widths are converted from nm to pixels (sigma / scale) before they reach scipy.ndimage", ok, det, node=f.node, fn=f, clause="units",
               stmt=f"def get_params_and_depth units ({a})")
    f = funcs.get(PCC + "ZNCCTemplateMatcher.pick_molecules")
    if f is not None:
        c = [x for x in calls_in(f) if isinstance(x.func, ast.Attribute) and x.func.attr == "pick_molecules"]
        rep.instance("U.pick", f.loc())
        md = kwarg(c[0], "min_distance") if c else None
        ok = md is not None and norm_src(md) == "min_distance / scale"
        rep.ob("U", f.anchor, "min_distance is converted to pixels (min_distance / scale) for the per-chunk maxima search", ok, norm_src(md) if md is not None else "",
               node=f.node, fn=f, clause="units", stmt="ZNCC min_distance")
    f = funcs.get(PB + "BasePickerModel.pick_molecules")
    if f is not None:
        st = [n for n in walk_no_nested(f.node) if isinstance(n, ast.Assign) and norm_src(n.targets[0]) == "mole._pos"]
        rep.instance("U.pick", f.loc())
        ok = len(st) == 1 and norm_src(st[0].value).replace(" ", "") in ("(mole._pos-depth)*scale", "(mole._pos-_depth)*scale")
        rep.ob("U", f.anchor, "picked positions are shifted back by the overlap depth and converted to nm: (pos - depth) * scale", ok,
               norm_src(st[0].value) if st else "", node=f.node, fn=f, clause="units", stmt="pick_molecules positions")


def halo_clause(model, rep, funcs):
    f = funcs.get(PB + "BasePickerModel.pick_molecules")
    g = funcs.get(PB + "BasePickerModel._pick_in_chunk_wrapped")
    if f is None or g is None:
        return
    mo = [c for c in calls_in(f) if isinstance(c.func, ast.Attribute) and c.func.attr == "map_overlap"]
    rep.instance("S17", f.loc())
    if len(mo) != 1:
        rep.ob("S17", f.anchor, "block-wise picking uses one map_overlap call", None, f"{len(mo)} calls", node=f.node, fn=f, clause="halo", stmt="map_overlap")
        return
    c = mo[0]
    trim = kwarg(c, "trim")
    trimmed = trim is None or (isinstance(trim, ast.Constant) and trim.value is True)
    depth = kwarg(c, "depth")
    fn_arg = c.args[0] if c.args else None
    ok_fn = fn_arg is not None and norm_src(fn_arg) == "self._pick_in_chunk_wrapped"
    rep.ob("S17", f.anchor, "map_overlap maps the chunk wrapper", ok_fn, norm_src(fn_arg) if fn_arg is not None else "", node=c, fn=f, clause="halo",
           stmt="map_overlap target")
    # (a) the wrapper receives the very depth given to map_overlap
    passed = [k for k in c.keywords if k.arg not in (None, "depth", "trim", "boundary", "dtype", "meta") and depth is not None and norm_src(k.value) == norm_src(depth)]
    params = g.param_names()
    recv = [k.arg for k in passed if k.arg in params]
    rep.ob("S17", f.anchor, "(a) with trim=False the per-chunk worker is told the overlap depth", bool(recv) or trimmed,
           f"depth={norm_src(depth) if depth is not None else None}; forwarded as {[k.arg for k in passed]}; worker parameters {params}", node=c, fn=f, clause="halo",
           stmt="map_overlap depth forwarded")
    # (b) picks in the halo are discarded: a mask built from d <= pos < size - d for every axis, applied to pos, quats and features
    src = norm_src(g.node)
    dname = recv[0] if recv else None
    loops = [lp for lp in walk_no_nested(g.node) if isinstance(lp, ast.For)]
    mask_ok = False
    det = "no per-axis interior test found"
    masks = set()
    for lp in loops:
        for n in ast.walk(lp):
            if isinstance(n, ast.AugAssign) and isinstance(n.op, ast.BitAnd):
                t = norm_src(n.value).replace(" ", "")
                if "<=pos[:,i]" in t and "pos[:,i]<image.shape[i]-" in t:
                    it = norm_src(lp.iter)
                    if dname and dname in it:
                        mask_ok = True
                        masks.add(norm_src(n.target))
                        det = f"interior mask `{norm_src(n)[:80]}`"
    applied = bool(masks) and all(all(f"{x}[{m}]" in src.replace(" ", "") or f"{x})[{m}]" in src.replace(" ", "") for x in ("pos", "quats")) for m in masks)
    feat_applied = bool(masks) and any(f"[{m}]" in norm_src(n) for m in masks for n in ast.walk(g.node) if isinstance(n, ast.DictComp))
    rep.ob("S17", g.anchor, "(b) picks in the overlapped (halo) region are discarded: each chunk keeps only d <= pos < size - d, applied to positions, orientations "
           "and features alike", (mask_ok and applied and feat_applied) or trimmed, det + f"; applied to pos/quats: {applied}; to features: {feat_applied}", node=g.node,
           fn=g, clause="halo", stmt="halo filter")
    # (c) global offset: chunk start in the un-overlapped array (block_info[None]) added to the in-chunk position; the depth is removed once
    off = [n for n in ast.walk(g.node) if isinstance(n, ast.AugAssign) and isinstance(n.op, ast.Add) and norm_src(n.target).replace(" ", "") == "pos[:,i]"]
    loc_src = "block_info[None]['array-location']" in src
    back = [n for n in walk_no_nested(f.node) if isinstance(n, ast.Assign) and norm_src(n.targets[0]) == "mole._pos"]
    once = (len(off) == 1 and norm_src(off[0].value) == "start" and bool(back) and "- depth" in norm_src(back[0].value)) or \
           (len(off) == 1 and norm_src(off[0].value).replace(" ", "") in ("start-d",) and bool(back) and "depth" not in norm_src(back[0].value))
    rep.ob("S17", g.anchor, "(c) global position = position in the overlapped chunk + chunk start in the original image - depth (depth removed exactly once)",
           loc_src and once, f"offset `{norm_src(off[0]) if off else None}`; location source block_info[None]: {loc_src}; final `{norm_src(back[0].value) if back else None}`",
           node=g.node, fn=g, clause="halo", stmt="chunk offset")
    # (d) the overlap covers the support of the per-chunk filter and of the maxima filter
    for a, need in ((PCC + "LoGPicker.get_params_and_depth", ["sigma_px"]), (PCC + "DoGPicker.get_params_and_depth", ["sigma2_px", "sigma1_px"])):
        h = funcs.get(a)
        if h is None:
            continue
        dv = [n for n in walk_no_nested(h.node) if isinstance(n, ast.Assign) and norm_src(n.targets[0]) == "depth"]
        rep.instance("S17", h.loc())
        ok = None
        det = ""
        if dv:
            dom = ArrayDomain(model, positive_syms=set(need))
            it = Interp(model, dom, depth=0)
            env = {n_: dom.sym(n_) for n_ in need}
            env["np"] = ExtRef("numpy")
            d = it.eval(dv[0].value, env, h)
            big = dom.sym(need[0])
            small = dom.sym(need[-1])
            # required: depth >= 4*sigma_filter (scipy truncates at 4 sigma) + sigma_maxima (radius of the maximum filter)
            if isinstance(d, A) and d.is_poly():
                goal = dom.add(d, dom.neg(dom.add(A(big.num.scale(4)), small)))
                ok = dom.prove_ge(goal.poly(), ())
                det = f"depth = {d!r}"
                if not ok:
                    ok = False
                    det += (f": smaller than 4*{need[0]} + {need[-1]} (support of the Gaussian filter truncated at 4 sigma plus the radius of the maximum filter), so "
                            "values and maxima near chunk borders differ from the un-chunked image")
        rep.ob("S17", a, "(d) the overlap depth covers the filter support plus the maxima-search radius (interior of each chunk sees what the whole image sees)",
               ok, det, node=(dv[0] if dv else h.node), fn=h, clause="halo")
    h = funcs.get(PB + "BaseTemplateMatcher.get_params_and_depth")
    if h is not None:
        dv = [n for n in walk_no_nested(h.node) if isinstance(n, ast.Assign) and norm_src(n.targets[0]) == "depth"]
        rep.instance("S17", h.loc())
        ok = bool(dv) and "np.ceil(np.array(templates[0].shape) / 2)" in norm_src(dv[0].value)
        # margin for the maxima filter
        zm = None
        try:
            zm = model.func(PCC + "ZNCCTemplateMatcher._depth_margin")
        except Exception:
            pass
        uses = "self._depth_margin(**kwargs)" in norm_src(f.node) and "d + margin" in norm_src(f.node)
        okm = zm is not None and uses and "np.ceil(min_distance)" in norm_src(zm.node)
        rep.ob("S17", h.anchor, "(d) template matching: overlap = half the template (valid correlation) plus ceil(min_distance) for the maxima filter", ok and okm,
               f"half-template depth: {ok}; margin hook used: {uses}; margin covers min_distance: {okm}" +
               ("" if okm else ": a particle on a chunk border yields spurious border maxima in the neighbouring chunks"), node=h.node, fn=h, clause="halo",
               stmt="template matcher depth")
    # empty chunks do not break the per-chunk worker
    fm = funcs.get(PCC + "find_maxima")
    if fm is not None:
        rets = [r for r in walk_no_nested(fm.node) if isinstance(r, ast.Return) and r.value is not None]
        rep.instance("S17", fm.loc())
        ok = bool(rets) and "reshape(-1" in norm_src(rets[0].value)
        rep.ob("S17", fm.anchor, "a chunk without maxima yields an empty (0, 3) position array (not a (0,) array)", ok, norm_src(rets[0].value) if rets else "",
               node=fm.node, fn=fm, clause="halo", stmt="find_maxima empty")


def bank_clause(model, rep, funcs):
    f = funcs.get(PB + "BaseTemplateMatcher.get_params_and_depth")
    if f is not None:
        dom = FramesDomain(model, field_seeds={("ZNCCTemplateMatcher", "_quaternions"): None})
        rep.instance("F.bank", f.loc())
        rots = [n for n in walk_no_nested(f.node) if isinstance(n, ast.Assign) and norm_src(n.targets[0]) == "rotators"]
        ok = len(rots) == 1 and norm_src(rots[0].value) == "[Rotation.from_quat(r).inv() for r in self._quaternions]"
        cm = [c for c in calls_in(f) if (dotted(c.func) or "").endswith("compose_matrices")]
        ok2 = len(cm) == 1 and norm_src(cm[0].args[1]) == "rotators" and "/ 2 - 0.5" in norm_src([n for n in walk_no_nested(f.node) if isinstance(n, ast.Assign)
                                                                                                   and norm_src(n.targets[0]) == "_center"][0].value)
        loop = [lp for lp in walk_no_nested(f.node) if isinstance(lp, ast.For) and norm_src(lp.iter) == "matrices"]
        ok3 = len(loop) == 1 and "pool.add_task(template, mtx" in norm_src(loop[0])
        rep.ob("F", f.anchor, "the template bank is rendered with the inverse of each searched rotation, about the template centre, one entry per quaternion in order",
               ok and ok2 and ok3, norm_src(rots[0].value) if rots else "", node=f.node, fn=f, clause="bank", stmt="picker bank")
    g = funcs.get(PB + "BaseTemplateMatcher._index_to_quaternions")
    if g is not None:
        rep.instance("F.bank", g.loc())
        ok = "np.take_along_axis(self._quaternions, argmax_indices[:, np.newaxis], axis=0)" in norm_src(g.node)
        rep.ob("SAME", g.anchor, "the reported rotation of a pick is self._quaternions[arg-max template index] (same array, same order as the bank)", ok, "",
               node=g.node, fn=g, clause="bank", stmt="_index_to_quaternions")
    h = funcs.get(PCC + "ZNCCTemplateMatcher.pick_in_chunk")
    if h is not None:
        s = norm_src(h.node)
        rep.instance("F.bank", h.loc())
        ok = "for template in templates" in s and "np.argmax(all_landscapes, axis=0)" in s and "np.max(all_landscapes, axis=0)" in s and \
            "self._index_to_quaternions(argmax_indices)" in s
        rep.ob("SAME", h.anchor, "landscapes are stacked in template order; arg-max over that axis indexes the quaternions", ok, "", node=h.node, fn=h, clause="bank",
               stmt="ZNCC argmax")
        # offset (n+1)/2 = start of the [1:-1]-trimmed valid correlation + template centre
        dom = C05.mkdom(model)
        it = Interp(model, dom, depth=5)
        n = C05.syms(dom, "n0", "n1", "n2")
        t = C05.syms(dom, "r0", "r1", "r2")
        lf = model.func("acryo/backend/_zncc.py::ncc_landscape_no_pad")
        out = it.run(lf, args={"img0": Arr(n, lpad=tuple(mkA(0) for _ in n)), "img1": Arr(t), "backend": ExtRef("numpy")})
        offs = [x for x in walk_no_nested(h.node) if isinstance(x, ast.Assign) and norm_src(x.targets[0]) == "offset"]
        okc = None
        det = f"landscape {out!r}"[:200]
        if isinstance(out, Arr) and out.origin is not None and offs:
            it2 = Interp(model, dom, depth=0)
            ov = it2.eval(offs[0].value, {"templates": Tup([Arr(t)]), "np": ExtRef("numpy")}, h)
            ovv = dom.vec(ov) if ov is not TOP else None
            if ovv:
                okc = True
                for i in range(3):
                    # landscape index j corresponds to template start j - origin; particle centre = start + (r-1)/2  => centre = j + (-origin + (r-1)/2)
                    want = dom.add(dom.neg(out.origin[i]), dom.div(dom.add(t[i], mkA(-1)), mkA(2)))
                    if not ovv[i].equals(want):
                        okc = False
                        det = f"axis {i}: offset {ovv[i]!r}, required -origin + (r-1)/2 = {want!r}"
        rep.ob("A", h.anchor, "position = landscape index + (template size + 1)/2: start of the [1:-1]-trimmed valid correlation plus the template centre", okc, det,
               node=h.node, fn=h, clause="bank", stmt="ZNCC offset")
    k = funcs.get(PB + "MoleculesBox.to_molecules")
    if k is not None:
        rep.instance("F.bank", k.loc())
        ok = "Molecules.from_quat(self._pos, self._quats, features=self._features)" in norm_src(k.node)
        rep.ob("SAME", k.anchor, "positions, quaternions and features of a chunk travel together", ok, "", node=k.node, fn=k, clause="bank", stmt="MoleculesBox")


def check(model, rep, tier):
    rep.decided += ["C20 units of sigma/min_distance/positions", "C20 halo discipline of the overlapped block-wise picking (depth forwarded, halo picks discarded, offset, "
                    "overlap covers filter support + maxima radius, empty chunks)", "C20 template bank / rotation lookup use the same quaternion array in the same order; ZNCC offset identity"]
    rep.not_decided += ["detection quality, thresholds", "sub-pixel position of maxima"]
    funcs = need_funcs(model, rep, ANCHORS)
    units_clause(model, rep, funcs)
    halo_clause(model, rep, funcs)
    bank_clause(model, rep, funcs)
    rep.floor("U.pick", 4, "(LoG, DoG, ZNCC min_distance, final position)")
    rep.floor("S17", 5, "(map_overlap site, LoG/DoG/template depth, find_maxima)")
    rep.floor("F.bank", 4, "(bank, lookup, arg-max, box)")
