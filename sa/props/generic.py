"""Repository-wide rule families (round 3).  Every rule is stated over constructs of acryo itself, takes its instances from the current tree
and is attached to the properties in whose code the construct lives.

KW        library calls whose *default* contradicts acryo's z,y,x / FFT-layout conventions must override it:
          meshgrid(..., indexing="ij"); fftshift / ifftshift of an array that carries a component axis (stack(..., axis=k)) names the spatial axes.
INTERP    a spline interpolation call of order > 1 with ``prefilter=False`` is an interpolation only if its input was spline-filtered in the same
          function; otherwise values at the nodes are smoothed samples (the landscape maximum is no longer the correlation).
CTOR      a constructor call that rebuilds an object from another one's attributes (>= 2 arguments ``X.p`` bound to the parameter ``p``) binds every
          defaulted parameter that the class also exposes as an attribute (a forgotten one silently takes the default).
CACHE     no ``cached_property`` / ``lru_cache`` method of a class reads an attribute that some method other than ``__init__`` re-assigns.
REPR      a branch on the container kind of an array (numpy vs dask) only re-wraps that very array.
PAIR      calls ``f(A[i], B[j], ...)`` repeated over constant indices pair equal indices (per-axis tables are walked in step).
OVR       a subclass definition of an anchored method must satisfy the same rule as the base definition.
FWDP      a parameter that a method normalises (``p = self._get_p(p)``) reaches every downstream call that accepts a parameter of that name.
"""
from __future__ import annotations

import ast

from ..match import Matcher
from ..repo import calls_in, dotted, norm_src, walk_no_nested
from .common import kwarg


def _last(call: ast.Call) -> str:
    return (dotted(call.func) or norm_src(call.func)).split(".")[-1]


def functions_in(model, relpaths):
    out = []
    for rel in relpaths:
        try:
            out += model.functions_in(rel)
        except Exception:
            pass
    return out


# --------------------------------------------------------------------------------------------------------------- KW
def axis_convention_obligations(model, rep, relpaths, clause, rule="KW", floor=None):
    n = 0
    for fn in functions_in(model, relpaths):
        params = set(fn.param_names())
        M = None
        for c in calls_in(fn, include_nested=True):
            last = _last(c)
            if last == "meshgrid":
                ix = kwarg(c, "indexing")
                if isinstance(ix, ast.Name) and ix.id in params:
                    continue  # a forwarding wrapper (Backend.meshgrid): decided at its callers
                n += 1
                rep.instance(rule, fn.loc(c))
                ok = isinstance(ix, ast.Constant) and ix.value == "ij"
                rep.ob(rule, fn.anchor, "coordinate meshes are built in matrix ('ij') order: array axis k of the mesh is coordinate k (z, y, x)", ok,
                       "" if ok else f"`{norm_src(c)[:90]}` uses numpy's default indexing='xy': the first two axes of the mesh are transposed, so the z and y "
                       "coordinates are exchanged wherever the mesh is used", node=c, fn=fn, clause=clause, stmt=f"meshgrid indexing in {fn.name}")
            elif last in ("fftshift", "ifftshift") and c.args:
                if M is None:
                    M = Matcher(fn)
                try:
                    ex = M.expr(c.args[0])
                except Exception:
                    ex = c.args[0]
                st = [x for x in ast.walk(ex) if isinstance(x, ast.Call) and _last(x) == "stack"]
                if not st:
                    continue
                ax = kwarg(st[0], "axis")
                axv = None
                try:
                    axv = ast.literal_eval(ax) if ax is not None else 0
                except Exception:
                    pass
                n += 1
                rep.instance(rule, fn.loc(c))
                axes = kwarg(c, "axes") or (c.args[1] if len(c.args) > 1 else None)
                ok = None
                det = ""
                try:
                    got = ast.literal_eval(axes) if axes is not None else None
                except Exception:
                    got = "?"
                if got is None:
                    ok, det = False, (f"`{norm_src(c)[:90]}` shifts every axis, the component axis created by stack(axis={axv}) included: the (z, y, x) components "
                                      "of every frequency vector are rotated cyclically")
                elif got != "?" and axv is not None:
                    gs = tuple(got) if isinstance(got, (tuple, list)) else (got,)
                    nd = 4
                    comp = axv % nd
                    ok = sorted(a % nd for a in gs) == [a for a in range(nd) if a != comp]
                    det = "" if ok else f"axes={got} do not name exactly the three spatial axes (component axis is {axv})"
                rep.ob(rule, fn.anchor, "an FFT shift of a stacked coordinate array names the spatial axes only (the component axis stays in z, y, x order)", ok, det,
                       node=c, fn=fn, clause=clause, stmt=f"fftshift axes in {fn.name}")
    if floor:
        rep.floor(rule, floor, "(meshgrid / stacked fftshift sites)")
    return n


# --------------------------------------------------------------------------------------------------------------- INTERP
_INTERP = {"map_coordinates", "affine_transform", "zoom", "shift", "ndi_shift", "rotate", "add_task"}


def interpolation_obligations(model, rep, fns, clause, rule="INTERP"):
    """``prefilter=False`` with order > 1 needs a spline-filtered input (assigned from ``spline_filter(...)`` in the same function)."""
    n = 0
    for fn in fns:
        filtered = set()
        for st in walk_no_nested(fn.node):
            if isinstance(st, ast.Assign) and isinstance(st.value, ast.Call) and _last(st.value) == "spline_filter":
                for t in st.targets:
                    if isinstance(t, ast.Name):
                        filtered.add(t.id)
        params = set(fn.param_names())
        for c in calls_in(fn):
            if _last(c) not in _INTERP:
                continue
            pf = kwarg(c, "prefilter")
            od = kwarg(c, "order")
            if pf is None and od is None:
                continue
            n += 1
            rep.instance(rule, fn.loc(c))
            if not (isinstance(pf, ast.Constant) and pf.value is False):
                rep.ob(rule, fn.anchor, "spline interpolation of order > 1 runs on spline coefficients (prefilter, or an explicitly filtered input)", True, "", node=c, fn=fn,
                       clause=clause, stmt=f"prefilter of {_last(c)} in {fn.name}")
                continue
            if isinstance(od, ast.Constant) and isinstance(od.value, int) and od.value <= 1:
                continue
            src_arg = c.args[0] if c.args else None
            root = src_arg
            while isinstance(root, (ast.Subscript, ast.Attribute)):
                root = root.value
            ok = None
            det = ""
            try:
                exsrc = Matcher(fn).expr(src_arg) if src_arg is not None else None
            except Exception:
                exsrc = None
            if isinstance(root, ast.Name) and root.id in filtered:
                ok = True
            elif exsrc is not None and any(isinstance(x, ast.Call) and _last(x) == "spline_filter" for x in ast.walk(exsrc)):
                ok = True
            elif isinstance(root, ast.Name) and _loop_source_filtered(fn, root, c, filtered):
                ok = True
            elif isinstance(root, ast.Name) and root.id == "self":
                continue  # object state: filtered (or not) where it was stored
            elif isinstance(root, ast.Name) and root.id in params:
                # filtered (or not) by the callers: look one level up
                sites = _caller_args(model, fn, root.id)
                if not sites:
                    continue
                good = [1 for g, a in sites if _is_filtered_in(g, a)]
                if good:
                    continue  # at least one caller hands over coefficients: the convention of this helper is 'input is pre-filtered'
                ok = False
                det = (f"`{norm_src(c)[:80]}`: order {norm_src(od) if od is not None else 3} without prefilter, and none of the {len(sites)} caller(s) of {fn.name} "
                       f"passes spline coefficients for `{root.id}`: node values become B-spline weighted neighbourhood means instead of the samples")
            else:
                ok = False
                det = (f"`{norm_src(c)[:90]}`: order {norm_src(od) if od is not None else 3} without prefilter on an input that was never spline-filtered: "
                       "the result is a smoothed copy (value at a node = B-spline weighted neighbourhood mean), not an interpolation")
            rep.ob(rule, fn.anchor, "spline interpolation of order > 1 runs on spline coefficients (prefilter, or an explicitly filtered input)", ok, det, node=c, fn=fn,
                   clause=clause, stmt=f"prefilter of {_last(c)} in {fn.name}")
    return n


def _caller_args(model, fn, pname):
    out = []
    names = fn.param_names()
    pos = names.index(pname) - (1 if names and names[0] in ("self", "cls") else 0)
    for g in model.all_functions:
        for c in calls_in(g, include_nested=True):
            if _last(c) != fn.name:
                continue
            try:
                kind, tg = model.resolve_call(g, c)
            except Exception:
                continue
            if kind != "repo" or fn not in tg:
                continue
            a = kwarg(c, pname)
            if a is None and 0 <= pos < len(c.args):
                a = c.args[pos]
            if a is not None:
                out.append((g, a))
    return out


def _is_filtered_in(g, a):
    root = a
    while isinstance(root, (ast.Subscript, ast.Attribute)):
        root = root.value
    try:
        ex = Matcher(g).expr(a)
    except Exception:
        ex = a
    if any(isinstance(x, ast.Call) and _last(x) == "spline_filter" for x in ast.walk(ex)):
        return True
    if isinstance(root, ast.Name):
        for st in walk_no_nested(g.node):
            if isinstance(st, ast.Assign) and isinstance(st.value, ast.Call) and _last(st.value) == "spline_filter" and \
                    any(isinstance(t, ast.Name) and t.id == root.id for t in st.targets):
                return True
    return False


def _loop_source_filtered(fn, name, call, filtered):
    """`for t in xs: g(t, prefilter=False)` where xs holds spline_filter results."""
    for lp in walk_no_nested(fn.node):
        if isinstance(lp, ast.For) and isinstance(lp.target, ast.Name) and lp.target.id == name.id and any(x is call for x in ast.walk(lp)):
            it = lp.iter
            if isinstance(it, ast.Name):
                if it.id in filtered:
                    return True
                try:
                    it = Matcher(fn).expr(it)
                except Exception:
                    return False
            return any(isinstance(x, ast.Call) and _last(x) == "spline_filter" for x in ast.walk(it))
    return False


# --------------------------------------------------------------------------------------------------------------- CTOR
def rebuild_ctor_obligations(model, rep, fns, clause, rule="CTOR", only=None):
    """``only``: the constructor parameters the borrowing property depends on (None = all of them)."""
    n = 0
    for fn in fns:
        for c in calls_in(fn):
            try:
                kind, tg = model.resolve_call(fn, c)
            except Exception:
                continue
            if kind != "class" or not tg:
                continue
            cls = tg[0]
            init = cls.find_method("__init__")
            if init is None:
                continue
            a = init.node.args
            pos = [x.arg for x in a.posonlyargs + a.args][1:]
            ndef = len(a.defaults)
            defaulted = set(pos[len(pos) - ndef:]) if ndef else set()
            defaulted |= {x.arg for x, d in zip(a.kwonlyargs, a.kw_defaults) if d is not None}
            bound = {}
            for i, v in enumerate(c.args):
                if isinstance(v, ast.Starred):
                    bound = None
                    break
                if i < len(pos):
                    bound[pos[i]] = v
            if bound is None or any(k.arg is None for k in c.keywords):
                continue
            for k in c.keywords:
                bound[k.arg] = k.value
            mirror = {}
            for p, v in bound.items():
                if isinstance(v, ast.Attribute) and v.attr.lstrip("_") == p and isinstance(v.value, ast.Name):
                    mirror.setdefault(v.value.id, []).append(p)
            src = [(o, ps) for o, ps in mirror.items() if len(ps) >= 2]
            if not src:
                continue
            obj, ps = src[0]
            missing = []
            for p in sorted(defaulted - set(bound)):
                if cls.find_method(p) is not None and (only is None or p in only):  # exposed as a property of the class -> part of the object's state
                    missing.append(p)
            n += 1
            rep.instance(rule, fn.loc(c))
            rep.ob(rule, fn.anchor, f"`{cls.name}(...)` rebuilt from `{obj}` carries over every attribute of `{obj}` that the constructor accepts", not missing,
                   "" if not missing else f"`{norm_src(c)[:100]}` copies {sorted(ps)} from `{obj}` but not {missing}: the new {cls.name} silently gets the default "
                   f"{'/'.join(missing)}", node=c, fn=fn, clause=clause, stmt=f"{cls.name}(...) from {obj} in {fn.name}")
    return n


# --------------------------------------------------------------------------------------------------------------- CACHE
def cache_coherence_obligations(model, rep, cls, clause, rule="CACHE", names=None):
    """Accessors of a mutable class are recomputed on every read."""
    reassigned = {}
    for m in _methods(cls):
        if m.name == "__init__":
            continue
        for n in walk_no_nested(m.node):
            tg = []
            if isinstance(n, ast.Assign):
                tg = n.targets
            elif isinstance(n, (ast.AugAssign, ast.AnnAssign)):
                tg = [n.target]
            for t in tg:
                for x in ast.walk(t):
                    if isinstance(x, ast.Attribute) and isinstance(x.value, ast.Name) and x.value.id == "self":
                        reassigned.setdefault(x.attr, m)
    k = 0
    for m in _methods(cls):
        if names is not None and m.name not in names:
            continue
        decos = [d or '' for d in m.decorators]
        if not (m.is_property or any("cache" in d for d in decos)):
            continue
        k += 1
        rep.instance(rule, m.loc())
        cached = [d for d in decos if "cache" in d]
        reads = {x.attr for x in ast.walk(m.node) if isinstance(x, ast.Attribute) and isinstance(x.value, ast.Name) and x.value.id == "self"}
        stale = sorted(r for r in reads if r in reassigned) if cached else []
        rep.ob(rule, m.anchor, f"`{cls.name}.{m.name}` is recomputed from the object's current state on every read", not stale,
               "" if not stale else f"@{cached[0]} keeps the first value although {', '.join('self.' + s for s in stale)} is re-assigned by "
               f"{reassigned[stale[0]].short} (in-place operations): later reads return the value of the old state", node=m.node, fn=m, clause=clause,
               stmt=f"accessor {cls.name}.{m.name} cache")
    return k


def _methods(cls):
    out = []
    for v in cls.methods.values():
        out += [f for f in v if not f.is_overload]
    return out


# --------------------------------------------------------------------------------------------------------------- REPR
_WRAP = {"from_array", "asarray", "asanyarray", "compute", "from_delayed"}


def representation_branch_obligations(model, rep, fn, clause, rule="REPR", kinds=("np.ndarray", "da.Array", "da.core.Array")):
    """`if isinstance(V, np.ndarray): ...` may only re-wrap V (`V = da.from_array(V, ...)`, `V = V.compute()`); anything else computed in the branch makes the
    result depend on the container the user happened to pass."""
    n = 0
    for st in walk_no_nested(fn.node):
        if not isinstance(st, ast.If):
            continue
        tests = [x for x in ast.walk(st.test) if isinstance(x, ast.Call) and _last(x) == "isinstance" and len(x.args) == 2 and isinstance(x.args[0], ast.Name)
                 and norm_src(x.args[1]) in kinds]
        if not tests or isinstance(st.test, ast.UnaryOp):
            continue
        v = tests[0].args[0].id
        n += 1
        rep.instance(rule, fn.loc(st))
        bad = []
        for b in st.body:
            if isinstance(b, ast.Raise):
                continue
            ok = False
            if isinstance(b, ast.Assign) and len(b.targets) == 1 and isinstance(b.targets[0], ast.Name) and b.targets[0].id == v and isinstance(b.value, ast.Call):
                c = b.value
                if _last(c) in _WRAP:
                    recv = c.func.value if isinstance(c.func, ast.Attribute) else None
                    if c.args and isinstance(c.args[0], ast.Name) and c.args[0].id == v:
                        ok = True
                    elif not c.args and isinstance(recv, ast.Name) and recv.id == v:
                        ok = True
            if not ok:
                bad.append(norm_src(b)[:90])
        for b in st.orelse:
            if not isinstance(b, (ast.Raise, ast.If)):
                bad.append("else: " + norm_src(b)[:80])
        rep.ob(rule, fn.anchor, f"the branch on the container kind of `{v}` only re-wraps `{v}` (numpy and dask inputs share one code path and one set of values)", not bad,
               "" if not bad else f"the {norm_src(tests[0].args[1])}-only branch also does `{'; '.join(bad)}`: the same data give different results as a numpy and as a "
               "dask array", node=st, fn=fn, clause=clause, stmt=f"container branch on {v} in {fn.name}")
    return n


# --------------------------------------------------------------------------------------------------------------- PAIR
def _const_sub(a):
    return isinstance(a, ast.Subscript) and isinstance(a.slice, ast.Constant) and isinstance(a.slice.value, int) and isinstance(a.value, ast.Name)


def parallel_index_obligations(model, rep, fn, clause, rule="PAIR"):
    M = Matcher(fn)
    groups = {}
    for c in calls_in(fn):
        ex = c
        idx = []
        for i, a in enumerate(c.args):
            if not _const_sub(a):
                try:
                    a = M.expr(a)  # `size_z` -> `out_shape[2]` (tuple unpacking, temporaries)
                except Exception:
                    pass
            if _const_sub(a):
                idx.append((i, a.value.id, a.slice.value))
        if len(idx) >= 2 and len({b for _, b, _ in idx}) >= 2:
            key = (norm_src(ex.func), tuple((i, b) for i, b, _ in idx))
            groups.setdefault(key, []).append((c, [v for _, _, v in idx]))
    n = 0
    # the same pairing with a loop variable as the index: `f(A[k], B[k]) for k in range(3)` pairs the axes by construction, `f(A[i], B[j])` does not
    for c in calls_in(fn, include_nested=True):
        subs = [(a.value.id, a.slice.id) for a in c.args if isinstance(a, ast.Subscript) and isinstance(a.value, ast.Name) and isinstance(a.slice, ast.Name)]
        if len(subs) >= 2 and len({b for b, _ in subs}) >= 2:
            n += 1
            rep.instance(rule, fn.loc(c))
            same = len({i for _, i in subs}) == 1
            rep.ob(rule, fn.anchor, f"the per-axis call `{norm_src(c.func)}(...)` takes entry k of each of ({', '.join(b for b, _ in subs)}) together", same,
                   "" if same else f"`{norm_src(c)[:70]}` indexes the sequences with different variables", node=c, fn=fn, clause=clause,
                   stmt=f"per-axis pairing of {norm_src(c.func)} in {fn.name} (loop index)")
    for (f, sig), items in groups.items():
        if len(items) < 2:
            continue
        n += 1
        rep.instance(rule, fn.loc(items[0][0]))
        bad = [(c, v) for c, v in items if len(set(v)) != 1]
        names = ", ".join(b for _, b in sig)
        rep.ob(rule, fn.anchor, f"the per-axis calls `{f}(...)` take entry k of each of ({names}) together", not bad,
               "" if not bad else "; ".join(f"`{norm_src(c)[:70]}` pairs indices {v}" for c, v in bad) + ": an axis is combined with another axis's size / value",
               node=items[0][0], fn=fn, clause=clause, stmt=f"per-axis pairing of {f} in {fn.name}")
    return n


# --------------------------------------------------------------------------------------------------------------- OVR
def overrides_of(model, fn):
    """Definitions of fn.name in subclasses of fn's class (each is reported once)."""
    out = []
    if fn.cls is None:
        return out
    for k in fn.cls.all_subclasses():
        for m in _methods(k):
            if m.name == fn.name and m is not fn and not m.is_overload and m.is_setter == fn.is_setter:
                out.append(m)
    return out


def delegates_to_super(fn) -> bool:
    """`return super().name(same parameters...)` as the only effect."""
    body = [s for s in fn.node.body if not (isinstance(s, ast.Expr) and isinstance(s.value, ast.Constant))]
    if len(body) != 1 or not isinstance(body[0], ast.Return) or not isinstance(body[0].value, ast.Call):
        return False
    c = body[0].value
    return isinstance(c.func, ast.Attribute) and c.func.attr == fn.name and norm_src(c.func.value) == "super()"


# --------------------------------------------------------------------------------------------------------------- FWDP
def forwarded_parameter_obligations(model, rep, fn, pname, callees, clause, rule="FWDP"):
    """Inside ``fn`` (which has a parameter ``pname``) every call of one of ``callees`` on self / a loader passes ``pname`` on (positionally first or by keyword)
    and the value is derived from the parameter."""
    if pname not in fn.param_names():
        return 0
    n = 0
    M = Matcher(fn)
    for c in calls_in(fn, include_nested=True):
        cname = c.func.attr if isinstance(c.func, ast.Attribute) else (c.func.id if isinstance(c.func, ast.Name) else None)
        if cname is None or cname not in callees:
            continue
        n += 1
        rep.instance(rule, fn.loc(c))
        pos = callees[cname]
        v = kwarg(c, pname)
        if v is None and isinstance(pos, (set, frozenset, list, tuple)):
            # several callees of that name, the parameter at different positions: the slot whose argument derives from the parameter, else the first one given
            cands = [c.args[q] for q in sorted(pos) if q < len(c.args) and not any(isinstance(a_, ast.Starred) for a_ in c.args[:q + 1])]
            named = [a_ for a_ in cands if pname in {x.id for x in ast.walk(a_) if isinstance(x, ast.Name)}]
            v = (named or cands or [None])[0]
        elif v is None and pos is not None and pos < len(c.args) and not isinstance(c.args[pos], ast.Starred):
            v = c.args[pos]
        ok = v is not None
        det = ""
        if not ok:
            own_kw = fn.node.args.kwarg.arg if fn.node.args.kwarg is not None else None
            if any(k.arg is None and not (isinstance(k.value, ast.Name) and k.value.id == own_kw) for k in c.keywords):
                continue  # forwarding through some other dictionary: not decided here (the function's own **kwargs cannot contain a named parameter)
            det = f"`{norm_src(c)[:90]}` does not pass `{pname}`: the callee falls back to its own default although {fn.name} was asked for a specific one"
        else:
            try:
                ex = M.expr(v)
            except Exception:
                ex = v
            names = {x.id for x in ast.walk(ex) if isinstance(x, ast.Name)} | {x.id for x in ast.walk(v) if isinstance(x, ast.Name)}
            if pname not in names and not any(pname.lstrip("_") in nm for nm in names):
                ok = False
                det = f"`{norm_src(c)[:90]}` passes `{norm_src(v)}`, which does not derive from the parameter `{pname}`"
        rep.ob(rule, fn.anchor, f"the requested `{pname}` reaches `{cname}(...)`", ok, det, node=c, fn=fn, clause=clause,
               stmt=f"{pname} -> {cname} in {fn.name}")
    return n


# ----------------------------------------------------------------------------------------------------------------------------------------------------------
# PUREARG - array arguments are read-only


def _array_params(fn):
    out = []
    a = fn.node.args
    for p in list(a.posonlyargs) + list(a.args) + list(a.kwonlyargs):
        ann = norm_src(p.annotation) if p.annotation is not None else ""
        if "Array" in ann or "ndarray" in ann:
            out.append(p.arg)
    return out


def exposed_buffers(model):
    """Names of properties (of repository classes) that hand out an internal field as it is (`return self._x`): a caller holding the result holds the object's own
    buffer."""
    out = set()
    for f in model.all_functions:
        if f.cls is None or f.parent is not None:
            continue
        if not any(norm_src(d) in ("property", "cached_property", "functools.cached_property") for d in f.node.decorator_list):
            continue
        body = [st for st in f.node.body if not (isinstance(st, ast.Expr) and isinstance(st.value, ast.Constant))]
        if len(body) == 1 and isinstance(body[0], ast.Return) and isinstance(body[0].value, ast.Attribute) and isinstance(body[0].value.value, ast.Name) and \
                body[0].value.value.id == "self":
            out.add(f.name)
    return out


def inplace_argument_obligations(model, rep, fns, clause, rule="PUREARG", through_properties=False):
    """A function that returns a result and receives an array (annotation NDArray / AnyArray / np.ndarray / da.Array) must not change that array in place: the caller keeps using the array -
    the alignment models hand their *cached* pre-transformed template to every `_landscape` / `_optimize` call, so `template *= mask` there corrupts every later
    score.  In-place forms seen by the effect analysis: `p *= x`, `p[...] = x`, `p[...] += x`, mutating methods, also through helpers (depth 2)."""
    from ..effects import EffectAnalysis
    ea = EffectAnalysis(model)
    n = 0
    for fn in fns:
        ps = _array_params(fn)
        if not ps and not through_properties:
            continue
        if not any(isinstance(r, ast.Return) and r.value is not None and not (isinstance(r.value, ast.Constant) and r.value.value is None)
                   for r in walk_no_nested(fn.node)):
            continue  # a procedure (returns nothing): filling / accumulating into its argument is its contract
        n += 1
        rep.instance(rule, fn.loc())
        effs = [e for e in ea.closed_effects(fn, depth=2) if e.kind == "mutate" and e.root.startswith("param:") and e.root[6:] in ps]
        if through_properties:
            # `pos = mol.pos; pos /= scale`: the property hands out the object's own buffer, the in-place operation changes the caller's object
            exposed = exposed_buffers(model)
            effs += [e for e in ea.closed_effects(fn, depth=2) if e.kind == "mutate" and e.root.startswith("param:") and e.field in exposed and
                     isinstance(e.node, (ast.AugAssign, ast.Assign))]
        # a parameter that was re-bound to a fresh array before the mutation (`img = img.copy(); img *= m`) is not the caller's array any more
        kept = []
        returned = [r.value for r in walk_no_nested(fn.node) if isinstance(r, ast.Return) and r.value is not None]
        for e in effs:
            p = e.root[6:]
            if returned and all(isinstance(v, ast.Name) and v.id == p for v in returned):
                continue  # fill-and-return: the function's result *is* that argument (an output buffer)
            rebound = any(isinstance(st, ast.Assign) and any(isinstance(t, ast.Name) and t.id == p for t in st.targets) and
                          getattr(st, "lineno", 0) < getattr(e.node, "lineno", 0) for st in ast.walk(fn.node)) if e.fn is fn else False
            if not rebound:
                kept.append(e)
        rep.ob(rule, fn.anchor, "array arguments are not changed in place (the caller - and the template cache - keep using them)", not kept,
               "; ".join(e.describe() for e in kept[:2]), node=(kept[0].node if kept else fn.node), fn=(kept[0].fn if kept else fn), clause=clause,
               stmt=(None if kept else f"def {fn.name} array arguments"))
    return n


# ----------------------------------------------------------------------------------------------------------------------------------------------------------
# VIEW - in-place update of a view


def view_update_obligations(model, rep, fns, clause, rule="VIEW"):
    """`v = X[i, j]` with integer / slice indices is a numpy *view* of X.  `v += ...` (or `-=`, `*=`, `/=`) then changes X as well.  When X is read again afterwards
    the later computation sees the modified data (`avg = halves[0, 0]; avg += halves[0, 1]` turns the first half map into the sum of both before the FSC).
    Decided for arrays whose origin is known: X is a parameter annotated as an array, or the result of a call whose callee returns an array (annotation) or is a
    numpy / backend constructor."""
    n = 0
    for fn in fns:
        arr_params = set(_array_params(fn))
        body = list(walk_no_nested(fn.node))
        assigns = [st for st in body if isinstance(st, ast.Assign) and len(st.targets) == 1 and isinstance(st.targets[0], ast.Name)]

        def is_array_name(x):
            if x in arr_params:
                return True
            for st in assigns:
                if st.targets[0].id == x and isinstance(st.value, ast.Call):
                    d = dotted(st.value.func) or ""
                    if d.startswith(("np.", "numpy.", "xp.", "backend.", "da.")):
                        return True
                    try:
                        kind, tg = model.resolve_call(fn, st.value)
                    except Exception:
                        kind, tg = None, None
                    if kind == "repo" and tg:
                        for g in tg:
                            r = norm_src(g.node.returns) if g.node.returns is not None else ""
                            if "Array" in r or "ndarray" in r:
                                return True
            return False

        def basic_index(sl):
            elts = sl.elts if isinstance(sl, ast.Tuple) else [sl]
            return all(isinstance(e, ast.Slice) or (isinstance(e, ast.Constant) and isinstance(e.value, int)) or
                       (isinstance(e, ast.UnaryOp) and isinstance(e.operand, ast.Constant)) or isinstance(e, ast.Name) for e in elts)

        for st in assigns:
            v = st.value
            if not (isinstance(v, ast.Subscript) and isinstance(v.value, ast.Name) and basic_index(v.slice)):
                continue
            base, view = v.value.id, st.targets[0].id
            augs = [a for a in body if isinstance(a, ast.AugAssign) and isinstance(a.target, ast.Name) and a.target.id == view and a.lineno > st.lineno]
            if not augs:
                continue
            if not is_array_name(base):
                continue
            first = min(augs, key=lambda a: a.lineno)
            rebound = any(s2.targets[0].id == view and st.lineno < s2.lineno < first.lineno for s2 in assigns)
            if rebound:
                continue
            n += 1
            rep.instance(rule, fn.loc(first))
            later = [x for x in body if isinstance(x, ast.Name) and x.id == base and isinstance(x.ctx, ast.Load) and getattr(x, "lineno", 0) > first.lineno]
            rep.ob(rule, fn.anchor, "an array that is read again is not updated in place through a view of it", not later,
                   f"`{view} = {norm_src(v)}` is a view of `{base}`; `{norm_src(first)}` changes `{base}` itself, which is read again at line "
                   f"{later[0].lineno if later else '?'}", node=first, fn=fn, clause=clause)
    return n


# ----------------------------------------------------------------------------------------------------------------------------------------------------------
# TRUTHY - "not given" is `is None`, not falsiness


def truthiness_default_obligations(model, rep, fns, clause, rule="TRUTHY"):
    """A parameter whose default is None means "not given".  Testing it by truthiness (`if not p`, `p or default`) also treats a legitimate falsy argument as not
    given: an empty `Molecules` (its class defines __len__), 0, 0.0, (), "".  Decided from the annotation: flagged when it names a repository class that defines
    __len__ / __bool__, or a builtin number / string / sequence type; classes without either (Backend) are always truthy and are left alone."""
    falsy_classes = {c.name for c in model.all_classes if any(m in c.methods for m in ("__len__", "__bool__"))}
    builtin_falsy = ("int", "float", "str", "tuple", "list", "Sequence", "ndarray", "NDArray", "Array", "nm", "pixel", "bool", "dict", "Iterable")
    n = 0
    for fn in fns:
        a = fn.node.args
        params = list(a.posonlyargs) + list(a.args)
        defaults = [None] * (len(params) - len(a.defaults)) + list(a.defaults)
        cand = {}
        for p, d in list(zip(params, defaults)) + list(zip(a.kwonlyargs, a.kw_defaults)):
            if isinstance(d, ast.Constant) and d.value is None and p.annotation is not None:
                ann = norm_src(p.annotation)
                import re as _re
                words = set(_re.findall(r"[A-Za-z_][A-Za-z_0-9]*", ann))
                hit = sorted((words & falsy_classes) | (words & set(builtin_falsy)))
                if hit:
                    cand[p.arg] = hit
        if not cand:
            continue
        for node in walk_no_nested(fn.node):
            tests = []
            if isinstance(node, ast.UnaryOp) and isinstance(node.op, ast.Not) and isinstance(node.operand, ast.Name):
                tests.append((node.operand.id, node))
            if isinstance(node, (ast.If, ast.While, ast.IfExp)) and isinstance(node.test, ast.Name):
                tests.append((node.test.id, node.test))
            if isinstance(node, ast.BoolOp) and isinstance(node.op, ast.Or) and isinstance(node.values[0], ast.Name):
                tests.append((node.values[0].id, node))
            for nm, at in tests:
                if nm not in cand:
                    continue
                # re-bound before the test?  then it is no longer the raw argument
                if any(isinstance(st, ast.Assign) and any(isinstance(t, ast.Name) and t.id == nm for t in st.targets) and st.lineno < at.lineno
                       for st in walk_no_nested(fn.node)):
                    continue
                n += 1
                rep.instance(rule, fn.loc(at))
                rep.ob(rule, fn.anchor, "an optional argument is recognised as 'not given' by `is None`, not by falsiness", False,
                       f"`{norm_src(at)[:50]}` treats a falsy `{nm}` ({'/'.join(cand[nm])}: empty or zero is a legitimate value) as not given", node=at, fn=fn,
                       clause=clause)
    return n


# ----------------------------------------------------------------------------------------------------------------------------------------------------------
# TRUNC - "close to an integer" followed by truncation


def close_then_truncate_obligations(model, rep, fns, clause, rule="TRUNC"):
    """A value that was only tested to be *close to* an integer (`np.allclose(x, np.round(x))`, `np.isclose`) and is then converted with `astype(int)` / `int(x)`
    is truncated, not rounded: 12.999999 passes the test and becomes 12.  (Positions are float32, so pos / scale is routinely a hair below the integer.)
    The conversion must go through the rounded value."""
    n = 0
    INT_TYPES = ("int", "np.intp", "np.int32", "np.int64", "np.int_", "np.uint32", "np.uint64", "np.integer", "'int'", "'i'", "np.int16")
    for fn in fns:
        tested = {}
        for c in ast.walk(fn.node):
            if isinstance(c, ast.Call) and (dotted(c.func) or "").rsplit(".", 1)[-1] in ("allclose", "isclose") and len(c.args) >= 2:
                x, y = c.args[0], c.args[1]
                for u, v in ((x, y), (y, x)):
                    if isinstance(v, ast.Call) and (dotted(v.func) or "").rsplit(".", 1)[-1] in ("round", "rint", "around") and v.args and norm_src(v.args[0]) == norm_src(u):
                        tested[norm_src(u)] = c
        if not tested:
            continue
        for c in ast.walk(fn.node):
            tgt = None
            if isinstance(c, ast.Call) and isinstance(c.func, ast.Attribute) and c.func.attr == "astype" and c.args and norm_src(c.args[0]) in INT_TYPES:
                tgt = c.func.value
            elif isinstance(c, ast.Call) and (dotted(c.func) or "") in INT_TYPES and len(c.args) == 1:
                tgt = c.args[0]
            if tgt is None or norm_src(tgt) not in tested:
                continue
            n += 1
            rep.instance(rule, fn.loc(c))
            rep.ob(rule, fn.anchor, "a value tested to be close to an integer is converted through its rounded value", False,
                   f"`{norm_src(c)[:50]}` truncates `{norm_src(tgt)}`, which `{norm_src(tested[norm_src(tgt)])[:60]}` only showed to be within tolerance of an integer "
                   f"(12.999999 -> 12)", node=c, fn=fn, clause=clause)
    return n


# ----------------------------------------------------------------------------------------------------------------------------------------------------------
# WPARAM - with_params forwards every option it names


def with_params_forwarding_obligations(model, rep, clause, only, rule="WPARAM"):
    """`Model.with_params(opt=...)` is the route the loaders use to configure a model; it returns ParametrizedModel(cls, ...), which later calls cls(template, mask,
    **kwargs).  Every option that with_params names must be handed on under its own name - a dropped keyword silently builds the model with that option's default
    (no filter, identity rotation, no wedge) while a model constructed directly with the same option behaves differently."""
    n = 0
    for fn in model.all_functions:
        if fn.name != "with_params" or fn.cls is None or not fn.is_classmethod:
            continue
        a = fn.node.args
        named = [x for x in [x.arg for x in list(a.posonlyargs) + list(a.args)][1:] + [x.arg for x in a.kwonlyargs] if x in only]  # the options this property is about
        if not named:
            continue
        calls = [c for c in calls_in(fn) if (dotted(c.func) or "").rsplit(".", 1)[-1] == "ParametrizedModel"]
        for c in calls:
            n += 1
            rep.instance(rule, fn.loc(c))
            if any(k.arg is None for k in c.keywords):
                continue  # forwards a dictionary: not decided here
            passed = {k.arg: k.value for k in c.keywords}
            missing = [p for p in named if p not in passed]
            wrong = [p for p in named if p in passed and p not in {x.id for x in ast.walk(passed[p]) if isinstance(x, ast.Name)}]
            rep.ob(rule, fn.anchor, "with_params hands every option it names to the parametrised model under the same name", not missing and not wrong,
                   (f"`{norm_src(c)[:80]}` does not pass {missing}: models built through with_params ignore the option" if missing else
                    f"{wrong} is passed a value that does not derive from the parameter of that name"), node=c, fn=fn, clause=clause)
    return n


# ----------------------------------------------------------------------------------------------------------------------------------------------------------
# NARROW - an index is not narrowed to 8 / 16 bits


def narrow_index_obligations(model, rep, fns, clause, rule="NARROW"):
    """The result of an arg-max over candidates (templates x rotations: a user-chosen, unbounded number) is an index.  Casting it to an 8- or 16-bit integer wraps
    around as soon as there are more than 256 / 65536 candidates and silently reports candidate i mod 256.  Every arg-max site is an instance; a narrowing `astype`
    on a value that contains the arg-max is refuted."""
    NARROW = {"np.uint8", "np.int8", "np.uint16", "np.int16", "'uint8'", "'int8'", "'uint16'", "'int16'", "'u1'", "'i1'", "'u2'", "'i2'", "np.ubyte", "np.byte"}
    n = 0
    for fn in fns:
        M = Matcher(fn)
        sites = [c for c in ast.walk(fn.node) if isinstance(c, ast.Call) and (dotted(c.func) or "").rsplit(".", 1)[-1] in ("argmax", "argmin")]
        if not sites:
            continue
        casts = [c for c in ast.walk(fn.node) if isinstance(c, ast.Call) and isinstance(c.func, ast.Attribute) and c.func.attr == "astype" and c.args and
                 norm_src(c.args[0]) in NARROW]
        casts += [c for c in ast.walk(fn.node) if isinstance(c, ast.Call) and (dotted(c.func) or "") in {x for x in NARROW if x.startswith("np.")} and c.args]
        bad = []
        for c in casts:
            recv = c.func.value if isinstance(c.func, ast.Attribute) and c.func.attr == "astype" else c.args[0]
            ex = M.expr(recv)
            if any(isinstance(x, ast.Call) and (dotted(x.func) or "").rsplit(".", 1)[-1] in ("argmax", "argmin") for x in ast.walk(ex)):
                bad.append(c)
        for s_ in sites:
            n += 1
            rep.instance(rule, fn.loc(s_))
        rep.ob(rule, fn.anchor, "a candidate index (arg-max) keeps a full-width integer type", not bad,
               f"`{norm_src(bad[0])[:70]}` narrows the arg-max: with more than 256 candidates the reported index wraps around" if bad else "",
               node=(bad[0] if bad else fn.node), fn=fn, clause=clause, stmt=(None if bad else f"def {fn.name} index width"))
    return n


# ----------------------------------------------------------------------------------------------------------------------------------------------------------
# LOOPVAR - a per-iteration conversion must not overwrite the value it converts


def loop_carried_parameter_obligations(model, rep, fns, clause, rule="LOOPVAR"):
    """Inside `for item in items:` an assignment `p = f(p, item)` to a *parameter* p (or a name bound before the loop) that reads both p and the loop variable
    compounds from one iteration to the next: `max_shifts = max_shifts / loader.scale` gives the k-th loader max_shifts / scale**k.  A per-item conversion needs a
    name of its own.  (Accumulators such as `total = total + x` are initialised locally, not parameters; augmented assignment is not matched.)"""
    n = 0
    for fn in fns:
        params = set(fn.param_names())
        for lp in walk_no_nested(fn.node):
            if not isinstance(lp, ast.For):
                continue
            lvars = {x.id for x in ast.walk(lp.target) if isinstance(x, ast.Name)}
            if not lvars:
                continue
            n += 1
            rep.instance(rule, fn.loc(lp))
            bad = None
            for st in ast.walk(lp):
                if isinstance(st, ast.Assign) and len(st.targets) == 1 and isinstance(st.targets[0], ast.Name) and st.targets[0].id in params:
                    p = st.targets[0].id
                    names = {x.id for x in ast.walk(st.value) if isinstance(x, ast.Name)}
                    if p in names and names & lvars:
                        bad = st
                        break
            rep.ob(rule, fn.anchor, "a per-item conversion inside a loop does not overwrite the parameter it converts", bad is None,
                   f"`{norm_src(bad)[:80]}` inside `for {norm_src(lp.target)} in ...`: the value is converted again on every iteration" if bad is not None else "",
                   node=(bad if bad is not None else lp), fn=fn, clause=clause, stmt=(None if bad is not None else f"loop over {norm_src(lp.iter)[:40]} in {fn.name}"))
    return n


# ----------------------------------------------------------------------------------------------------------------------------------------------------------
# SHELLMEAN - the landscape value is the mean over all shells


def shell_mean_obligations(model, rep, fn, clause, rule="H"):
    """fsc_landscape stores, per trial shift, the mean of the per-shell correlation over the shells 0..nlabels (nlabels + 1 of them, `index = arange(0, nlabels + 1)`).
    Accepted: `<per-shell array>.mean()`, or a sum divided by the number of shells (len(index), index.size, nlabels + 1).  A sum divided by `nlabels` itself - the
    largest label - is (n + 1) / n too large: identical inputs score above 1."""
    M = Matcher(fn)
    n = 0
    for st in ast.walk(fn.node):
        if not (isinstance(st, ast.Assign) and len(st.targets) == 1 and isinstance(st.targets[0], ast.Subscript)):
            continue
        v = st.value
        while isinstance(v, ast.Call) and (dotted(v.func) or "") in ("float", "np.float32") and v.args:
            v = v.args[0]
        if isinstance(v, ast.Call) and isinstance(v.func, ast.Attribute) and v.func.attr == "mean":
            n += 1
            rep.instance(rule + ".shellmean", fn.loc(st))
            rep.ob(rule, fn.anchor, "the landscape value is the mean of the per-shell correlation over all shells", True, "", node=st, fn=fn, clause=clause,
                   stmt="shell mean")
        elif isinstance(v, ast.BinOp) and isinstance(v.op, ast.Div) and any(isinstance(x, ast.Call) and isinstance(x.func, ast.Attribute) and x.func.attr == "sum"
                                                                           for x in ast.walk(v.left)):
            n += 1
            rep.instance(rule + ".shellmean", fn.loc(st))
            den_raw = norm_src(v.right)
            den = norm_src(M.expr(v.right))
            good = any(t in den_raw or t in den for t in ("len(index)", "index.size", "index.shape[0]", "nlabels + 1", "1 + nlabels", ".size", "len("))
            bad = (".max()" in den and "+ 1" not in den and "1 +" not in den) or den_raw.strip() == "nlabels"
            if not good and not bad:
                rep.note(f"shell mean: divisor `{den_raw}` not classified")
                continue
            rep.ob(rule, fn.anchor, "the landscape value is the mean of the per-shell correlation over all shells", True if (good and not bad) else False,
                   f"`{norm_src(st)[:70]}` divides the sum over the shells by `{den_raw}` (= {den[:40]}): there are nlabels + 1 shells (labels 0..nlabels), the score is "
                   f"(n + 1) / n too large" if bad else f"divisor `{den_raw}`", node=st, fn=fn, clause=clause, stmt="shell mean")
    return n


# ----------------------------------------------------------------------------------------------------------------------------------------------------------
# MEMO - a per-object memo must be invalidated by every method that changes the object


def stale_memo_obligations(model, rep, classes, clause, rule="MEMO"):
    """A field used as a memo inside a method (`v = self.F.get(k)` / `k in self.F` ... `self.F[k] = v`) caches something computed from the object's state.  If some
    method of the class or of a subclass (other than __init__) re-binds or mutates other state of the object (`self._molecules = ...` in add_tomogram) without
    clearing that field, later reads return the value computed for the old state."""
    n = 0
    for ci in classes:
        family = [ci] + [c for c in model.all_classes if c is not ci and c.is_subclass_of(ci)]
        methods = [f for f in model.all_functions if f.cls in family and f.parent is None]
        memo_fields = {}
        for f in methods:
            stores = {t.value.attr for st in ast.walk(f.node) if isinstance(st, ast.Assign) for t in st.targets
                      if isinstance(t, ast.Subscript) and isinstance(t.value, ast.Attribute) and norm_src(t.value.value) == "self"}
            reads = {c.func.value.attr for c in ast.walk(f.node) if isinstance(c, ast.Call) and isinstance(c.func, ast.Attribute) and c.func.attr == "get" and
                     isinstance(c.func.value, ast.Attribute) and norm_src(c.func.value.value) == "self"}
            reads |= {x.comparators[0].attr for x in ast.walk(f.node) if isinstance(x, ast.Compare) and len(x.ops) == 1 and isinstance(x.ops[0], (ast.In, ast.NotIn)) and
                      isinstance(x.comparators[0], ast.Attribute) and norm_src(x.comparators[0].value) == "self"}
            for fld in stores & reads:
                memo_fields.setdefault(fld, f)
        for fld, user in sorted(memo_fields.items()):
            n += 1
            rep.instance(rule, user.loc())
            stale = []
            for g in methods:
                if g.name == "__init__" or g is user:
                    continue
                changes = [st for st in ast.walk(g.node) if isinstance(st, (ast.Assign, ast.AugAssign)) and
                           any(isinstance(t, ast.Attribute) and norm_src(t.value) == "self" and t.attr != fld
                               for t in (st.targets if isinstance(st, ast.Assign) else [st.target]))]
                clears = any(isinstance(x, ast.Attribute) and x.attr == fld for x in ast.walk(g.node))
                if changes and not clears:
                    stale.append((g, changes[0]))
            rep.ob(rule, user.anchor, f"the memo `self.{fld}` is cleared by every method that changes the object", not stale,
                   (f"`{stale[0][0].short}` does `{norm_src(stale[0][1])[:50]}` and leaves `self.{fld}` as it is: `{user.name}` then returns the value computed before "
                    f"the change") if stale else "", node=(stale[0][1] if stale else user.node), fn=(stale[0][0] if stale else user), clause=clause,
                   stmt=(None if stale else f"memo {fld} in {user.name}"))
    return n
