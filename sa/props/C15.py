"""C15 - binned loaders look at the same physical region (DESIGN 5, C15)."""
from __future__ import annotations

import ast

from ..absint import TOP, Const, ExtRef, FuncRef, Interp, ListOf, Obj, Tup
from ..domains.affine import A, AffineDomain, Poly, Sl, mkA
from ..domains.arrays import Arr, ArrayDomain
from ..effects import EffectAnalysis
from ..repo import calls_in, dotted, norm_src, walk_no_nested
from ..match import Matcher, src as msrc
from .common import kwarg, need_funcs
from .C03 import local_assignments

SITES = ["acryo/loader/_loader.py::SubtomogramLoader.binning", "acryo/loader/_batch.py::BatchLoader.binning"]
ANCHORS = SITES + ["acryo/_utils.py::bin_image"]


class BinDomain(ArrayDomain):
    """Affine forms plus array shapes: the loader's image is an array of symbolic shape (n0, n1, n2) and bin_image(x, b) has shape n_i // b - so a scale that is
    derived from the image sizes (`scale * n / (n // b)`) is compared with scale * b like any other form."""

    def _image(self):
        for k in ("n0", "n1", "n2"):
            self.integer.add(k)
            self.positive.add(k)
        return Arr(tuple(self.sym(k) for k in ("n0", "n1", "n2")))

    def seed_field(self, interp, obj, name, node):
        if name in ("scale", "_scale"):
            return self.sym("scale")
        if name in ("image", "_image"):
            return self._image()
        return TOP

    def attr(self, interp, val, name, node):
        if isinstance(val, Obj) and name in ("image", "_image"):
            return self._image()
        return super().attr(interp, val, name, node)

    def call_repo(self, interp, funcs, bound, args, kwargs, node):
        if {f.name for f in funcs} == {"bin_image"} and args and isinstance(args[0], Arr):
            b = args[1] if len(args) > 1 else kwargs.get("binsize")
            b = self.lift(b) if b is not None else None
            if b is not None:
                return Arr(tuple(self.floordiv(n, b) for n in args[0].shape))
        return super().call_repo(interp, funcs, bound, args, kwargs, node)


def translation_clause(model, rep, funcs):
    forms = {}
    for a in SITES:
        f = funcs.get(a)
        if f is None:
            continue
        dom = BinDomain(model, integer_syms={"binsize"}, positive_syms={"binsize", "scale"})
        it = Interp(model, dom, depth=1)  # one level: a private helper that holds the shared half-bin translation is read through
        seen = {}

        def on_call(interp, fn, node, callee, args, kwargs, env, _f=f):
            if fn is not _f and not fn.name.startswith("_"):
                return  # (a private helper of the loader, e.g. the shared half-bin translation, is part of the binning code)
            nm = node.func.attr if isinstance(node.func, ast.Attribute) else ""
            if nm == "translate" and args:
                seen["tr"] = args[0]
                seen["tr_recv"] = norm_src(node.func.value)
            if nm in ("translate_internal", "linear_transform") and args:
                seen["wrong_frame"] = (nm, node)
            if nm == "replace" or norm_src(node.func) in ("self.__class__", "type(self)"):
                # the binned loader: self.replace(molecules=, scale=) or the constructor itself with the same keywords
                sc_ = kwargs.get("scale")
                if sc_ is None and hasattr(callee, "cls"):
                    # keyword arguments of a constructor call arrive positionalised: look the parameter up by its position in __init__
                    ini_ = callee.cls.find_method("__init__")
                    if ini_ is not None:
                        ps_ = [x.arg for x in ini_.node.args.posonlyargs + ini_.node.args.args][1:]
                        if "scale" in ps_ and ps_.index("scale") < len(args):
                            sc_ = args[ps_.index("scale")]
                seen["scale"] = sc_
                seen["mol"] = norm_src(kwarg(node, "molecules")) if kwarg(node, "molecules") is not None else None

        it.on_call.append(on_call)
        it.run(f, args={"binsize": dom.sym("binsize"), "compute": Const(False)})
        rep.instance("A.bin", f.loc())
        tr = seen.get("tr")
        comps = list(tr.items) if isinstance(tr, Tup) else None
        sc = seen.get("scale")
        if "wrong_frame" in seen:
            nm_, node_ = seen["wrong_frame"]
            rep.ob("F", a, "the half-bin offset is a translation along the tomogram (world) axes", False,
                   f"`{norm_src(node_)[:80]}` applies the offset along each molecule's own axes: it is rotated by the molecule's orientation, so rotated molecules "
                   "no longer look at the same physical region", node=node_, fn=f, clause="translation", stmt=f"binning frame ({a.split('::')[1]})")
            continue
        if not comps or len(comps) != 3 or not all(isinstance(c, A) for c in comps) or not isinstance(sc, A):
            rep.ob("A", a, "half-bin translation and new scale evaluated symbolically", None, f"translate arg {tr!r}, scale {sc!r}", node=f.node, fn=f,
                   clause="translation", stmt=f"def binning ({a.split('::')[1]})")
            continue
        b, s, pos = dom.sym("binsize"), dom.sym("scale"), dom.sym("pos")
        ok = True
        det = ""
        for i, t in enumerate(comps):
            lhs = dom.div(dom.add(pos, t), sc)  # new pixel coordinate
            rhs = dom.div(dom.add(dom.div(pos, s), dom.neg(dom.div(dom.add(b, mkA(-1)), mkA(2)))), b)  # centre of the b-block containing the old pixel centre
            if not lhs.equals(rhs):
                ok = False
                det += f"axis {i}: (pos + tr)/new_scale = {lhs!r}, required (pos/scale - (b-1)/2)/b = {rhs!r}; "
        rep.ob("A", a, "molecules keep their physical location: (pos + tr) / (scale*b) == (pos/scale - (b-1)/2) / b on every axis", ok, det, node=f.node, fn=f,
               clause="translation", stmt=f"def binning translation ({a.split('::')[1]})")
        rep.ob("A", a, "the binned loader's scale is scale * binsize", sc.equals(A(s.num * b.num)), f"new scale {sc!r}", node=f.node, fn=f, clause="translation",
               stmt=f"def binning scale ({a.split('::')[1]})")
        MB = Matcher(f)
        okm = seen.get("tr_recv") in ("self.molecules", "self._molecules") and \
            (MB.all_of(["$out = self.replace(molecules=self.molecules.translate($$t), ...)", "return $out"])[0] or
             MB.has("return self.replace(molecules=self.molecules.translate($$t), ...)") or
             MB.has("return self.__class__($$img, molecules=self.molecules.translate($$t), ...)") or
             MB.all_of(["$out = self.__class__($$img, molecules=self.molecules.translate($$t), ...)", "return $out"])[0])
        rep.ob("SLOT", a, "the translated copy of this loader's molecules is what the binned loader gets", okm, f"translate on {seen.get('tr_recv')}, replace(molecules={seen.get('mol')})",
               node=f.node, fn=f, clause="translation", stmt=f"def binning molecules ({a.split('::')[1]})")
        forms[a] = (tuple(repr(c) for c in comps), repr(sc))
        # binsize == 1 shortcut
        first = [n for n in f.node.body if isinstance(n, ast.If)]
        ok1 = Matcher(f).has("if binsize == 1:\n    return self.copy()") or Matcher(f).has("if binsize == 1:\n    return self.copy()\nelse:\n    ...")
        rep.ob("SLOT", a, "binsize == 1 returns an unchanged copy", ok1, "", node=f.node, fn=f, clause="translation", stmt=f"def binning b1 ({a.split('::')[1]})")
    if len(forms) == 2:
        rep.ob("S11", "binning siblings", "single and batch loaders compute the same translation and scale", len(set(forms.values())) == 1, f"{forms}",
               clause="translation", stmt="binning siblings")
    rep.floor("A.bin", 2, "(two binning implementations)")


class _BinDom(ArrayDomain):
    """ArrayDomain that remembers with which slices the image is cropped and with which shape / axes it is reshaped and reduced."""

    def __init__(self, model, **kw):
        super().__init__(model, **kw)
        self.crops = []

    def subscript(self, interp, val, index_node, index_val, node):
        if isinstance(val, Arr) and isinstance(index_val, Tup) and index_val.items and all(isinstance(x, Sl) for x in index_val.items):
            self.crops.append(index_val)
        return super().subscript(interp, val, index_node, index_val, node)


def bin_image_clause(model, rep, funcs):
    """bin_image is evaluated symbolically on a 3-D image of shape (s0, s1, s2): the crop, the reshape and the reduced axes are read off the
    calls it makes, however the slices and shapes are assembled (append loop, comprehensions, ...)."""
    f = funcs.get("acryo/_utils.py::bin_image")
    if f is None:
        return
    names = ("s0", "s1", "s2")
    dom = _BinDom(model, integer_syms=set(names) | {"binsize"}, positive_syms=set(names) | {"binsize"})
    it = Interp(model, dom, depth=0)
    reshapes, sums, sum_nodes = [], [], []

    def on_call(interp, fn, node, callee, args, kwargs, env):
        if fn is not f or not isinstance(node.func, ast.Attribute):
            return
        if node.func.attr == "reshape" and args:
            reshapes.append(args[0] if len(args) == 1 else Tup(list(args)))
        if node.func.attr == "sum":
            sums.append(kwargs.get("axis", args[0] if args else None))
            sum_nodes.append(node)

    it.on_call.append(on_call)
    shp = tuple(dom.sym(x) for x in names)
    b = dom.sym("binsize")
    it.run(f, args={"img": Arr(shp), "binsize": b})
    rep.instance("A.binimage", f.loc())
    ok, det = None, f"{len(dom.crops)} crop(s), {len(reshapes)} reshape(s)"
    if len(dom.crops) == 1 and len(reshapes) == 1 and isinstance(reshapes[0], Tup) and len(reshapes[0].items) == 6 and len(dom.crops[0].items) == 3:
        ok, det = True, ""
        for i in range(3):
            q = dom.floordiv(shp[i], b)
            want_stop = A(q.num * b.num)
            sl = dom.crops[0].items[i]
            start_ok = sl.start is None or (isinstance(sl.start, Const) and sl.start.value is None) or (isinstance(sl.start, A) and sl.start.equals(mkA(0)))
            if not (start_ok and isinstance(sl.stop, A) and sl.stop.equals(want_stop)):
                ok = False
                det += f"axis {i}: kept voxels {sl!r}, required [0 : b*(s//b)] = [0 : {want_stop!r}] (the block grid must start at voxel 0, the molecule offset assumes it); "
            p0, p1 = reshapes[0].items[2 * i], reshapes[0].items[2 * i + 1]
            if not (isinstance(p0, A) and isinstance(p1, A) and p0.equals(q) and p1.equals(b)):
                ok = False
                det += f"axis {i}: reshaped to ({p0!r}, {p1!r}), required (s//b, b); "
    rep.ob("A", f.anchor, "bin_image drops the incomplete remainder (keeps b*(s//b) voxels) and reshapes every axis to (s//b, b)", ok, det, node=f.node, fn=f,
           clause="block sum", stmt="def bin_image reshape")
    MI = Matcher(f)
    # the reduced axes, evaluated on constants for 3-D and 2-D images (sa/domains/consts.py): (1, 3, 5) / (1, 3) however the tuple is spelled
    from ..domains.consts import ConstDomain
    ok2 = len(sums) == 1
    if ok2:
        axn = kwarg(sum_nodes[0], "axis") or (sum_nodes[0].args[0] if sum_nodes[0].args else None)
        # a plain sum: no accumulator dtype, no initial value, no mask (sum(dtype=img.dtype) overflows on integer tomograms)
        ok2 = axn is not None and {k.arg for k in sum_nodes[0].keywords} <= {"axis"} and len(sum_nodes[0].args) <= 1
        for nd, want in ((3, (1, 3, 5)), (2, (1, 3))):
            if not ok2:
                break
            ax_e = axn
            if isinstance(ax_e, ast.Name):  # the defining expression as written (the matcher's expanded form rewrites comprehension variables)
                defs_ = [s_.value for s_ in walk_no_nested(f.node) if isinstance(s_, ast.Assign) and len(s_.targets) == 1 and isinstance(s_.targets[0], ast.Name)
                         and s_.targets[0].id == ax_e.id]
                ax_e = defs_[0] if len(defs_) == 1 else ax_e
            v = Interp(model, ConstDomain(attr_values={"ndim": nd}), depth=0).eval(ax_e, {}, f)
            got = tuple(x.value for x in v.items) if isinstance(v, Tup) and all(isinstance(x, Const) for x in v.items) else None
            ok2 = got == want
    rets_bi = [r for r in walk_no_nested(f.node) if isinstance(r, ast.Return)]
    if len(rets_bi) != 1:
        ok2 = False
    one_path_note = "" if len(rets_bi) == 1 else f"bin_image has {len(rets_bi)} return paths: a special case (e.g. chunk-wise binning of dask arrays) does not compute the block sum of the whole image"
    rep.ob("A", f.anchor, "the block sum reduces exactly the within-block axes 1, 3, 5 with sum(), on one code path for numpy and dask images", ok2, one_path_note, node=f.node, fn=f,
           clause="block sum", stmt="def bin_image sum")


def _fill_blocks(fnode, name):
    """Identities of the statement lists in which container `name` receives an entry (`name.append(..)`, `name[k] = ..`)."""
    out = set()
    for node in ast.walk(fnode):
        for field in ("body", "orelse", "finalbody"):
            body = getattr(node, field, None)
            if not isinstance(body, list):
                continue
            for st in body:
                hit = False
                if isinstance(st, ast.Expr) and isinstance(st.value, ast.Call) and isinstance(st.value.func, ast.Attribute) and st.value.func.attr in ("append", "add") and \
                        isinstance(st.value.func.value, ast.Name) and st.value.func.value.id == name:
                    hit = True
                if isinstance(st, ast.Assign) and any(isinstance(t, ast.Subscript) and isinstance(t.value, ast.Name) and t.value.id == name for t in st.targets):
                    hit = True
                if hit:
                    out.add((id(node), field))
    return out


def compute_tuple_clause(model, rep, funcs):
    """S1: dask.compute / da.compute return a tuple; every use must subscript or unpack it."""
    n = 0
    for fn in model.all_functions:
        for c in calls_in(fn):
            kind, tg = model.resolve_call(fn, c)
            if kind != "external" or tg not in ("dask.array.compute", "dask.compute", "dask.base.compute"):
                continue
            n += 1
            rep.instance("S1", fn.loc(c))
            parent = _parent(fn.node, c)
            ok = None
            det = norm_src(parent)[:90] if parent is not None else ""
            if any(isinstance(a_, ast.Starred) for a_ in c.args) or len(c.args) > 1:
                # compute(*collections) / compute(a, b): the tuple *is* the sequence of results, one per argument - iterating or zipping it is the intended use;
                # results of compute(*D.values()) go back under the keys of the same D (zip(D.keys(), results) / zip(D, results)), not of another mapping
                ok = True
                st_arg = [a_.value for a_ in c.args if isinstance(a_, ast.Starred)]
                src_d = None
                if len(st_arg) == 1 and isinstance(st_arg[0], ast.Call) and isinstance(st_arg[0].func, ast.Attribute) and st_arg[0].func.attr == "values":
                    src_d = norm_src(st_arg[0].func.value)
                tname = None
                if isinstance(parent, (ast.Assign, ast.AnnAssign)):
                    t_ = parent.targets[0] if isinstance(parent, ast.Assign) else parent.target
                    tname = t_.id if isinstance(t_, ast.Name) else None
                if src_d is not None and tname is not None:
                    for z in ast.walk(fn.node):
                        if isinstance(z, ast.Call) and dotted(z.func) == "zip" and any(isinstance(x, ast.Name) and x.id == tname for x in z.args):
                            others = [norm_src(x) for x in z.args if not (isinstance(x, ast.Name) and x.id == tname)]
                            if not all(o in (src_d, f"{src_d}.keys()") for o in others):
                                ok = False
                                det = (f"`{norm_src(z)[:70]}` pairs the results of compute(*{src_d}.values()) with the keys of another mapping: images are stored under "
                                       "ids they were not computed for")
                # results of compute(*L) for a list L filled in a loop: whatever they are zipped with must be filled in lock-step with L (same block, one entry each)
                if len(st_arg) == 1 and isinstance(st_arg[0], ast.Name):
                    lname = st_arg[0].id
                    zips = [z for z in ast.walk(fn.node) if isinstance(z, ast.Call) and dotted(z.func) == "zip" and
                            any(x is c or (tname is not None and isinstance(x, ast.Name) and x.id == tname) for x in z.args)]
                    for z in zips:
                        for x in z.args:
                            if x is c or (tname is not None and isinstance(x, ast.Name) and x.id == tname):
                                continue
                            pn = x.func.value if isinstance(x, ast.Call) and isinstance(x.func, ast.Attribute) and x.func.attr == "keys" and not x.args else x
                            if not isinstance(pn, ast.Name):
                                ok = None
                                det = f"`{norm_src(z)[:70]}`: partner of the computed results is not a plain container"
                                continue
                            bl, bp = _fill_blocks(fn.node, lname), _fill_blocks(fn.node, pn.id)
                            if len(bl) == 1 and len(bp) == 1 and bl == bp:
                                continue
                            if len(bl) == 1 and len(bp) == 1:
                                ok = False
                                det = (f"`{norm_src(z)[:80]}` pairs result k of compute(*{lname}) with entry k of `{pn.id}`, but `{pn.id}` and `{lname}` are not filled in lock-step "
                                       f"(`{lname}` gets an entry only under a condition, `{pn.id}` on another path): with a mixed batch the computed images are stored under the ids "
                                       "of other images")
                            elif ok:
                                ok = None
                                det = f"`{norm_src(z)[:70]}`: cannot establish that `{pn.id}` and `{lname}` are filled in lock-step"
            elif isinstance(parent, ast.Subscript) and parent.value is c:
                ok = True
            elif isinstance(parent, ast.Assign) and parent.value is c:
                t = parent.targets[0]
                if isinstance(t, (ast.Tuple, ast.List)):
                    ok = True
                elif isinstance(t, ast.Name):
                    uses = [u for u in ast.walk(fn.node) if isinstance(u, ast.Name) and u.id == t.id and isinstance(u.ctx, ast.Load)]
                    bad = [u for u in uses if not isinstance(_parent(fn.node, u), ast.Subscript)]
                    ok = not bad
                    if bad:
                        det = f"`{t.id}` (a 1-tuple) is used as if it were the computed value: `{norm_src(_parent(fn.node, bad[0]))[:70]}`"
            elif isinstance(parent, ast.Return):
                ok = fn.name == "compute"
            elif isinstance(parent, ast.Call) and dotted(parent.func) == "tuple":
                ok = True
            else:
                ok = False
                det = f"the tuple returned by compute() is used directly in `{norm_src(parent)[:80]}`"
            if ok is False and isinstance(parent, ast.Assign) and isinstance(parent.targets[0], ast.Name):
                det += " - e.g. dict.update(<1-tuple of a dict>) inserts the dict's keys as (key, value) pairs"
            rep.ob("S1", fn.anchor, "the tuple returned by dask.compute is subscripted or unpacked before use", ok, det, node=c, fn=fn, clause="computed images")
    rep.floor("S1", 6, "(dask.compute call sites)")


def _parent(root, node):
    for p in ast.walk(root):
        for ch in ast.iter_child_nodes(p):
            if ch is node:
                return p
    return None


def purity_clause(model, rep, funcs):
    ea = EffectAnalysis(model)
    for a in SITES:
        f = funcs.get(a)
        if f is None:
            continue
        rep.instance("S18", a)
        effs = [e for e in ea.closed_effects(f, depth=3) if e.kind in ("store", "mutate") and e.root == "self"]
        rep.ob("S18", a, "binning writes only fields of the fresh result, never of the loader it was called on", not effs, "; ".join(e.describe() for e in effs[:2]),
               node=(effs[0].node if effs else f.node), fn=(effs[0].fn if effs else f), clause="purity", stmt=(None if effs else f"def binning pure ({a})"))
        # the binned image(s) replace the image field(s) of the result
        s = norm_src(f.node)
        MB = Matcher(f)
        okimg = MB.all_of(["$img = _utils.bin_image(self.image, binsize=binsize)", "$out = self.replace(...)", "$out._image = $img", "return $out"])[0] or \
            MB.all_of(["$img = _utils.bin_image(self.image, binsize=binsize)", "return self.__class__($img, ...)"])[0] or \
            MB.all_of(["$img = _utils.bin_image(self.image, binsize=binsize)", "$out = self.__class__($img, ...)", "return $out"])[0] or \
            MB.all_of(["for $id, $image in self._images.items():\n    ...", "$b = _utils.bin_image($image, binsize=binsize)", "$imgs[$id] = $b",
                       "$out = self.replace(...)", "$out._images = $imgs", "return $out"])[0] or \
            MB.all_of(["$imgs = {$id: _utils.bin_image($image, binsize=binsize) for $id, $image in self._images.items()}",
                       "$out = self.replace(...)", "$out._images = $imgs", "return $out"])[0]
        rep.ob("SLOT", a, "the result's image is the block-summed image (bin_image of this loader's image with the same binsize)", okimg and "bin_image(" in s and "binsize=binsize" in s,
               "", node=f.node, fn=f, clause="purity", stmt=f"def binning image ({a})")


def check(model, rep, tier):
    rep.decided += ["C15 translation identity (pos+tr)/(scale*b) == (pos/scale-(b-1)/2)/b and scale update in both binning implementations; bin_image keeps b*(s//b) voxels, "
                    "reshapes to (s//b, b) pairs and sums the within-block axes; dask.compute tuples are unpacked; binning is pure"]
    rep.not_decided += ["numerical equality with block sums of loaded sub-volumes"]
    funcs = need_funcs(model, rep, ANCHORS)
    translation_clause(model, rep, funcs)
    bin_image_clause(model, rep, funcs)
    compute_tuple_clause(model, rep, funcs)
    purity_clause(model, rep, funcs)
    # a binned batch loader loads through per-tomogram loaders rebuilt from it: they must inherit its (binned) scale and every other setting
    from .generic import rebuild_ctor_obligations, functions_in
    rebuild_ctor_obligations(model, rep, functions_in(model, ["acryo/loader/_batch.py"]), "scale", only=("scale",))
    rep.floor("CTOR", 1, "(LoaderAccessor rebuilds per-tomogram loaders from the batch loader, directly or in one shared helper)")
