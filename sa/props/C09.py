"""C09 - averages are plain arithmetic means of the loaded subtomograms (DESIGN 5, C09)."""
from __future__ import annotations

import ast
from dataclasses import dataclass

from ..absint import TOP, Const, Domain, ExtRef, Interp, Tup
from ..repo import calls_in, dotted, norm_src, walk_no_nested
from ..match import Matcher, src as msrc
from .common import accumulator_scope_obligations,  kwarg, need_funcs
from .C03 import local_assignments, one_shot_clause

LB = "acryo/loader/_base.py::LoaderBase."
LG = "acryo/loader/_group.py::LoaderGroup."
ANCHORS = [LB + "average", LB + "average_split", LB + "construct_dask", LG + "average", LG + "average_split", "acryo/loader/_misc.py::random_splitter",
           "acryo/loader/_batch.py::BatchLoader.construct_loading_tasks"]


# --------------------------------------------------------------------------- M: boolean masks
@dataclass(frozen=True)
class Mask:
    base: bool  # value everywhere ...
    idx: str | None = None  # ... except at this index set, where the value is `val`
    val: bool | None = None
    maybe_none = False

    def __repr__(self):
        if self.idx is None:
            return f"Mask[all {self.base}]"
        return f"Mask[{'In' if self.val else 'NotIn'}({self.idx})]" if self.base != self.val else f"Mask[all {self.base}]"


class MaskDomain(Domain):
    def __init__(self):
        self.idx_defs = {}

    def const(self, interp, value, node):
        return Const(value)

    def seed_param(self, interp, fn, arg):
        return ("sym", arg.arg)

    def call_external(self, interp, name, recv, args, kwargs, node):
        last = (name or "").rsplit(".", 1)[-1]
        if last in ("zeros", "ones", "full") and ("bool" in norm_src(node)):
            if last == "full":
                v = args[1] if len(args) > 1 else None
                return Mask(bool(v.value)) if isinstance(v, Const) else TOP
            return Mask(last == "ones")
        if last in ("zeros_like", "ones_like") and args and isinstance(args[0], Mask):
            return Mask(last == "ones_like")
        if last in ("logical_not", "invert") and args and isinstance(args[0], Mask):
            return self.unary(interp, ast.Invert(), args[0], node)
        if last == "copy" and isinstance(recv, Mask):
            return recv
        return ("expr", norm_src(node))

    def unary(self, interp, op, val, node):
        if isinstance(val, Mask) and isinstance(op, (ast.Invert, ast.Not)):
            return Mask(not val.base, val.idx, (not val.val) if val.val is not None else None)
        return TOP

    def binop(self, interp, op, l, r, node):
        return ("expr", norm_src(node))

    def store_sub(self, interp, container, index_node, index_val, value, node):
        if isinstance(container, Mask) and isinstance(value, Const) and isinstance(value.value, bool) and container.idx is None:
            return Mask(container.base, norm_src(index_node), value.value)
        return TOP

    def attr(self, interp, val, name, node):
        return NotImplemented

    def join(self, interp, a, b):
        return a if a == b else TOP


def reducers_clause(model, rep, funcs):
    from .generic import overrides_of, delegates_to_super
    base = funcs.get(LB + "average")
    defs = [base] + [m for m in overrides_of(model, base) if not delegates_to_super(m)] if base is not None else []
    for a in (LB + "average_split", LB + "construct_dask"):
        b = funcs.get(a)
        if b is None:
            continue
        for m in overrides_of(model, b):
            if delegates_to_super(m):
                continue
            rep.instance("OVR", m.loc())
            rep.ob("OVR", m.anchor, f"`{m.short}` replaces the verified `{b.short}` only by delegating to it", False,
                   f"{m.short} re-implements {b.name} outside the rules that were checked on {b.short}", node=m.node, fn=m, clause="1 reducers", stmt=f"override {m.short}")
    from ..domains.terms import T as _T, TermDomain as _TD, calls_of as _calls_of, strip as _strip, subterms as _subterms, callee_name as _cn
    for f in defs:
        rep.instance("SLOT.mean", f.loc())
        # decided on symbolic terms: the returned value, with value-preserving wrappers (asnumpy, compute, rechunk) removed, is mean(<stack>, axis=0) -
        # spelled as a method or as da.mean / np.mean - of the loader's own construct_dask() stack
        out = Interp(model, _TD(), depth=0).run(f, self_val=_T("param", ("self",)))
        ok, det = None, f"returns {out!r}"[:200]
        if isinstance(out, _T):
            v = _strip(out, ext_wrappers=("asnumpy", "asarray", "compute", "float32"))
            reducers = [c for c in _subterms(out) if _cn(c) in ("mean", "sum", "median", "max", "min", "nanmean", "average", "std")]
            ok = False
            det = f"value {v!r}"[:200]
            if len(reducers) == 1 and reducers[0] == v and _cn(v) == "mean":
                kw = dict(v.args[2])
                if v.args[0].op == "attr":   # x.mean(axis=0)
                    src_, axis = v.args[0].args[0], kw.get("axis", v.args[1][0] if v.args[1] else None)
                else:                        # da.mean(x, axis=0)
                    src_, axis = (v.args[1][0] if v.args[1] else None), kw.get("axis", v.args[1][1] if len(v.args[1]) > 1 else None)
                stack = _strip(src_, ext_wrappers=("rechunk", "persist", "astype")) if src_ is not None else None
                cds = _calls_of(stack, attr_name="construct_dask") if stack is not None else []
                ok = axis == _T("const", ("0",)) and len(cds) == 1 and stack == cds[0] and cds[0].args[0].args[0] == _T("param", ("self",))
                det = "" if ok else f"mean(axis={axis!r}) of {stack!r}"[:200]
            elif len(reducers) != 1:
                det = f"{len(reducers)} reductions in the returned value: {[_cn(c) for c in reducers]}"
        rep.ob("SLOT", f.anchor, "the average is mean(axis=0) of the full stack of loaded sub-tomograms", ok, det, node=f.node, fn=f, clause="1 reducers",
               stmt="def average reduce")
        # the stack is the loader's own construct_dask, rechunked along axis 0 only
        cd = [c for c in calls_in(f) if isinstance(c.func, ast.Attribute) and c.func.attr == "construct_dask" and dotted(c.func.value) == "self"]
        rc = [c for c in calls_in(f) if isinstance(c.func, ast.Attribute) and c.func.attr == "rechunk"]
        MA = Matcher(f)
        okr = len(cd) == 1 and all(MA.has("$$x.rechunk(('auto',) + $$shape)", within=None) for c in rc if c.args) and \
            MA.count("$$x.rechunk(('auto',) + $$shape)") >= len([c for c in rc if c.args])
        rep.ob("SLOT", f.anchor, "the stack comes from self.construct_dask() and re-chunking only touches the molecule axis", okr,
               f"construct_dask calls: {len(cd)}; rechunk args: {[norm_src(c.args[0]) for c in rc if c.args]}", node=f.node, fn=f, clause="1 reducers",
               stmt="def average stack")
    f = funcs.get(LG + "average")
    if f is not None:
        rep.instance("SLOT.mean", f.loc())
        # decided on symbolic terms (sa/domains/terms.py): the returned mapping {K: V} must have K = key component of the generic element of iterating
        # `self` and V = mean(axis=0) of construct_dask() of the *loader component of the same element* - whatever loop / comprehension / pair-list spelling
        from ..domains.terms import T, TermDomain, calls_of, strip, subterms
        dom = TermDomain()
        out = Interp(model, dom, depth=1).run(f, self_val=T("param", ("self",)))
        ok, det = None, f"returns {out!r}"[:200]
        d = None
        for s_ in subterms(out) if isinstance(out, T) else []:
            if s_.op == "dict":
                d = dict(s_.args)
        if isinstance(out, T) and out.op == "dict":
            d = dict(out.args)
        if d is not None and "$key" in d and "$dyn" in d:
            E = T("elem", (T("param", ("self",)),))
            k, v = d["$key"], strip(d["$dyn"])
            okk = k == T("item", (E, 0))
            means = [c for c in subterms(d["$dyn"]) if c.op == "call" and ((c.args[0].op == "ext" and str(c.args[0].args[0]).rsplit(".", 1)[-1] in ("mean", "sum", "median", "nanmean", "average"))
                                                                           or (c.args[0].op == "attr" and c.args[0].args[1] in ("mean", "sum", "median")))]
            okv = False
            why = ""
            if len(means) == 1 and means[0] == v:
                m = means[0]
                red = str(m.args[0].args[0]).rsplit(".", 1)[-1] if m.args[0].op == "ext" else m.args[0].args[1]
                axis = dict(m.args[2]).get("axis")
                src_ = m.args[1][0] if m.args[0].op == "ext" and m.args[1] else (m.args[0].args[0] if m.args[0].op == "attr" else None)
                if axis is None and m.args[0].op == "ext" and len(m.args[1]) > 1:
                    axis = m.args[1][1]
                cds = calls_of(src_, attr_name="construct_dask") if src_ is not None else []
                okv = red == "mean" and axis == T("const", ("0",)) and len(cds) == 1 and strip(src_) == cds[0] and cds[0].args[0].args[0] == T("item", (E, 1))
                why = f"value is {red}(axis={axis!r}) of {src_!r}"[:200]
            else:
                why = f"value `{d['$dyn']!r}`"[:200] + f" has {len(means)} reducers or is wrapped by something that is not value-preserving"
            ok = bool(okk and okv)
            det = "" if ok else (("key is " + repr(k) + ", not the group's own key; ") if not okk else "") + why
        reorder = [n for n in ast.walk(f.node) if (isinstance(n, ast.Call) and (dotted(n.func) or "").split(".")[-1] in ("sorted", "reversed", "sort", "reverse", "set", "shuffle"))
                   or (isinstance(n, ast.Slice) and n.step is not None)]
        if ok and reorder:
            ok, det = False, f"`{norm_src(reorder[0])[:60]}` re-orders one of the lists that are paired by position"
        rep.ob("SLOT", f.anchor, "each group average is mean(axis=0) of that group's own stack, returned under that group's key", ok, det, node=f.node, fn=f,
               clause="1 reducers", stmt="def LoaderGroup.average")
    f = funcs.get(LB + "construct_dask")
    if f is not None:
        st = [c for c in calls_in(f) if (dotted(c.func) or "").endswith("stack")]
        rep.instance("SLOT.mean", f.loc())
        ok = len(st) == 1 and (Matcher(f).has("da.stack(self.construct_loading_tasks(output_shape, $$xp), axis=0)") or
                               # DaskArrayList.as_stack(axis) is da.stack(self, axis=axis) (acryo/_dask.py)
                               Matcher(f).has("self.construct_loading_tasks(output_shape, $$xp).as_stack(axis=0)") or
                               Matcher(f).has("self.construct_loading_tasks(self._get_output_shape(output_shape), $$xp).as_stack(axis=0)") or
                               Matcher(f).has("da.stack(self.construct_loading_tasks(self._get_output_shape(output_shape), $$xp), axis=0)"))
        rep.ob("SLOT", f.anchor, "construct_dask stacks all loading tasks along a new axis 0", ok, norm_src(st[0])[:80] if st else "", node=f.node, fn=f,
               clause="1 reducers", stmt="def construct_dask")


def halves_clause(model, rep, funcs):
    f = funcs.get("acryo/loader/_misc.py::random_splitter")
    if f is not None:
        dom = MaskDomain()
        it = Interp(model, dom, depth=0)
        out = it.run(f)
        rep.instance("M.halves", f.loc())
        ok = None
        det = f"returned {out!r}"
        if isinstance(out, Tup) and len(out.items) == 2 and all(isinstance(x, Mask) for x in out.items):
            a, b = out.items
            ok = a.idx is not None and a.idx == b.idx and a.base != b.base and a.val != b.val and a.val == (not a.base) and b.val == (not b.base)
            det = f"returned ({a!r}, {b!r})"
        rep.ob("M", f.anchor, "the two index masks are complementary: (In(S), NotIn(S)) built from the same index set S", ok, det, node=f.node, fn=f,
               clause="2 halves", stmt="def random_splitter")
        # S is drawn from the generator argument, from arange(nmole), size nmole // 2
        ch = [c for c in calls_in(f) if isinstance(c.func, ast.Attribute) and c.func.attr in ("choice", "permutation", "integers")]
        chx = Matcher(f).expr(ch[0]) if len(ch) == 1 else None  # temporaries such as `n_draw = nmole // 2` expanded
        okc = chx is not None and norm_src(ch[0].func.value) == f.param_names()[0] and "nmole // 2" in norm_src(chx) and "nmole" in norm_src(chx.args[0])
        rep.ob("M", f.anchor, "the selected half has nmole // 2 draws from range(nmole) taken from the generator argument (=> both halves non-empty for nmole >= 2)",
               okc, norm_src(ch[0])[:80] if ch else "no draw", node=f.node, fn=f, clause="2 halves", stmt="def random_splitter draw")
    for a in (LB + "average_split", LG + "average_split"):
        f = funcs.get(a)
        if f is None:
            continue
        rep.instance("M.halves", f.loc())
        sp = [n for n in walk_no_nested(f.node) if isinstance(n, ast.Assign) and isinstance(n.value, ast.Call) and (dotted(n.value.func) or "").endswith("random_splitter")]
        ok = len(sp) == 1 and isinstance(sp[0].targets[0], ast.Tuple) and len(sp[0].targets[0].elts) == 2
        det = ""
        if ok:
            i0, i1 = (norm_src(x) for x in sp[0].targets[0].elts)
            subs = [n for n in ast.walk(f.node) if isinstance(n, ast.Subscript) and norm_src(n.slice) in (i0, i1)]
            bases = {norm_src(n.value) for n in subs}
            used = sorted(norm_src(n.slice) for n in subs)
            ok = len(bases) == 1 and used == sorted([i0, i1])
            det = f"halves: {[norm_src(n) for n in subs]}"
            # both halves reduced by mean(axis=0)
            means = [c for c in ast.walk(f.node) if isinstance(c, ast.Call) and (dotted(c.func) or norm_src(c.func)).split(".")[-1] == "mean" and
                     any(x in subs for x in ast.walk(c))]
            if len(means) != 2 or any(norm_src(kwarg(m, "axis") or ast.Constant(None)) != "0" for m in means):
                ok = False
                det += f"; mean calls on halves: {[norm_src(m)[:50] for m in means]}"
            # splitter receives the generator and the stack length
            c = sp[0].value
            rngs = [n for n in walk_no_nested(f.node) if isinstance(n, ast.Assign) and "default_rng" in norm_src(n.value)]
            rv = norm_src(rngs[0].targets[0]) if rngs else None
            if not (c.args and norm_src(c.args[0]) == rv):
                ok = False
                det += "; splitter is not given the seeded generator"
            n_ok = len(c.args) > 1 and any(isinstance(s, ast.Assign) and norm_src(s.targets[0]) == norm_src(c.args[1]) and ".shape[0]" in norm_src(s.value) and
                                           norm_src(s.value).split(".shape")[0] in bases for s in ast.walk(f.node))
            if not n_ok:
                ok = False
                det += "; molecule count handed to the splitter is not the length of the very stack that is split"
        rep.ob("M", a, "both half-averages are mean(axis=0) of stack[ind0] and stack[ind1] of one and the same stack, indices from one random_splitter call",
               ok, det, node=f.node, fn=f, clause="2 halves", stmt=f"def {f.name} halves")


def rng_clause(model, rep, funcs):
    n = 0
    for fn in model.all_functions:
        for c in calls_in(fn):
            d = dotted(c.func) or ""
            if d.startswith(("np.random.", "numpy.random.", "random.")) or d in ("default_rng",):
                n += 1
                last = d.split(".")[-1]
                rep.instance("S12", fn.loc(c))
                if last not in ("default_rng", "Generator", "SeedSequence"):
                    rep.ob("S12", fn.anchor, "no global-state random number generator is used", False, f"`{norm_src(c)[:60]}` draws from numpy's global RNG state",
                           node=c, fn=fn, clause="3 reproducibility")
                    continue
                arg = c.args[0] if c.args else kwarg(c, "seed")
                names = {x.id for x in ast.walk(arg) if isinstance(x, ast.Name)} if arg is not None else set()
                params = set(fn.param_names())
                attrs = {x.attr for x in ast.walk(arg) if isinstance(x, ast.Attribute)} if arg is not None else set()
                ok = (bool(names & params) and bool(names & {"seed", "i", "random_state", "rng"})) or any("seed" in x for x in attrs) if arg is not None else False
                # the seed reaches the generator unchanged: `seed or None`, `seed and ...`, arithmetic on the seed or a conditional would map distinct
                # seeds (0 in particular) to the same or to no seed
                direct = arg is not None and (isinstance(arg, ast.Name) or (isinstance(arg, ast.Attribute) and isinstance(arg.value, ast.Name)))
                if ok and not direct:
                    rep.ob("S12", fn.anchor, "the seed argument reaches the generator unchanged (seed 0 is a seed like any other)", False,
                           f"default_rng({norm_src(arg)}): the seed is transformed before use; `seed or None` turns seed 0 into an unseeded generator", node=c, fn=fn,
                           clause="3 reproducibility", stmt="seed passed unchanged: " + norm_src(c)[:60])
                rep.ob("S12", fn.anchor, "the generator is seeded from the caller's seed argument", ok,
                       f"default_rng({norm_src(arg) if arg is not None else ''}); parameters {sorted(params)}", node=c, fn=fn, clause="3 reproducibility")
    rep.floor("S12", 3, "(default_rng sites)")
    # seed / n_set are forwarded unchanged
    for a in (LB + "average_split", LG + "average_split"):
        f = funcs.get(a)
        if f is None:
            continue
        loops = [lp for lp in ast.walk(f.node) if isinstance(lp, ast.For) and isinstance(lp.iter, ast.Call) and dotted(lp.iter.func) == "range"]
        ok = any(norm_src(lp.iter.args[0]) == "n_set" for lp in loops if lp.iter.args)
        rep.ob("S12", a, "n_set independent splits are drawn from the one seeded generator", ok, "", node=f.node, fn=f, clause="3 reproducibility",
               stmt=f"def {f.name} n_set")


def check(model, rep, tier):
    rep.decided += ["C09.1 averages are mean(axis=0) of the full stack (single/batch/group)", "C09.2 halves are complementary index masks of one stack",
                    "C09.3 randomness flows only from the seed argument", "C09.4 groups are re-iterable (else average_split returns {})"]
    rep.not_decided += ["floating-point identity of dask means across chunkings", "non-emptiness of halves (argued from nmole//2 >= 1, not proved)"]
    funcs = need_funcs(model, rep, ANCHORS)
    reducers_clause(model, rep, funcs)
    halves_clause(model, rep, funcs)
    rng_clause(model, rep, funcs)
    one_shot_clause(model, rep, funcs)
    nacc = 0
    for a in (LG + "average_split", LG + "average", LG + "align", LG + "align_multi_templates", LG + "fsc"):
        try:
            f = funcs.get(a) or model.func(a)
        except Exception:
            continue
        nacc += accumulator_scope_obligations(model, rep, f, "1 reducers")
    rep.floor("S25", 1, "(LoaderGroup.average_split collects one task list per group)")
    from .generic import forwarded_parameter_obligations
    callees = {"construct_dask": 0, "construct_loading_tasks": 0, "_get_output_shape": 0}
    for a in (LB + "average", LB + "average_split", LB + "construct_dask", LG + "average", LG + "average_split"):
        f = funcs.get(a)
        if f is not None:
            forwarded_parameter_obligations(model, rep, f, "output_shape", callees, "1 reducers")
    rep.floor("FWDP", 8, "(output_shape handed from the averaging entry points to the stack builders)")
    # the stack that is averaged is built from the loader's current molecules: no stale per-loader memo
    from .generic import stale_memo_obligations
    try:
        rep.stats["memo_fields_in_loaders"] = stale_memo_obligations(model, rep, [model.cls("acryo/loader/_base.py::LoaderBase")], "1 reducers")
    except KeyError as e:
        rep.error(f"anchor vanished: {e}")
    # the half maps returned with the FSC are the members of each split (shared with C17)
    from .C17 import halfmap_selection_obligations
    try:
        fh = model.func(LB + "fsc_with_halfmaps")
        halfmap_selection_obligations(rep, fh, LB + "fsc_with_halfmaps", "2 halves")
    except KeyError:
        pass
    # the per-tomogram loaders a batch averages over are rebuilt with every setting of the batch (order, scale, output_shape, corner_safe)
    from .generic import rebuild_ctor_obligations, functions_in
    rebuild_ctor_obligations(model, rep, functions_in(model, ["acryo/loader/_batch.py"]), "1 reducers")
    rep.floor("CTOR", 1, "(LoaderAccessor rebuilds per-tomogram loaders from the batch loader, directly or in one shared helper)")

