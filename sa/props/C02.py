"""C02 - sub-tomograms sample the tomogram on the molecule's local grid (DESIGN 5, C02)."""
from __future__ import annotations

import ast
from fractions import Fraction

from ..absint import TOP, Const, FuncRef, Interp, ListOf, Obj, Tup
from ..domains.affine import A, AffineDomain, BoolC, BoolOr, Mat, Poly, RotSym, Sl, mkA
from ..domains.frames import AffT, FramesDomain, Rot
from ..domains.units import PX, UnitsDomain
from ..match import Matcher
from ..repo import calls_in, dotted, norm_src, walk_no_nested
from .common import SinkTable, need_funcs, kwarg

U_ = "acryo/_utils.py::"
ANCHORS = [U_ + "prepare_affine", U_ + "prepare_affine_cornersafe", U_ + "compose_matrices", U_ + "make_slice_and_pad",
           "acryo/backend/_api.py::Backend.rotated_crop", "acryo/backend/_api.py::Backend.affine_transform",
           "acryo/loader/_loader.py::SubtomogramLoader.construct_loading_tasks", "acryo/simulator.py::_prep_slices"]


def _dom(model):
    return AffineDomain(
        model,
        integer_syms={"output_shape", "order", "img.shape", "z0", "z1", "size", "s0"},
        nonneg_syms={"order"},
        positive_syms={"output_shape", "img.shape", "size"},
        vector_params={"center", "output_shape"},
    )


# --------------------------------------------------------------------------- clause 2 + padding identity
def slice_pad_clause(model, rep, funcs):
    f = funcs.get(U_ + "make_slice_and_pad")
    if f is None:
        return
    dom = _dom(model)
    it = Interp(model, dom, depth=1)
    z0, z1, size = dom.sym("z0"), dom.sym("z1"), dom.sym("size")
    pre = [Poly.atom(("sym", "z1")) - Poly.atom(("sym", "z0")) - Poly.const(1)]  # z0 < z1 (integers)
    nret = [0]
    nraise = [0]

    def on_return(interp, fn, st, val, env):
        if fn is not f:
            return
        nret[0] += 1
        pcs = env.get("$pc", ())
        pcdesc = " and ".join(f"{c.diff!r} {c.op} 0" for c in pcs if isinstance(c, BoolC))
        where = f.anchor
        if not (isinstance(val, Tup) and len(val.items) >= 2 and isinstance(val.items[0], Sl) and isinstance(val.items[1], Tup)
                and len(val.items[1].items) == 2):
            rep.ob("A", where, "return value is (slice, (pad_before, pad_after), flag)", None, f"got {val!r}", node=st, fn=f, clause="1 window")
            return
        sl, pads = val.items[0], val.items[1].items
        a, b, p0, p1 = sl.start, sl.stop, pads[0], pads[1]
        if not all(isinstance(x, A) for x in (a, b, p0, p1)):
            rep.ob("A", where, "slice bounds and pads are affine in (z0, z1, size)", None, f"{val!r}", node=st, fn=f, clause="1 window")
            return
        rep.instance("A.slicepad", f"{f.loc(st)} path[{pcdesc}]")
        tag = f" on path [{pcdesc}]"
        e1 = dom.proves_equal(dom.add(a, dom.neg(p0)), z0, pcs, extra=pre)
        rep.ob("A", where, "slice.start - pad_before == z0 (padding keeps tomogram voxel t at sub-image index t - z0)" + tag, e1,
               f"slice.start - pad_before = {dom.add(a, dom.neg(p0))!r}", node=st, fn=f, clause="1 window")
        e2 = dom.proves_equal(dom.add(b, p1), z1, pcs, extra=pre)
        rep.ob("A", where, "slice.stop + pad_after == z1" + tag, e2, f"slice.stop + pad_after = {dom.add(b, p1)!r}", node=st, fn=f,
               clause="1 window")
        goal = dom.add(b, dom.neg(a)).poly() - Poly.const(1)
        if dom.prove_ge(goal, pcs, extra=pre):
            ok, det = True, ""
        else:
            w = dom.witness(goal, list(pcs) + [BoolC(dom.add(z1, dom.neg(z0)), ">")])
            if w is not None:
                ok, det = False, (f"slice {a!r}:{b!r} can be empty on this non-raising path, e.g. {w}: the window does not overlap "
                                  "[0,size) yet no SubvolumeOutOfBoundError is raised (an empty slice turns da.pad(mode='mean') into NaNs)")
            else:
                ok, det = None, "cannot prove stop - start >= 1 and found no small witness"
        rep.ob("S13", where, "non-raising path yields a non-empty slice (guards are the exact complement of 'window overlaps [0,size)')" + tag,
               ok, det, node=st, fn=f, clause="2 guards", stmt=norm_src(st) + " @ " + pcdesc)
        def _neg_witness(goal_poly):
            try:
                return dom.witness(goal_poly, list(pcs) + [BoolC(dom.add(z1, dom.neg(z0)), ">")])
            except Exception:
                return None

        for nm, v in (("pad_before", p0), ("pad_after", p1), ("slice.start", a)):
            okp = dom.prove_ge(v.poly(), pcs, extra=pre) if v.is_poly() else None
            w = _neg_witness(v.poly()) if (okp is False and v.is_poly()) else None
            rep.ob("A", where, f"{nm} >= 0" + tag, True if okp else (False if w is not None else None),
                   "" if okp else (f"{nm} = {v!r} is negative for {w}" if w is not None else f"cannot prove {v!r} >= 0"), node=st, fn=f, clause="1 window")
        if len(val.items) >= 3:
            # the flag tells the callers whether the cropped block must be padded: it has to be true exactly when a pad is non-zero
            need = dom.decide(BoolOr((BoolC(p0, "!="), BoolC(p1, "!="))), pcs, extra=pre)
            flag = dom.decide(val.items[2], pcs, extra=pre)
            okf = None if (need is None or flag is None) else (need == flag)
            if need is None:
                # padding is needed on part of this path only: decide the flag separately where a pad is non-zero and where both are zero
                verdicts = []
                for case, want in [([BoolC(p0, ">")], True), ([BoolC(p0, "<")], True), ([BoolC(p1, ">")], True), ([BoolC(p1, "<")], True),
                                   ([BoolC(p0, "=="), BoolC(p1, "==")], False)]:
                    pc2 = list(pcs) + case
                    if dom.prove_ge(Poly.const(-1), pc2, pre):
                        continue  # this case cannot occur on the path
                    got = dom.decide(val.items[2], pc2, extra=pre)
                    verdicts.append(None if got is None else got == want)
                okf = False if any(v is False for v in verdicts) else (None if any(v is None for v in verdicts) else True)
            rep.ob("A", where, "the out-of-bound flag is true exactly when pad_before or pad_after is non-zero (callers pad only when it is set)" + tag, okf,
                   f"padding needed: {need}, flag: {flag} ({val.items[2]!r})"[:300], node=st, fn=f, clause="1 window", stmt=norm_src(st) + " flag @ " + pcdesc)
        gb = (dom.add(size, dom.neg(b))).poly()
        okb = dom.prove_ge(gb, pcs, extra=pre)
        w = _neg_witness(gb) if not okb else None
        rep.ob("A", where, "slice.stop <= size" + tag, True if okb else (False if w is not None else None),
               "" if okb else (f"slice.stop = {b!r} exceeds size for {w}: the block is cut short and never padded" if w is not None else f"cannot prove {b!r} <= size"),
               node=st, fn=f, clause="1 window")

    def on_raise(interp, fn, st, env):
        if fn is not f:
            return
        nraise[0] += 1
        pcs = env.get("$pc", ())
        pcdesc = " and ".join(f"{c.diff!r} {c.op} 0" for c in pcs if isinstance(c, BoolC))
        # raising is only legitimate when the window [z0,z1) does not overlap [0,size): z0 >= size or z1 <= 0
        g1 = (dom.add(z0, dom.neg(size))).poly()
        g2 = (dom.neg(z1)).poly()
        ok = dom.prove_ge(g1, pcs, extra=pre) or dom.prove_ge(g2, pcs, extra=pre)
        det = ""
        if not ok:
            # witness: overlap while raising
            w = dom.witness(Poly.const(-1), list(pcs) + [BoolC(dom.add(z1, dom.neg(z0)), ">"), BoolC(dom.add(z0, dom.neg(size)), "<"), BoolC(z1, ">")])
            if w is not None:
                ok, det = False, f"raises although the window overlaps the axis, e.g. {w}"
            else:
                ok, det = None, "cannot prove that the raising path implies no overlap"
        rep.instance("A.slicepad", f"{f.loc(st)} raise[{pcdesc}]")
        rep.ob("S13", f.anchor, f"SubvolumeOutOfBoundError only when the window has no overlap with [0,size) on path [{pcdesc}]", ok, det,
               node=st, fn=f, clause="2 guards", stmt=norm_src(st) + " @ " + pcdesc)

    it.on_return.append(on_return)
    it.on_raise.append(on_raise)
    it.run(f, args={"z0": z0, "z1": z1, "size": size})
    rep.floor("A.slicepad", 5, "(4 returning paths + raising paths of make_slice_and_pad)")
    if nraise[0] < 2:
        rep.error(f"make_slice_and_pad: {nraise[0]} raising path(s) found, 2 expected (no-overlap below and above)")


# --------------------------------------------------------------------------- clause 1 window algebra
def window_clause(model, rep, funcs):
    for anchor, safe in ((U_ + "prepare_affine", False), (U_ + "prepare_affine_cornersafe", True)):
        f = funcs.get(anchor)
        msp = funcs.get(U_ + "make_slice_and_pad")
        if f is None or msp is None:
            continue
        dom = _dom(model)
        it = Interp(model, dom, depth=2)
        c, s, order = dom.sym("center[i]"), dom.sym("output_shape[i]"), dom.sym("order")
        seen = {"msp": 0, "cm": 0}
        x0_seen: list = []

        def on_call(interp, fn, node, callee, args, kwargs, env, _f=f, _safe=safe):
            if fn is not _f or not isinstance(callee, FuncRef):
                return
            names = {g.name for g in callee.funcs}
            if names == {"make_slice_and_pad"} and len(args) >= 3:
                seen["msp"] += 1
                x0, x1, s0 = args[0], args[1], args[2]
                if not (isinstance(x0, A) and isinstance(x1, A)):
                    rep.ob("A", _f.anchor, "window bounds are symbolic forms", None, f"x0={x0!r} x1={x1!r}", node=node, fn=_f, clause="1 window")
                    return
                x0_seen.append(x0)
                rep.instance("A.window", _f.loc(node))
                length = dom.add(x1, dom.neg(x0))
                if not _safe:
                    want = dom.add(dom.add(s, dom.add(order, order)), mkA(1))
                    rep.ob("A", _f.anchor, "window length x1 - x0 == output_shape + 2*order + 1", length.equals(want),
                           f"x1 - x0 = {length!r}", node=node, fn=_f, clause="1 window")
                else:
                    # length >= diagonal + 2*order
                    diag = None
                    for a in length.num.atoms() | x1.num.atoms():
                        pass
                    ok = None
                    det = f"x1 - x0 = {length!r}"
                    if length.is_poly():
                        # find the inner argument of int(.) in x1: x0 + L + 2*order + 1
                        for a in x1.num.atoms():
                            if a[0] == "int" and isinstance(a[-1], A):
                                inner = a[-1]
                                L = dom.add(inner, dom.neg(dom.add(x0, dom.add(dom.add(order, order), mkA(1)))))
                                goal = (dom.add(length, dom.neg(dom.add(L, dom.add(order, order))))).poly()
                                ok = True if dom.prove_ge(goal, ()) else None
                                det += f"; diagonal term L = {L!r}"
                                has_sqrt = any(x[0] == "sqrt" or x[0] == "sym" for x in L.num.atoms())
                                if not has_sqrt:
                                    ok = None
                    rep.ob("A", _f.anchor, "corner-safe window length x1 - x0 >= box diagonal + 2*order", ok, det, node=node, fn=_f,
                           clause="1 window")
                # margins around the un-rotated box (only for the plain window; needs order >= 0)
                if not _safe:
                    half = dom.div(dom.add(s, mkA(-1)), mkA(2))
                    lower = dom.add(dom.add(dom.add(c, dom.neg(half)), dom.neg(x0)), dom.neg(dom.add(order, mkA(Fraction(-1, 2)))))
                    upper = dom.add(dom.add(dom.add(x1, mkA(-1)), dom.neg(dom.add(c, half))), dom.neg(dom.add(order, mkA(Fraction(-1, 2)))))
                    for nm, g in (("lower", lower), ("upper", upper)):
                        ok = dom.prove_ge(g.poly(), ()) if g.is_poly() else False
                        rep.ob("A", _f.anchor, f"{nm} margin: the window covers the un-rotated box plus order - 1/2 voxels", True if ok else False,
                               "" if ok else f"cannot prove {g!r} >= 0 (window start/stop does not leave the spline margin)", node=node, fn=_f,
                               clause="1 window")
                si = dom.sym("img.shape[i]")
                ok3 = isinstance(s0, A) and s0.equals(si)
                rep.ob("A", _f.anchor, "axis size handed to make_slice_and_pad is the tomogram's own size on that axis", ok3 if isinstance(s0, A) else None,
                       f"size argument = {s0!r}", node=node, fn=_f, clause="1 window")
            if names == {"compose_matrices"}:
                seen["cm"] += 1
                nc = args[0] if args else kwargs.get("center")
                oc = kwargs.get("output_center", args[2] if len(args) > 2 else None)
                e = interp.elem_of(nc, node) if nc is not None else TOP
                rep.instance("A.window", _f.loc(node))
                if isinstance(e, A) and x0_seen:
                    want = dom.add(c, dom.neg(x0_seen[-1]))
                    rep.ob("A", _f.anchor, "new_center == center - x0 (centre expressed in crop coordinates)", e.equals(want),
                           f"new_center = {e!r}; center - x0 = {want!r}", node=node, fn=_f, clause="1 window")
                else:
                    # not evaluable (e.g. joined over the clipping paths): decide the necessary condition that the centre does not depend on the *clipped* slice
                    verdict, det_ = None, f"new_center = {e!r}"
                    nc_node = node.args[0] if node.args else None
                    if isinstance(nc_node, ast.Name):
                        clipped = set()
                        for st in walk_no_nested(_f.node):
                            if isinstance(st, ast.Assign) and isinstance(st.value, ast.Call) and (dotted(st.value.func) or "").endswith("make_slice_and_pad"):
                                clipped |= {x.id for t in st.targets for x in ast.walk(t) if isinstance(x, ast.Name)}
                        for cc in calls_in(_f):
                            if isinstance(cc.func, ast.Attribute) and cc.func.attr == "append" and isinstance(cc.func.value, ast.Name) and cc.func.value.id == nc_node.id and cc.args:
                                used = {x.id for x in ast.walk(cc.args[0]) if isinstance(x, ast.Name)} & clipped
                                if used:
                                    verdict = False
                                    det_ = (f"`{norm_src(cc)}`: the centre is measured from {sorted(used)} (the slice clipped to the tomogram) instead of the unclipped window "
                                            "start x0; when the window crosses a low face the padded voxels are ignored and the whole sub-volume is shifted by the pad width")
                    rep.ob("A", _f.anchor, "new_center == center - x0", verdict, det_, node=node, fn=_f, clause="1 window")
                oca = dom.lift(oc) if oc is not None else None
                want_oc = dom.add(dom.div(s, mkA(2)), mkA(Fraction(-1, 2)))
                rep.ob("A", _f.anchor, "output_center == output_shape/2 - 1/2", (oca.equals(want_oc) if oca is not None else None),
                       f"output_center = {oca!r}", node=node, fn=_f, clause="1 window")
                rots = args[1] if len(args) > 1 else kwargs.get("rotators")
                okr = isinstance(rots, Tup) and len(rots.items) == 1 and isinstance(rots.items[0], RotSym) and rots.items[0].name == "R"
                rep.ob("A", _f.anchor, "the molecule's rotation is handed to compose_matrices unchanged", True if okr else (None if rots is None else False),
                       f"rotators = {rots!r}", node=node, fn=_f, clause="3 frames")

        it.on_call.append(on_call)
        it.run(f, args={"center": c, "output_shape": s, "order": order, "img": dom.sym("img"), "rot": RotSym("R")})
        if seen["msp"] < 1 or seen["cm"] < 1:
            rep.error(f"{anchor}: expected calls to make_slice_and_pad and compose_matrices were not evaluated ({seen})")


# --------------------------------------------------------------------------- compose_matrices structure
def compose_clause(model, rep, funcs):
    f = funcs.get(U_ + "compose_matrices")
    if f is None:
        return
    dom = _dom(model)
    it = Interp(model, dom, depth=1)
    cin = Tup([dom.sym("c0"), dom.sym("c1"), dom.sym("c2")])
    cout = Tup([dom.sym("o0"), dom.sym("o1"), dom.sym("o2")])
    out = it.run(f, args={"center": cin, "rotators": Tup([RotSym("R")]), "output_center": cout})
    m = interp_elem(it, out)
    rep.instance("A.compose", f.loc())
    if not isinstance(m, Mat) or len(m.rows) != 4:
        rep.ob("A", f.anchor, "compose_matrices returns symbolic 4x4 matrices", None, f"got {out!r}", node=f.node, fn=f, clause="3 frames",
               stmt="def compose_matrices")
        return
    R = dom.rot_matrix("R")
    ok = True
    det = []
    for i in range(3):
        for j in range(3):
            if not m.rows[i][j].equals(R.rows[i][j]):
                ok = False
                det.append(f"M[{i}][{j}] = {m.rows[i][j]!r}")
        want = cin.items[i]
        for j in range(3):
            want = dom.add(want, dom.neg(A(R.rows[i][j].num * cout.items[j].num)))
        if not m.rows[i][3].equals(want):
            ok = False
            det.append(f"M[{i}][3] = {m.rows[i][3]!r}, required {want!r}")
    for j in range(4):
        if not m.rows[3][j].equals(mkA(1 if j == 3 else 0)):
            ok = False
            det.append(f"M[3][{j}] = {m.rows[3][j]!r}")
    rep.ob("A", f.anchor, "compose_matrices builds T(+center) @ R @ T(-output_center): x_in = center + R (x_out - output_center)", ok,
           "; ".join(det[:4]), node=f.node, fn=f, clause="3 frames", stmt="def compose_matrices")
    # default: output_center None -> center
    it2 = Interp(model, dom, depth=1)
    out2 = it2.run(f, args={"center": cin, "rotators": Tup([RotSym("R")]), "output_center": Const(None)})
    m2 = interp_elem(it2, out2)
    ok2 = None
    if isinstance(m2, Mat):
        ok2 = True
        for i in range(3):
            want = cin.items[i]
            for j in range(3):
                want = dom.add(want, dom.neg(A(R.rows[i][j].num * cin.items[j].num)))
            if not m2.rows[i][3].equals(want):
                ok2 = False
    rep.ob("A", f.anchor, "with output_center=None the rotation is about `center`", ok2, "" if ok2 else f"{m2!r}", node=f.node, fn=f,
           clause="3 frames", stmt="def compose_matrices (default)")


def interp_elem(it, v):
    if isinstance(v, ListOf):
        return v.elem
    if isinstance(v, Tup) and v.items:
        return v.items[0]
    return v


# --------------------------------------------------------------------------- loader: frames, units, pairing, crop call
def loader_clause(model, rep, funcs):
    f = funcs.get("acryo/loader/_loader.py::SubtomogramLoader.construct_loading_tasks")
    if f is None:
        return
    # frames
    fdom = FramesDomain(model)
    it = Interp(model, fdom, depth=3)
    sinks = SinkTable()

    def on_call(interp, fn, node, callee, args, kwargs, env):
        if fn is not f:
            return
        if isinstance(callee, FuncRef) and {g.name for g in callee.funcs} <= {"prepare_affine", "prepare_affine_cornersafe"}:
            r = kwargs.get("rot", args[3] if len(args) > 3 else TOP)
            want = Rot("M", "W")
            ok = None if not isinstance(r, Rot) else r == want
            sinks.observe(fn, node, "rot", ok, f"rot handed to prepare_affine* is {r!r}, required {want!r} (the molecule's own rotation, not inverted)",
                          "crop matrix maps sub-volume (molecule) axes to tomogram axes")
        if isinstance(node.func, ast.Attribute) and node.func.attr == "add_task" and len(args) >= 2:
            m = args[1]
            want = Rot("M", "W")
            ok = None if not isinstance(m, AffT) else m.rot == want
            sinks.observe(fn, node, "mtx", ok, f"matrix handed to rotated_crop is {m!r}, required Aff[M->W]",
                          "matrix given to rotated_crop is Aff[I_out(sub-volume) -> I_in(crop)]")

    it.on_call.append(on_call)
    it.run(f)
    sinks.emit(rep, "F", clause="3 frames")
    for kind, fn, node, msg in fdom.events:
        rep.ob("F", fn.anchor, "frames agree", False, msg, node=node, fn=fn, clause="3 frames")

    # units
    udom = UnitsDomain(model)
    it = Interp(model, udom, depth=1)
    usinks = SinkTable()

    def on_call_u(interp, fn, node, callee, args, kwargs, env):
        if fn is not f:
            return
        if isinstance(callee, FuncRef) and {g.name for g in callee.funcs} <= {"prepare_affine", "prepare_affine_cornersafe"}:
            cv = kwargs.get("center", args[1] if len(args) > 1 else TOP)
            u = udom._lift(cv)
            ok = None if (u is None or cv is TOP) else u.fits(frozenset({PX}))
            usinks.observe(fn, node, "center", ok, f"center handed to prepare_affine* is {u!r}, pixels required (pos / scale)",
                           "crop centre is the molecule position in pixels")

    it.on_call.append(on_call_u)
    it.run(f)
    usinks.emit(rep, "U", clause="4 pairing")

    # pairing: same loop index for position, rotator; one task per iteration
    loops = [n for n in walk_no_nested(f.node) if isinstance(n, ast.For)]
    found = False
    MO0_ = Matcher(f)
    for lp in loops:
        prep = [c for c in ast.walk(lp) if isinstance(c, ast.Call) and kwarg(c, "rot") is not None and kwarg(c, "center") is not None]
        adds = [c for c in ast.walk(lp) if isinstance(c, ast.Call) and isinstance(c.func, ast.Attribute) and c.func.attr == "add_task"]
        if not adds:
            # the pool spelled out: `task = delayed(f)(...)` ... `tasks.append(da.from_delayed(task, ...))` - the append is the "add one task" step
            adds = [c for c in ast.walk(lp) if isinstance(c, ast.Call) and isinstance(c.func, ast.Attribute) and c.func.attr == "append" and c.args and
                    any(isinstance(x, ast.Call) and (dotted(x.func) or "").rsplit(".", 1)[-1] in ("from_delayed", "delayed") for x in ast.walk(MO0_.expr(c.args[0])))]
        if not prep:
            continue
        found = True
        rep.instance("O.pairing", f.loc(lp))
        tgt = lp.target.id if isinstance(lp.target, ast.Name) else None
        MO_ = Matcher(f)
        it_x = MO_.expr(lp.iter)  # `molecules = self.molecules; for i in range(molecules.count())`
        it_ok = isinstance(it_x, ast.Call) and dotted(it_x.func) == "range" and len(it_x.args) == 1 and "molecules" in norm_src(it_x.args[0]) and ("count" in norm_src(it_x.args[0]) or "len" in norm_src(it_x.args[0]))
        rep.ob("O", f.anchor, "one iteration per molecule: loop ranges over the molecule count", it_ok, f"iterates over {norm_src(lp.iter)}",
               node=lp.iter, fn=f, clause="4 pairing")
        for c in prep:
            for slot in ("center", "rot"):
                e = MO_.expr(kwarg(c, slot), keep=((tgt,) if tgt else ()))  # `centers = molecules.pos / scale` ... `centers[i]`: same row of the same table
                idx = [n for n in ast.walk(e) if isinstance(n, ast.Subscript)]
                names = {norm_src(s.slice) for s in idx}
                base_ok = "molecules" in norm_src(e)
                ok = names == {tgt} and base_ok
                rep.ob("O", f.anchor, f"`{slot}` of the crop is taken from this loader's molecules at the loop index", ok,
                       f"{slot} = {norm_src(e)} (loop variable {tgt})", node=e, fn=f, clause="4 pairing")
        # add_task exactly once per iteration, not nested in a further loop/if
        direct = []
        for st in lp.body:
            for x in ast.walk(st):
                if x in adds:
                    direct.append((st, x))
        nested_bad = [x for st, x in direct if isinstance(st, (ast.For, ast.While, ast.If))]
        ok = len(adds) == 1 and not nested_bad
        rep.ob("O", f.anchor, "exactly one task is added per molecule, unconditionally", ok, f"{len(adds)} add_task call(s) in the loop",
               node=lp, fn=f, clause="4 pairing", stmt="for-loop add_task count")
        # order / shape agreement between prep and crop (the crop call is the add_task call, or - with the pool spelled out - the delayed call that carries
        # `order=` and `shape=`)
        crops = adds if all(kwarg(a, "order") is not None or kwarg(a, "shape") is not None for a in adds) else \
            [c for c in ast.walk(lp) if isinstance(c, ast.Call) and c not in prep and kwarg(c, "order") is not None and kwarg(c, "shape") is not None]
        for c in prep:
            for a in crops:
                o1, o2 = kwarg(c, "order"), kwarg(a, "order")
                ok = o1 is not None and o2 is not None and norm_src(o1) == norm_src(o2)
                rep.ob("SLOT", f.anchor, "window margin and interpolation use the same spline order", ok,
                       f"prepare order={norm_src(o1) if o1 is not None else None}, crop order={norm_src(o2) if o2 is not None else None}", node=a, fn=f,
                       clause="5 crop call")
                s1, s2 = kwarg(c, "output_shape"), kwarg(a, "shape")
                ok = s1 is not None and s2 is not None and norm_src(s1) == norm_src(s2)
                rep.ob("SLOT", f.anchor, "window and crop use the same output shape", ok,
                       f"prepare output_shape={norm_src(s1) if s1 is not None else None}, crop shape={norm_src(s2) if s2 is not None else None}", node=a, fn=f,
                       clause="5 crop call", stmt=norm_src(a) + " #shape")
    if not found:
        rep.error("construct_loading_tasks: per-molecule loop with a prepare_affine call (center=, rot=) not found")


def crop_call_clause(model, rep, funcs):
    f = funcs.get("acryo/backend/_api.py::Backend.rotated_crop")
    if f is None:
        return
    calls = [c for c in calls_in(f) if isinstance(c.func, ast.Attribute) and c.func.attr == "affine_transform"]
    if not calls:
        rep.error("Backend.rotated_crop no longer calls affine_transform")
        return
    dom = _dom(model)
    params = f.param_names()
    for c in calls:
        rep.instance("SLOT", f.loc(c))

        def src(e):
            return norm_src(e) if e is not None else None

        os_ = kwarg(c, "output_shape")
        rep.ob("SLOT", f.anchor, "output_shape forwarded", os_ is not None and src(os_) == "shape", f"output_shape={src(os_)}", node=c, fn=f,
               clause="5 crop call", stmt=src(c) + " #output_shape")
        od = kwarg(c, "order")
        rep.ob("SLOT", f.anchor, "order forwarded", od is not None and src(od) == "order", f"order={src(od)}", node=c, fn=f, clause="5 crop call",
               stmt=src(c) + " #order")
        md = kwarg(c, "mode")
        rep.ob("SLOT", f.anchor, "mode is 'constant' (out-of-window samples become the finite fill value)",
               md is not None and isinstance(md, ast.Constant) and md.value == "constant", f"mode={src(md)}", node=c, fn=f, clause="5 crop call",
               stmt=src(c) + " #mode")
        pf = kwarg(c, "prefilter")
        ok = None
        if pf is not None:
            it = Interp(model, dom, depth=0)
            v = it.eval(pf, {"order": dom.sym("order")}, f)
            if isinstance(v, BoolC) and v.diff.is_poly():
                p = v.diff.poly()
                o = Poly.atom(("sym", "order"))
                ok = (v.op == ">" and p == o - Poly.const(1)) or (v.op == ">=" and p == o - Poly.const(2)) or \
                     (v.op == "<" and p == Poly.const(1) - o) or (v.op == "<=" and p == Poly.const(2) - o)
            elif isinstance(v, Const):
                ok = False
        rep.ob("SLOT", f.anchor, "prefilter is enabled exactly for spline orders above 1", ok, f"prefilter={src(pf)}", node=c, fn=f,
               clause="5 crop call", stmt=src(c) + " #prefilter")
        mt = kwarg(c, "matrix") or (c.args[1] if len(c.args) > 1 else None)
        rep.ob("SLOT", f.anchor, "the matrix argument is the mtx parameter", mt is not None and "mtx" in {n.id for n in ast.walk(mt) if isinstance(n, ast.Name)},
               f"matrix={src(mt)}", node=c, fn=f, clause="5 crop call", stmt=src(c) + " #matrix")
        a0 = c.args[0] if c.args else None
        rep.ob("SLOT", f.anchor, "the image argument is the sub-image", a0 is not None and src(a0) == "subimg", f"image={src(a0)}", node=c, fn=f,
               clause="5 crop call", stmt=src(c) + " #image")


# --------------------------------------------------------------------------- clause 6 who may catch
ALLOWED_SWALLOW = {"acryo/simulator.py::_prep_slices"}


def catch_clause(model, rep, funcs):
    n = 0
    for fn in model.all_functions:
        for node in walk_no_nested(fn.node):
            if not isinstance(node, ast.Try):
                continue
            body_calls = [c for st in node.body for c in ast.walk(st) if isinstance(c, ast.Call)]
            reaches = False
            for c in body_calls:
                nm = c.func.attr if isinstance(c.func, ast.Attribute) else (c.func.id if isinstance(c.func, ast.Name) else "")
                if nm in ("make_slice_and_pad", "prepare_affine", "prepare_affine_cornersafe", "_prep", "construct_loading_tasks", "rotated_crop"):
                    reaches = True
            for h in node.handlers:
                t = norm_src(h.type) if h.type is not None else "<bare>"
                names_err = "SubvolumeOutOfBoundError" in t
                broad = t in ("<bare>", "Exception", "ValueError", "BaseException") and reaches
                if not (names_err or broad):
                    continue
                n += 1
                rep.instance("CATCH", fn.loc(h))
                reraises = any(isinstance(x, ast.Raise) for st in h.body for x in ast.walk(st))
                ok = reraises or fn.anchor in ALLOWED_SWALLOW
                rep.ob("CATCH", fn.anchor, "SubvolumeOutOfBoundError is only re-raised with context (or ignored by the simulator's clipping)", ok,
                       f"handler `except {t}` swallows the out-of-bound error", node=h, fn=fn, clause="6 error discipline",
                       stmt=f"except {t}: " + "; ".join(norm_src(s) for s in h.body)[:120])
    rep.floor("CATCH", 2, "(loader re-raise + simulator clipping)")


def selection_clause(model, rep, funcs):
    """corner_safe=True selects the diagonal-sized window (prepare_affine_cornersafe), False the tight one."""
    from ..match import Matcher
    try:
        f = model.func("acryo/loader/_loader.py::SubtomogramLoader.construct_loading_tasks")
    except Exception:
        return
    M = Matcher(f)
    rep.instance("SLOT.crop", f.loc())
    good = ["if self.corner_safe:\n    $p = _utils.prepare_affine_cornersafe\nelse:\n    $p = _utils.prepare_affine",
            "$p = _utils.prepare_affine_cornersafe if self.corner_safe else _utils.prepare_affine",
            "$p = _utils.prepare_affine if not self.corner_safe else _utils.prepare_affine_cornersafe"]
    bad = ["if self.corner_safe:\n    $p = _utils.prepare_affine\nelse:\n    $p = _utils.prepare_affine_cornersafe",
           "$p = _utils.prepare_affine if self.corner_safe else _utils.prepare_affine_cornersafe"]
    ok = True if any(M.has(g) for g in good) else (False if any(M.has(b) for b in bad) else None)
    b: dict = {}
    used = any(M.has(g, b) for g in good) and M.has("$p($$img, ...)", b) if ok else None
    rep.ob("SLOT", f.anchor, "corner_safe=True crops the window that contains the rotated box's corners (prepare_affine_cornersafe), False the tight window", ok,
           "" if ok else "the two crop-preparation functions are selected by the opposite value of corner_safe (or the selection was not recognised)", node=f.node, fn=f,
           clause="5 slots", stmt="corner_safe selection")


def diagonal_clause(model, rep, funcs):
    """corner_safe: the crop window is sized by the diagonal of the *whole* box on every tomogram axis (a rotated box can put its longest extent on any axis)."""
    from ..match import Matcher
    f = funcs.get(U_ + "prepare_affine_cornersafe")
    if f is None:
        return
    M = Matcher(f)
    pats = ["np.sqrt(np.sum(np.asarray(output_shape, ...) ** 2))", "np.sqrt(np.sum(np.array(output_shape, ...) ** 2))", "np.linalg.norm(output_shape)",
            "np.linalg.norm(np.asarray(output_shape, ...))", "np.sqrt(sum(($s ** 2 for $s in output_shape)))", "math.sqrt(sum(($s ** 2 for $s in output_shape)))",
            "np.sqrt(np.sum(np.square(output_shape)))", "np.hypot(*output_shape)"]
    hits = []
    for p in pats:
        hits += M.find(p)
    rep.instance("A.diagonal", f.loc())
    ok = bool(hits)
    det = ""
    if ok:
        # the diagonal is what sizes the window: it flows into x0 / x1 of make_slice_and_pad
        calls = [c for c in calls_in(f) if (dotted(c.func) or "").endswith("make_slice_and_pad")]
        ok = bool(calls)
        for c in calls:
            exs = [norm_src(M.expr(a)) for a in c.args[:2]]
            if not all(any(norm_src(M.expr(h if isinstance(h, ast.AST) else h[0])) in e for h in hits) or "sqrt" in e or "norm" in e or "hypot" in e for e in exs):
                ok = False
                det = f"window bounds `{exs[0][:60]}` / `{exs[1][:60]}` are not computed from the box diagonal"
    else:
        det = "no expression in the function is the Euclidean norm of the whole output_shape: a per-axis length under-sizes the window of non-cubic boxes under rotation"
    rep.ob("A", f.anchor, "the corner-safe window is sized by the diagonal sqrt(sum(output_shape**2)) of the whole box on every axis", ok, det, node=f.node, fn=f,
           clause="1 window", stmt="def prepare_affine_cornersafe diagonal")


def check(model, rep, tier):
    rep.decided += ["C02.1 window algebra of prepare_affine/prepare_affine_cornersafe and padding identity of make_slice_and_pad",
                    "C02.2 raise-guards are the exact complement of 'window overlaps the axis' (no empty slice, no spurious error)",
                    "C02.3 compose_matrices = T(+c) R T(-oc); loader passes the molecule rotation M->W",
                    "C02.4 position/rotation/task pairing by loop index; centre in pixels", "C02.5 crop-call slots", "C02.6 who may catch the out-of-bound error"]
    rep.not_decided += ["interpolated voxel values", "sufficiency of the order+1 margin for scipy's spline support under rotation",
                        "inscribed-ball coverage without corner_safe"]
    rep.assumptions += ["preconditions: axis size >= 1, z0 < z1, order >= 0 (check_input restricts order to {0,1,3})"]
    funcs = need_funcs(model, rep, ANCHORS)
    slice_pad_clause(model, rep, funcs)
    window_clause(model, rep, funcs)
    compose_clause(model, rep, funcs)
    loader_clause(model, rep, funcs)
    crop_call_clause(model, rep, funcs)
    catch_clause(model, rep, funcs)
    selection_clause(model, rep, funcs)
    diagonal_clause(model, rep, funcs)
    from .C03 import batch_task_order_obligation
    batch_task_order_obligation(model, rep, "i-th subtomogram / i-th molecule")
    from .common import dask_key_obligations
    dask_key_obligations(model, rep, "i-th subtomogram / i-th molecule")
    rep.floor("KEY.site", 8, "(from_array / from_delayed / delayed / map_blocks call sites)")
    from .generic import close_then_truncate_obligations, functions_in as _fi
    rep.stats["close_then_truncate_sites"] = close_then_truncate_obligations(
        model, rep, _fi(model, ["acryo/backend/_api.py", "acryo/_utils.py", "acryo/loader/_loader.py", "acryo/simulator.py"]), "1 window")
    from .generic import rebuild_ctor_obligations, functions_in
    rebuild_ctor_obligations(model, rep, functions_in(model, ["acryo/loader/_batch.py", "acryo/loader/_loader.py", "acryo/loader/_base.py", "acryo/loader/_group.py",
                                                              "acryo/loader/_mock.py"]), "4 pairing")
    rep.floor("CTOR", 2, "(LoaderAccessor rebuilds per-tomogram loaders from the batch loader)")
