"""E1 - statement-level control-flow graph and classical dataflow on it.

Nodes are ``CNode`` objects wrapping either a simple statement or the *test* of a
compound statement (If / While / For header / With header / except handler).  Edges
carry an optional label ('T', 'F', 'exc', 'loop').  ENTRY, EXIT (normal return /
fall-through) and RAISE (exceptional exit) are synthetic nodes.
"""
from __future__ import annotations

import ast
from dataclasses import dataclass, field
from typing import Callable, Iterable

from .repo import walk_no_nested


@dataclass(eq=False)
class CNode:
    kind: str  # entry | exit | raise | stmt | test | for | with | handler
    node: ast.AST | None = None
    succ: list = field(default_factory=list)  # list[(CNode, label)]
    pred: list = field(default_factory=list)
    idx: int = 0

    @property
    def lineno(self) -> int:
        return getattr(self.node, "lineno", 0)

    def __repr__(self):
        if self.node is None:
            return f"<{self.kind}>"
        try:
            s = ast.unparse(self.node if self.kind == "stmt" else getattr(self.node, "test", self.node))
        except Exception:
            s = type(self.node).__name__
        return f"<{self.kind}@{self.lineno} {s[:50]}>"


class CFG:
    def __init__(self, func: ast.FunctionDef):
        self.func = func
        self.nodes: list[CNode] = []
        self.entry = self._new("entry")
        self.exit = self._new("exit")
        self.raise_ = self._new("raise")
        self._loops: list[tuple[CNode, list]] = []  # (header, break-sources)
        self._handlers: list[list[CNode]] = []
        outs = self._block(func.body, [(self.entry, None)])
        for n, lab in outs:
            self._edge(n, self.exit, lab)
        self.by_stmt = {id(n.node): n for n in self.nodes if n.node is not None}

    def _new(self, kind, node=None) -> CNode:
        n = CNode(kind, node, idx=len(self.nodes))
        self.nodes.append(n)
        return n

    def _edge(self, a: CNode, b: CNode, label=None):
        a.succ.append((b, label))
        b.pred.append((a, label))

    def _link(self, preds, n: CNode):
        for p, lab in preds:
            self._edge(p, n, lab)

    def _block(self, stmts, preds):
        for st in stmts:
            if not preds:
                break  # unreachable code
            preds = self._stmt(st, preds)
        return preds

    def _may_raise_to_handlers(self, n: CNode):
        if self._handlers:
            for h in self._handlers[-1]:
                self._edge(n, h, "exc")

    def _stmt(self, st, preds):
        if isinstance(st, ast.If):
            t = self._new("test", st)
            self._link(preds, t)
            self._may_raise_to_handlers(t)
            a = self._block(st.body, [(t, "T")])
            b = self._block(st.orelse, [(t, "F")]) if st.orelse else [(t, "F")]
            return a + b
        if isinstance(st, (ast.For, ast.AsyncFor)):
            h = self._new("for", st)
            self._link(preds, h)
            self._may_raise_to_handlers(h)
            brk: list = []
            self._loops.append((h, brk))
            body_out = self._block(st.body, [(h, "T")])
            self._loops.pop()
            for n, lab in body_out:
                self._edge(n, h, "loop")
            outs = self._block(st.orelse, [(h, "F")]) if st.orelse else [(h, "F")]
            return outs + brk
        if isinstance(st, ast.While):
            h = self._new("test", st)
            self._link(preds, h)
            self._may_raise_to_handlers(h)
            brk = []
            self._loops.append((h, brk))
            body_out = self._block(st.body, [(h, "T")])
            self._loops.pop()
            for n, lab in body_out:
                self._edge(n, h, "loop")
            always = isinstance(st.test, ast.Constant) and bool(st.test.value)
            outs = [] if always else (self._block(st.orelse, [(h, "F")]) if st.orelse else [(h, "F")])
            return outs + brk
        if isinstance(st, (ast.With, ast.AsyncWith)):
            h = self._new("with", st)
            self._link(preds, h)
            self._may_raise_to_handlers(h)
            return self._block(st.body, [(h, None)])
        if isinstance(st, ast.Try):
            hs = [self._new("handler", h) for h in st.handlers]
            self._handlers.append(hs)
            body_out = self._block(st.body, preds)
            self._handlers.pop()
            if st.orelse:
                body_out = self._block(st.orelse, body_out)
            outs = list(body_out)
            for hn, h in zip(hs, st.handlers):
                outs += self._block(h.body, [(hn, None)])
            if st.finalbody:
                outs = self._block(st.finalbody, outs)
            return outs
        n = self._new("stmt", st)
        self._link(preds, n)
        if isinstance(st, ast.Return):
            self._edge(n, self.exit, "return")
            return []
        if isinstance(st, ast.Raise):
            if self._handlers:
                for h in self._handlers[-1]:
                    self._edge(n, h, "exc")
            else:
                self._edge(n, self.raise_, "raise")
            return []
        if isinstance(st, ast.Break):
            if self._loops:
                self._loops[-1][1].append((n, "break"))
            return []
        if isinstance(st, ast.Continue):
            if self._loops:
                self._edge(n, self._loops[-1][0], "loop")
            return []
        self._may_raise_to_handlers(n)
        return [(n, None)]

    # ------------------------------------------------------------- queries
    def node_of(self, st: ast.AST) -> CNode | None:
        return self.by_stmt.get(id(st))

    def reachable_from(self, start: CNode, blocked: Callable[[CNode], bool] | None = None,
                       edge_ok: Callable[[CNode, CNode, str | None], bool] | None = None) -> set[CNode]:
        seen = {start}
        stack = [start]
        while stack:
            n = stack.pop()
            for s, lab in n.succ:
                if s in seen:
                    continue
                if edge_ok is not None and not edge_ok(n, s, lab):
                    continue
                if blocked is not None and blocked(s):
                    continue
                seen.add(s)
                stack.append(s)
        return seen

    def must_pass_through(self, target: CNode, pred: Callable[[CNode], bool],
                          edge_ok=None) -> bool:
        """Does every path entry -> target contain a node satisfying ``pred``
        (target itself excluded)?"""
        if pred(self.entry):
            return True
        reach = self.reachable_from(self.entry, blocked=lambda n: n is not target and pred(n), edge_ok=edge_ok)
        return target not in reach

    def enumerate_paths(self, limit: int = 256) -> list[list[tuple[CNode, str | None]]] | None:
        """All acyclic entry->exit/raise paths (loop back-edges taken at most once).  None if > limit."""
        out: list = []

        def rec(n: CNode, path, visited_back):
            if len(out) > limit:
                return
            if n is self.exit or n is self.raise_:
                out.append(path + [(n, None)])
                return
            for s, lab in n.succ:
                if lab == "loop":
                    key = (n.idx, s.idx)
                    if key in visited_back:
                        continue
                    rec(s, path + [(n, lab)], visited_back | {key})
                else:
                    if sum(1 for p, _ in path if p is s) >= 2:
                        continue
                    rec(s, path + [(n, lab)], visited_back)

        rec(self.entry, [], frozenset())
        if len(out) > limit:
            return None
        return out


# --------------------------------------------------------------------------- defs / uses
def stmt_defs(n: CNode) -> set[str]:
    """Local names (re)bound by this CFG node (not descending into compound bodies)."""
    node = n.node
    out: set[str] = set()
    if node is None:
        return out
    if n.kind == "stmt":
        targets: list[ast.AST] = []
        if isinstance(node, ast.Assign):
            targets = list(node.targets)
        elif isinstance(node, (ast.AugAssign, ast.AnnAssign)):
            if not (isinstance(node, ast.AnnAssign) and node.value is None):
                targets = [node.target]
        elif isinstance(node, (ast.FunctionDef, ast.ClassDef)):
            out.add(node.name)
        elif isinstance(node, (ast.Import, ast.ImportFrom)):
            for a in node.names:
                out.add((a.asname or a.name).split(".")[0])
        for t in targets:
            for x in ast.walk(t):
                if isinstance(x, ast.Name) and isinstance(x.ctx, ast.Store):
                    out.add(x.id)
        for x in _walk_expr_parts(node):
            if isinstance(x, ast.NamedExpr):
                out.add(x.target.id)
    elif n.kind == "for":
        for x in ast.walk(node.target):
            if isinstance(x, ast.Name):
                out.add(x.id)
    elif n.kind == "with":
        for item in node.items:
            if item.optional_vars is not None:
                for x in ast.walk(item.optional_vars):
                    if isinstance(x, ast.Name):
                        out.add(x.id)
    elif n.kind == "handler":
        if node.name:
            out.add(node.name)
    elif n.kind == "test":
        for x in ast.walk(node.test):
            if isinstance(x, ast.NamedExpr):
                out.add(x.target.id)
    return out


def _walk_expr_parts(node):
    if isinstance(node, (ast.FunctionDef, ast.ClassDef)):
        return []
    return ast.walk(node)


def stmt_uses(n: CNode) -> set[str]:
    node = n.node
    out: set[str] = set()
    if node is None:
        return out
    parts: list[ast.AST] = []
    if n.kind == "stmt":
        if isinstance(node, (ast.FunctionDef, ast.ClassDef)):
            # free variables of nested defs count as uses
            for x in ast.walk(node):
                if isinstance(x, ast.Name) and isinstance(x.ctx, ast.Load):
                    out.add(x.id)
            return out
        parts = [node]
    elif n.kind == "test":
        parts = [node.test]
    elif n.kind == "for":
        parts = [node.iter]
    elif n.kind == "with":
        parts = [i.context_expr for i in node.items]
    elif n.kind == "handler":
        parts = [node.type] if node.type is not None else []
    for p in parts:
        for x in ast.walk(p):
            if isinstance(x, ast.Name) and isinstance(x.ctx, ast.Load):
                out.add(x.id)
            elif isinstance(x, ast.AugAssign) and isinstance(x.target, ast.Name):
                out.add(x.target.id)
    return out


def reaching_definitions(cfg: CFG) -> dict[CNode, dict[str, set[CNode]]]:
    """IN sets: for each node, which definition nodes of each name may reach it."""
    IN: dict[CNode, dict[str, set[CNode]]] = {n: {} for n in cfg.nodes}
    OUT: dict[CNode, dict[str, set[CNode]]] = {n: {} for n in cfg.nodes}
    # parameters are defined at entry
    params = set()
    a = cfg.func.args
    for p in list(a.posonlyargs) + list(a.args) + list(a.kwonlyargs):
        params.add(p.arg)
    if a.vararg:
        params.add(a.vararg.arg)
    if a.kwarg:
        params.add(a.kwarg.arg)
    OUT[cfg.entry] = {p: {cfg.entry} for p in params}
    work = list(cfg.nodes)
    defs = {n: stmt_defs(n) for n in cfg.nodes}
    while work:
        n = work.pop(0)
        if n is cfg.entry:
            new_in = {}
        else:
            new_in: dict[str, set[CNode]] = {}
            for p, _ in n.pred:
                for k, v in OUT[p].items():
                    new_in.setdefault(k, set()).update(v)
        IN[n] = new_in
        if n is cfg.entry:
            continue
        new_out = {k: set(v) for k, v in new_in.items()}
        for d in defs[n]:
            new_out[d] = {n}
        if new_out != OUT[n]:
            OUT[n] = new_out
            for s, _ in n.succ:
                if s not in work:
                    work.append(s)
    return IN


def dead_definitions(cfg: CFG) -> list[tuple[CNode, str]]:
    """Definitions that reach no use (on any path)."""
    IN = reaching_definitions(cfg)
    used: set[tuple[int, str]] = set()
    for n in cfg.nodes:
        for name in stmt_uses(n):
            for d in IN[n].get(name, ()):
                used.add((d.idx, name))
    out = []
    for n in cfg.nodes:
        if n.kind == "entry":
            continue
        for name in stmt_defs(n):
            if (n.idx, name) not in used:
                out.append((n, name))
    return out


def backward_slice_names(func: ast.FunctionDef, expr: ast.AST, at: ast.stmt | None = None) -> set[str]:
    """Names (parameters and locals) that may influence ``expr`` through local assignments
    (flow-insensitive closure over def-use; an over-approximation of the backward slice)."""
    assigns: dict[str, list[ast.AST]] = {}
    for n in walk_no_nested(func):
        if isinstance(n, ast.Assign):
            for t in n.targets:
                for x in ast.walk(t):
                    if isinstance(x, ast.Name) and isinstance(x.ctx, ast.Store):
                        assigns.setdefault(x.id, []).append(n.value)
        elif isinstance(n, ast.AnnAssign) and n.value is not None and isinstance(n.target, ast.Name):
            assigns.setdefault(n.target.id, []).append(n.value)
        elif isinstance(n, ast.AugAssign) and isinstance(n.target, ast.Name):
            assigns.setdefault(n.target.id, []).append(n.value)
        elif isinstance(n, ast.NamedExpr):
            assigns.setdefault(n.target.id, []).append(n.value)
        elif isinstance(n, (ast.For, ast.comprehension)):
            for x in ast.walk(n.target):
                if isinstance(x, ast.Name):
                    assigns.setdefault(x.id, []).append(n.iter)
    seen: set[str] = set()
    work = [x.id for x in ast.walk(expr) if isinstance(x, ast.Name)]
    while work:
        nm = work.pop()
        if nm in seen:
            continue
        seen.add(nm)
        for v in assigns.get(nm, []):
            for x in ast.walk(v):
                if isinstance(x, ast.Name) and x.id not in seen:
                    work.append(x.id)
    return seen
