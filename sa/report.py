"""Findings, obligations, known-findings matching, evidence and replay files."""
from __future__ import annotations

import ast
import hashlib
import json
import os
import time
from dataclasses import dataclass, field

from .repo import FuncInfo, norm_src

VERIF = os.path.dirname(os.path.dirname(os.path.abspath(__file__)))
KNOWN_FILE = os.path.join(VERIF, "known_findings.jsonl")


@dataclass
class Obligation:
    rule: str
    where: str  # construct (anchor notation)
    desc: str
    status: str  # discharged | refuted | undecided
    detail: str = ""
    loc: str = ""
    stmt: str = ""
    clause: str = ""

    def key(self, prop: str) -> str:
        h = hashlib.sha1("|".join([prop, self.rule, self.where, self.stmt]).encode()).hexdigest()
        return h[:16]


class Report:
    def __init__(self, prop: str, tier: str):
        self.prop = prop
        self.tier = tier
        self.obligations: list[Obligation] = []
        self.instances: dict[str, list[str]] = {}  # rule -> instances seen (for floors)
        self.notes: list[str] = []
        self.errors: list[str] = []  # analysis errors (exit 2)
        self.decided: list[str] = []
        self.not_decided: list[str] = []
        self.assumptions: list[str] = []
        self.stats: dict = {}
        self.selftest: dict | None = None
        self.t0 = time.time()

    # -- recording
    def ob(self, rule: str, where: str, desc: str, ok, detail: str = "", node: ast.AST | None = None,
           fn: FuncInfo | None = None, clause: str = "", stmt: str | None = None) -> bool | None:
        """ok: True (discharged) / False (refuted) / None (undecided)."""
        status = "discharged" if ok is True else ("refuted" if ok is False else "undecided")
        loc = ""
        if fn is not None:
            loc = fn.loc(node)
        s = stmt if stmt is not None else (norm_src(node) if node is not None else "")
        if len(s) > 400:
            s = s[:400]
        self.obligations.append(Obligation(rule, where, desc, status, detail, loc, s, clause))
        return ok

    def instance(self, rule: str, what: str):
        self.instances.setdefault(rule, []).append(what)

    def floor(self, rule: str, minimum: int, what: str = ""):
        n = len(self.instances.get(rule, []))
        if n < minimum:
            self.errors.append(f"rule {rule}: matched {n} instance(s), hand-confirmed floor is {minimum} {what}".strip())

    def error(self, msg: str):
        self.errors.append(msg)

    def note(self, msg: str):
        self.notes.append(msg)

    # -- summary
    def refuted(self) -> list[Obligation]:
        return [o for o in self.obligations if o.status == "refuted"]

    def undecided(self) -> list[Obligation]:
        return [o for o in self.obligations if o.status == "undecided"]

    def new_refuted(self) -> list[Obligation]:
        """Refuted obligations that are not listed as known findings (what makes the check exit 1)."""
        known = {k["key"] for k in load_known() if k.get("status") == "known" and k.get("property") == self.prop}
        return [o for o in self.refuted() if o.key(self.prop) not in known]


def load_known() -> list[dict]:
    out = []
    if os.path.exists(KNOWN_FILE):
        with open(KNOWN_FILE) as f:
            for line in f:
                line = line.strip()
                if line and not line.startswith("#"):
                    out.append(json.loads(line))
    return out


def finalize(rep: Report, seed: int = 0, replay_key: str | None = None) -> int:
    """Print the verdict, write evidence and replay files, return the exit code."""
    prop = rep.prop
    known = {k["key"]: k for k in load_known() if k.get("status") == "known" and k.get("property") == prop}
    refuted = rep.refuted()
    und = rep.undecided()
    violations: list[Obligation] = []
    known_hit: list[tuple[Obligation, dict]] = []
    seen_keys = set()
    for o in refuted:
        k = o.key(prop)
        if k in seen_keys:
            continue
        seen_keys.add(k)
        if k in known:
            known_hit.append((o, known[k]))
        else:
            violations.append(o)

    lines = []
    lines.append(f"[{prop}] tier={rep.tier} obligations={len(rep.obligations)} "
                 f"discharged={sum(o.status == 'discharged' for o in rep.obligations)} "
                 f"refuted={len(refuted)} undecided={len(und)}")
    for r, inst in sorted(rep.instances.items()):
        lines.append(f"  rule {r}: {len(inst)} instance(s)")
    for n in rep.notes:
        lines.append(f"  note: {n}")
    for o, k in known_hit:
        lines.append(f"KNOWN-FINDING: property={prop} {k.get('what', o.desc)} [{o.rule} {o.where} key={o.key(prop)}]")
    replay_dir = os.path.join(VERIF, "replays", prop)
    for o in violations:
        os.makedirs(replay_dir, exist_ok=True)
        path = os.path.join(replay_dir, o.key(prop) + ".json")
        with open(path, "w") as f:
            json.dump({"property": prop, "key": o.key(prop), "rule": o.rule, "construct": o.where, "loc": o.loc,
                       "statement": o.stmt, "obligation": o.desc, "detail": o.detail, "clause": o.clause,
                       "replay": f"/venv/bin/python /verif/check.py {prop} --replay {path}"}, f, indent=1)
        lines.append(f"  refuted {o.rule} at {o.loc} {o.where}: {o.desc} -- {o.detail}")
        lines.append(f"    statement: {o.stmt}")
        lines.append(f"VIOLATION property={prop} replay={path}")
    for o in und:
        lines.append(f"ANALYSIS-ERROR property={prop} undecided obligation {o.rule} at {o.loc} {o.where}: {o.desc} -- {o.detail}")
    for e in rep.errors:
        lines.append(f"ANALYSIS-ERROR property={prop} {e}")

    if violations:
        code = 1
    elif und or rep.errors:
        code = 2
    else:
        code = 0
    verdict = {0: "HOLDS" if not known_hit else "HOLDS (with known findings)", 1: "VIOLATION", 2: "ANALYSIS-ERROR"}[code]
    lines.append(f"[{prop}] verdict: {verdict}")
    print("\n".join(lines))

    write_evidence(rep, seed, len(violations), known_hit)
    return code


def write_evidence(rep: Report, seed: int, nviol: int, known_hit) -> None:
    obs = rep.obligations
    distinct = {(o.rule, o.where, o.stmt, o.desc) for o in obs}
    samples = []
    for o in obs[:6] + [o for o in obs if o.status != "discharged"][:6]:
        d = {"rule": o.rule, "construct": o.where, "loc": o.loc, "obligation": o.desc, "status": o.status}
        if o.detail:
            d["detail"] = o.detail[:300]
        if o.stmt:
            d["statement"] = o.stmt[:200]
        if d not in samples:
            samples.append(d)
    cov = {
        "explanation": ("Static analysis of /repo/acryo source (ast; nothing executed). " + rep.stats.get("explanation", "")
                        + " Decided clauses: " + "; ".join(rep.decided)
                        + " | NOT decided (numerical / outside this technique): " + "; ".join(rep.not_decided)),
        "obligations": len(obs),
        "discharged": sum(o.status == "discharged" for o in obs),
        "refuted": sum(o.status == "refuted" for o in obs),
        "undecided": sum(o.status == "undecided" for o in obs),
        "evaluations": max(1, len(obs)),
        "distinct_nontrivial": len(distinct),
        "rule": "one evaluation = one obligation (rule instance at a named construct) evaluated on the current source; "
                "distinct = distinct (rule, construct, statement, obligation) tuples; trivially-true instances are not recorded",
        "samples": samples or [{"note": "no obligations"}],
        "rule_instances": {r: {"count": len(v), "sites": v[:12]} for r, v in sorted(rep.instances.items())},
        "known_findings_matched": [{"key": o.key(rep.prop), "what": k.get("what")} for o, k in known_hit],
        "analysis_errors": rep.errors[:20],
        "checker_cmd": f"/venv/bin/python /verif/check.py {rep.prop} --tier {rep.tier}",
        "trusted_base": ["python ast parser", "seed tables of the abstract domains (DESIGN.md Appendix B)",
                         "transfer tables for numpy/scipy/dask callees (sa/domains/*)"],
        "exhaustive": False,
    }
    cov.update({k: v for k, v in rep.stats.items() if k != "explanation"})
    if rep.selftest is not None:
        cov["selftest"] = rep.selftest
    ev = {
        "property_id": rep.prop,
        "tier": rep.tier,
        "seed": seed,
        "level": "other",
        "coverage": cov,
        "assumptions": rep.assumptions,
        "wall_s": round(time.time() - rep.t0, 3),
        "violations": nviol,
    }
    os.makedirs(os.path.join(VERIF, "evidence"), exist_ok=True)
    path = os.path.join(VERIF, "evidence", f"{rep.prop}.json")
    tmp = path + ".tmp"
    with open(tmp, "w") as f:
        json.dump(ev, f, indent=1, default=str)
    os.replace(tmp, path)
