"""Structural AST patterns, matched modulo local-variable names and modulo introduced temporaries.

A pattern is Python source with metavariables:

    $x      a local variable (a Name); every occurrence of $x must be the same variable.  In *expanded* matching it may
            stand for the expression the variable was assigned (same expression at every occurrence).
    $$x     any expression, the same at every occurrence.   $_ / $$_   anonymous (no consistency).
    ...     as an expression: any expression; as the last positional argument of a call: any further arguments and
            keywords; as the only statement of a body: any body.

``Matcher(fn)`` searches a function.  Every search is tried first on the statements as written and then on the statements
with single-assignment temporaries substituted by their defining expression ("expanded"), so that
``t = a * b; f(t)`` and ``f(a * b)`` are the same construct.  Bindings can be shared between searches (``binds=``) to state
that two constructs mention the same variable.
"""
from __future__ import annotations

import ast
import copy
import re

from .repo import FuncInfo, walk_no_nested

_MV = re.compile(r"\$\$?[A-Za-z_][A-Za-z_0-9]*")


def _dump(n) -> str:
    if isinstance(n, ast.AST):
        return ast.dump(_strip_ctx(copy.deepcopy(n)))
    return repr(n)


def _strip_ctx(n):
    for x in ast.walk(n):
        if hasattr(x, "ctx"):
            x.ctx = ast.Load()
    return n


class Pattern:
    def __init__(self, src: str):
        self.src = src

        def sub(m):
            t = m.group(0)
            if t.startswith("$$"):
                return "__MVE_" + t[2:] + "__"
            return "__MV_" + t[1:] + "__"

        py = _MV.sub(sub, src)
        try:
            tree = ast.parse(py)
        except SyntaxError:
            # `f(a, k=v, ...)`: the rest marker after keywords
            tree = ast.parse(re.sub(r",\s*\.\.\.\s*\)", ", **__REST__)", py))
        if len(tree.body) != 1:
            raise ValueError(f"pattern must be one statement or expression: {src!r}")
        st = tree.body[0]
        self.is_expr = isinstance(st, ast.Expr)
        self.node = st.value if self.is_expr else st

    def __repr__(self):
        return f"Pattern({self.src!r})"


# simple callee name -> positional parameter names (without self/cls); filled by check.py from the source model for repository callables whose name has one
# parameter list package-wide, plus a few library callables whose first parameters acryo passes both ways
SIGNATURES: dict[str, list[str]] = {}
EXTERNAL_SIGNATURES = {
    "write_csv": [["file"]], "write_parquet": [["file"]], "read_csv": [["source"]], "read_parquet": [["source"]],
    "as_euler": [["seq", "degrees"]], "Rotation.from_euler": [["seq", "angles", "degrees"]], "Series": [["name", "values"]],
    "center_of_mass": [["input", "labels", "index"]], "map_coordinates": [["input", "coordinates"]], "gaussian_filter": [["input", "sigma"]],
    "gaussian_laplace": [["input", "sigma"]], "label": [["input", "structure"]], "zoom": [["input", "zoom"]], "pad": [["array", "pad_width", "mode"]],
    "distance_transform_edt": [["input"]], "binary_erosion": [["input", "structure"]], "binary_dilation": [["input", "structure"]],
    "binary_opening": [["input", "structure"]], "binary_closing": [["input", "structure"]], "affine_transform": [["input", "matrix"]],
    "spline_filter": [["input", "order"]], "shift": [["input", "shift"]], "ndi_shift": [["input", "shift"]],
}


def set_signatures(table: dict):
    SIGNATURES.clear()
    for k, v in EXTERNAL_SIGNATURES.items():
        SIGNATURES[k] = [list(x) for x in v]
    for k, v in table.items():
        cur = SIGNATURES.setdefault(k, [])
        for sig in v:
            if sig not in cur:
                cur.append(sig)


def _signature_of(call: ast.Call):
    f = call.func
    name = f.attr if isinstance(f, ast.Attribute) else (f.id if isinstance(f, ast.Name) else None)
    if isinstance(f, ast.Attribute) and isinstance(f.value, ast.Name) and (f.value.id + "." + f.attr) in SIGNATURES:
        return SIGNATURES[f.value.id + "." + f.attr]
    if name == "cls":
        # `cls(...)` in a classmethod: the constructors whose parameter lists contain every keyword used at the call
        kws = {k.arg for k in call.keywords if k.arg is not None}
        return [sig for sig in SIGNATURES.get("cls", []) if kws <= set(sig)] or None
    return SIGNATURES.get(name) if name else None


def _match_bound(p: ast.Call, n: ast.Call, sig, b, expanded, exp):
    """Match two calls of a callee with known positional parameter names.  Returns None when the comparison does not apply (starred arguments)."""
    if any(isinstance(a, ast.Starred) for a in list(p.args) + list(n.args)):
        return None
    pargs = list(p.args)
    rest = False
    if pargs and _is_ellipsis(pargs[-1]):
        pargs = pargs[:-1]
        rest = True
    pkeywords = [k for k in p.keywords if not (k.arg is None and isinstance(k.value, ast.Name) and k.value.id == "__REST__")]
    if len(pkeywords) != len(p.keywords):
        rest = True
    if any(k.arg is None for k in pkeywords) or any(k.arg is None for k in n.keywords):
        return None
    if len(pargs) > len(sig) or len(n.args) > len(sig):
        return None

    def bind(args, kws):
        d = {}
        for name, a in zip(sig, args):
            d[name] = a
        for k in kws:
            if k.arg in d:
                return None
            d[k.arg] = k.value
        return d

    pd, nd = bind(pargs, pkeywords), bind(list(n.args), n.keywords)
    if pd is None or nd is None:
        return None
    for name, pv in pd.items():
        if name not in nd or not match(pv, nd[name], b, expanded, exp):
            return False
    if not rest and set(nd) != set(pd):
        return False
    return True


ARRAY_NAMESPACES = {"np", "numpy", "da", "xp"}
METHOD_FORMS = {"dot", "mean", "sum", "max", "min", "prod", "std", "var", "reshape", "transpose", "ravel", "astype", "clip", "round", "cumsum", "argmax", "argmin",
                "any", "all", "conj", "squeeze", "swapaxes"}


def _equiv_norm(e: ast.expr) -> ast.expr:
    """Spellings of one value that Python treats alike: dict(k=v) == {"k": v};  (a,) + x == (a, *x);  x + (a,) == (*x, a);
    numpy's function and method forms  np.f(x, ...) == x.f(...)  for the array methods in METHOD_FORMS (also da. / xp.);  x.reshape((a, b)) == x.reshape(a, b)."""
    if isinstance(e, ast.Call) and isinstance(e.func, ast.Attribute) and isinstance(e.func.value, ast.Name) and e.func.value.id in ARRAY_NAMESPACES and \
            e.func.attr in METHOD_FORMS and e.args and not isinstance(e.args[0], ast.Starred):
        e = ast.Call(func=ast.Attribute(value=e.args[0], attr=e.func.attr, ctx=ast.Load()), args=list(e.args[1:]), keywords=list(e.keywords))
    if isinstance(e, ast.Call) and isinstance(e.func, ast.Attribute) and e.func.attr == "reshape" and len(e.args) == 1 and isinstance(e.args[0], ast.Tuple) and \
            not any(isinstance(x, ast.Starred) for x in e.args[0].elts):
        e = ast.Call(func=e.func, args=list(e.args[0].elts), keywords=list(e.keywords))
    # the same fusion on the expander's canonical form, where the element of an iterable X is written __elem__(X):
    #   __elem__([E for _ in xs]) == E        and        [F for _ in [E for _ in xs]] == [F for _ in xs]   (F refers to its element only through __elem__)
    if isinstance(e, ast.Call) and isinstance(e.func, ast.Name) and e.func.id == "__elem__" and len(e.args) == 1 and \
            isinstance(e.args[0], (ast.ListComp, ast.GeneratorExp)) and len(e.args[0].generators) == 1 and not e.args[0].generators[0].ifs:
        return _equiv_norm(e.args[0].elt)
    if isinstance(e, (ast.ListComp, ast.GeneratorExp)) and len(e.generators) == 1 and not e.generators[0].ifs and isinstance(e.generators[0].target, ast.Name) and \
            e.generators[0].target.id.startswith("_c") and isinstance(e.generators[0].iter, (ast.ListComp, ast.GeneratorExp)) and \
            len(e.generators[0].iter.generators) == 1 and not e.generators[0].iter.generators[0].ifs:
        # (canonical comprehension variables `_cN` are never read: elements are written __elem__(iter))
        g0 = copy.copy(e.generators[0])
        g0.iter = e.generators[0].iter.generators[0].iter
        e = type(e)(elt=e.elt, generators=[g0])
    if isinstance(e, (ast.ListComp, ast.GeneratorExp)) and len(e.generators) == 1 and not e.generators[0].ifs and isinstance(e.generators[0].target, ast.Name) and \
            isinstance(e.generators[0].iter, (ast.ListComp, ast.GeneratorExp)) and len(e.generators[0].iter.generators) == 1 and \
            not e.generators[0].iter.generators[0].ifs:
        # comprehension fusion: [f(y) for y in [g(x) for x in xs]] == [f(g(x)) for x in xs]
        inner = e.generators[0].iter
        y = e.generators[0].target.id

        class _S(ast.NodeTransformer):
            def visit_Name(self, n):
                return copy.deepcopy(inner.elt) if n.id == y else n
        elt = _S().visit(copy.deepcopy(e.elt))
        e = type(e)(elt=elt, generators=[copy.deepcopy(inner.generators[0])])
        ast.fix_missing_locations(e)
    if isinstance(e, ast.Call) and isinstance(e.func, ast.Name) and e.func.id == "dict" and not e.args and e.keywords and all(k.arg is not None for k in e.keywords):
        return ast.Dict(keys=[ast.Constant(value=k.arg) for k in e.keywords], values=[k.value for k in e.keywords])
    if isinstance(e, ast.BinOp) and isinstance(e.op, ast.Add):
        l, r = e.left, e.right
        if isinstance(l, ast.Tuple) and not isinstance(r, (ast.Tuple, ast.Constant)) and not any(isinstance(x, ast.Starred) for x in l.elts):
            return ast.Tuple(elts=list(l.elts) + [ast.Starred(value=r, ctx=ast.Load())], ctx=ast.Load())
        if isinstance(r, ast.Tuple) and not isinstance(l, (ast.Tuple, ast.Constant)) and not any(isinstance(x, ast.Starred) for x in r.elts):
            return ast.Tuple(elts=[ast.Starred(value=l, ctx=ast.Load())] + list(r.elts), ctx=ast.Load())
    return e


def _mv(n):
    if isinstance(n, ast.Name):
        if n.id.startswith("__MVE_") and n.id.endswith("__"):
            return "E", n.id[6:-2]
        if n.id.startswith("__MV_") and n.id.endswith("__"):
            return "V", n.id[5:-2]
    return None


def _is_ellipsis(n):
    return isinstance(n, ast.Constant) and n.value is Ellipsis


def _any_body(body):
    return len(body) == 1 and isinstance(body[0], ast.Expr) and _is_ellipsis(body[0].value)


def match(p, n, b: dict, expanded: bool = False, exp=None) -> bool:
    """Match pattern node p against node n, extending the bindings b (copy on the caller's side if you need backtracking)."""
    if isinstance(p, ast.expr) and isinstance(n, ast.expr):
        p, n = _equiv_norm(p), _equiv_norm(n)
    if isinstance(p, ast.AST):
        mv = _mv(p)
        if mv is not None:
            kind, name = mv
            if not isinstance(n, ast.expr):
                return False
            if kind == "V" and not expanded and not isinstance(n, ast.Name):
                return False
            if name == "_":
                return True
            d = _dump(exp.canon(n)) if exp is not None else _dump(n)
            if name in b:
                return b[name][0] == d
            b[name] = (d, n)
            return True
        if isinstance(p, ast.arg) and isinstance(n, ast.arg) and p.arg.startswith("__MV_") and p.arg.endswith("__"):
            # parameter of a lambda / def in the pattern: a metavariable for the parameter's name
            return match(ast.Name(id=p.arg, ctx=ast.Load()), ast.Name(id=n.arg, ctx=ast.Load()), b, expanded, exp)
        if _is_ellipsis(p):
            return isinstance(n, ast.expr)
        if isinstance(p, ast.Assign) and isinstance(n, ast.AnnAssign) and len(p.targets) == 1 and n.value is not None:
            return match(p.targets[0], n.target, b, expanded, exp) and match(p.value, n.value, b, expanded, exp)
        if isinstance(p, (ast.ListComp, ast.GeneratorExp)) and isinstance(n, (ast.ListComp, ast.GeneratorExp)) and type(p) is not type(n):
            # a list comprehension and a generator expression enumerate the same elements in the same order
            return match(p.elt, n.elt, b, expanded, exp) and match(p.generators, n.generators, b, expanded, exp)
        if type(p) is not type(n):
            return False
        if isinstance(p, ast.If):
            # `if not c: B else: A` is `if c: A else: B`
            def norm_if(x):
                while isinstance(x.test, ast.UnaryOp) and isinstance(x.test.op, ast.Not) and x.orelse:
                    x = ast.If(test=x.test.operand, body=x.orelse, orelse=x.body)
                return x
            p, n = norm_if(p), norm_if(n)
        if isinstance(p, ast.comprehension) and expanded:
            # expanded comprehensions have canonical targets and elements written in terms of __elem__(iter): bind the pattern's loop variables accordingly
            if not match(p.iter, n.iter, b, expanded, exp) or not match(p.ifs, n.ifs, b, expanded, exp):
                return False
            bound: dict = {}
            _bind_loop(p.target, n.iter, bound)
            for nm, ex in bound.items():
                mv = _mv(ast.Name(id=nm, ctx=ast.Load()))
                if mv is None:
                    continue
                kind, name = mv
                if name == "_":
                    continue
                d = _dump(ex)
                if name in b:
                    if b[name][0] != d:
                        return False
                else:
                    b[name] = (d, ex)
            return True
        if isinstance(p, ast.Call):
            if not match(p.func, n.func, b, expanded, exp):
                return False
            sigs = _signature_of(n)
            if sigs:
                # the callee's parameter list is known (one candidate per definition of that name): compare the calls as parameter -> argument bindings, so
                # `f(a, b)`, `f(a, y=b)` and `f(x=a, y=b)` are the same call
                applicable = False
                for sig in sigs:
                    b2 = dict(b)
                    r = _match_bound(p, n, sig, b2, expanded, exp)
                    if r is None:
                        continue
                    applicable = True
                    if r:
                        b.update(b2)
                        return True
                if applicable:
                    return False
            pargs = list(p.args)
            rest = False
            if pargs and _is_ellipsis(pargs[-1]):
                pargs = pargs[:-1]
                rest = True
            pkeywords = [k for k in p.keywords if not (k.arg is None and isinstance(k.value, ast.Name) and k.value.id == "__REST__")]
            if len(pkeywords) != len(p.keywords):
                rest = True
            if rest:
                if len(n.args) < len(pargs):
                    # positional in the pattern may be given by keyword in the code: not supported -> no match
                    return False
            elif len(n.args) != len(pargs):
                return False
            for pa, na in zip(pargs, n.args):
                if not match(pa, na, b, expanded, exp):
                    return False
            nk = {k.arg: k.value for k in n.keywords}
            for k in pkeywords:
                if k.arg is None:
                    cands = [x.value for x in n.keywords if x.arg is None]
                    if not any(match(k.value, c, b, expanded, exp) for c in cands):
                        return False
                    continue
                if k.arg not in nk or not match(k.value, nk[k.arg], b, expanded, exp):
                    return False
            if not rest and {k.arg for k in pkeywords} != set(nk) | ({None} if any(x.arg is None for x in n.keywords) else set()):
                return False
            return True
        for f, pv in ast.iter_fields(p):
            if f in ("ctx", "type_comment", "lineno", "col_offset", "end_lineno", "end_col_offset", "kind", "type_params"):
                continue
            nv = getattr(n, f, None)
            if f in ("body", "orelse", "finalbody") and isinstance(pv, list):
                if _any_body(pv):
                    continue
            if f == "annotation" or f == "returns" or f == "decorator_list":
                continue
            if not match(pv, nv, b, expanded, exp):
                return False
        return True
    if isinstance(p, list):
        if not isinstance(n, list):
            return False
        if any(isinstance(x, ast.Expr) and _is_ellipsis(x.value) for x in p):
            # `...` as a statement stands for any run of statements (possibly empty)
            def seq(i, j, bb):
                if i == len(p):
                    return bb if j == len(n) else None
                if isinstance(p[i], ast.Expr) and _is_ellipsis(p[i].value):
                    for k in range(j, len(n) + 1):
                        r = seq(i + 1, k, dict(bb))
                        if r is not None:
                            return r
                    return None
                if j >= len(n):
                    return None
                b2 = dict(bb)
                if match(p[i], n[j], b2, expanded, exp):
                    return seq(i + 1, j + 1, b2)
                return None

            r = seq(0, 0, dict(b))
            if r is None:
                return False
            b.update(r)
            return True
        if len(p) != len(n):
            return False
        return all(match(x, y, b, expanded, exp) for x, y in zip(p, n))
    return p == n


def _bind_target(t, value, out: dict):
    if isinstance(t, ast.Name):
        out.setdefault(t.id, value)
    elif isinstance(t, (ast.Tuple, ast.List)) and not any(isinstance(e, ast.Starred) for e in t.elts):
        if isinstance(value, (ast.Tuple, ast.List)) and len(value.elts) == len(t.elts) and not any(isinstance(e, ast.Starred) for e in value.elts):
            for e, v in zip(t.elts, value.elts):  # a, b = x, y
                _bind_target(e, v, out)
            return
        for i, e in enumerate(t.elts):
            _bind_target(e, ast.Subscript(value=value, slice=ast.Constant(value=i), ctx=ast.Load()), out)


def _bind_loop(t, it, out: dict):
    """loop / comprehension variables:  for v in X -> v = __elem__(X);  zip and enumerate are looked through"""
    if isinstance(it, ast.Call) and isinstance(it.func, ast.Name) and not it.keywords:
        if it.func.id == "zip" and isinstance(t, (ast.Tuple, ast.List)) and len(t.elts) == len(it.args):
            for e, a in zip(t.elts, it.args):
                _bind_loop(e, a, out)
            return
        if it.func.id == "enumerate" and isinstance(t, (ast.Tuple, ast.List)) and len(t.elts) == 2 and len(it.args) == 1:
            _bind_target(t.elts[0], ast.Call(func=ast.Name(id="__index__", ctx=ast.Load()), args=[it.args[0]], keywords=[]), out)
            _bind_loop(t.elts[1], it.args[0], out)
            return
    _bind_target(t, ast.Call(func=ast.Name(id="__elem__", ctx=ast.Load()), args=[it], keywords=[]), out)


class Expander:
    """Substitutes single-assignment temporaries of a function by their defining expressions."""

    def __init__(self, fn_node: ast.AST, max_depth: int = 8, helpers=None):
        self.helpers = helpers  # callable(ast.Call) -> (FunctionDef, drop_first_param) | None
        self.defs: dict[str, ast.expr] = {}
        counts: dict[str, int] = {}
        params = set()
        if isinstance(fn_node, (ast.FunctionDef, ast.AsyncFunctionDef, ast.Lambda)):
            a = fn_node.args
            for x in a.posonlyargs + a.args + a.kwonlyargs:
                params.add(x.arg)
            if a.vararg:
                params.add(a.vararg.arg)
            if a.kwarg:
                params.add(a.kwarg.arg)
        simple: dict[str, ast.expr] = {}
        comp_scoped = {id(x) for c in ast.walk(fn_node) if isinstance(c, ast.comprehension) for x in ast.walk(c.target)}
        for n in ast.walk(fn_node):
            if isinstance(n, ast.Name) and isinstance(n.ctx, (ast.Store, ast.Del)):
                if id(n) in comp_scoped:
                    continue  # comprehension variables live in their own scope (expanded locally)
                counts[n.id] = counts.get(n.id, 0) + 1
            elif isinstance(n, (ast.Global, ast.Nonlocal)):
                for nm in n.names:
                    counts[nm] = counts.get(nm, 0) + 2
        for n in ast.walk(fn_node):
            if isinstance(n, ast.Assign) and len(n.targets) == 1 and isinstance(n.targets[0], ast.Name):
                simple[n.targets[0].id] = n.value
            elif isinstance(n, ast.AnnAssign) and isinstance(n.target, ast.Name) and n.value is not None:
                simple[n.target.id] = n.value
        # tuple unpacking  a, b = E   ->  a = E[0], b = E[1];   loop variables  for v in X -> v = __elem__(X)
        for n in ast.walk(fn_node):
            if isinstance(n, ast.Assign) and len(n.targets) == 1 and isinstance(n.targets[0], (ast.Tuple, ast.List)):
                _bind_target(n.targets[0], n.value, simple)
            elif isinstance(n, ast.For):
                _bind_loop(n.target, n.iter, simple)
        # variables that are mutated in place are objects with identity, not temporaries
        mutated: set[str] = set()
        for n in ast.walk(fn_node):
            if isinstance(n, (ast.Subscript, ast.Attribute)) and isinstance(n.ctx, (ast.Store, ast.Del)):
                base = n.value
                while isinstance(base, (ast.Subscript, ast.Attribute)):
                    base = base.value
                if isinstance(base, ast.Name):
                    mutated.add(base.id)
            elif isinstance(n, ast.AugAssign) and isinstance(n.target, ast.Name):
                mutated.add(n.target.id)
            elif isinstance(n, ast.Call) and isinstance(n.func, ast.Attribute) and isinstance(n.func.value, ast.Name) and \
                    n.func.attr in ("append", "extend", "add", "update", "insert", "pop", "sort", "setdefault", "remove", "clear", "add_task", "add_tasks"):
                mutated.add(n.func.value.id)
        for nm, v in simple.items():
            if nm in mutated:
                continue
            if counts.get(nm, 0) == 1 and nm not in params:
                if any(isinstance(x, (ast.Yield, ast.YieldFrom, ast.Await, ast.NamedExpr)) for x in ast.walk(v)):
                    continue
                self.defs[nm] = v
        self.max_depth = max_depth

    def canon(self, node: ast.AST) -> ast.AST:
        """Expression with every context Load and temporaries expanded: the form under which bindings are compared."""
        return self.expand(_strip_ctx(copy.deepcopy(node)))

    def expand(self, node: ast.AST, depth: int = 0, skip: frozenset = frozenset()) -> ast.AST:
        defs = self.defs
        maxd = self.max_depth

        class T(ast.NodeTransformer):
            def __init__(s, d, skip):
                s.d = d
                s.skip = skip
                s.local = {}

            def visit_Name(s, n):
                if isinstance(n.ctx, ast.Load) and n.id in s.local:
                    return copy.deepcopy(s.local[n.id])
                if isinstance(n.ctx, ast.Load) and n.id in defs and n.id not in s.skip and s.d < maxd:
                    t2 = T(s.d + 1, s.skip | {n.id})
                    t2.local = {}
                    return t2.visit(copy.deepcopy(defs[n.id]))
                return n

            def _comp(s, n):
                # generators are evaluated left to right; each one sees the variables of the previous ones
                local = dict(s.local)
                gens = []
                for g in n.generators:
                    t_iter = T(s.d, s.skip)
                    t_iter.local = dict(local)
                    it = t_iter.visit(g.iter)
                    bound: dict = {}
                    _bind_loop(g.target, it, bound)
                    for nm in [x.id for x in ast.walk(g.target) if isinstance(x, ast.Name)]:
                        local.pop(nm, None)
                    local.update(bound)
                    t_if = T(s.d, s.skip)
                    t_if.local = dict(local)
                    tgt = copy.deepcopy(g.target)
                    for k, x in enumerate(x_ for x_ in ast.walk(tgt) if isinstance(x_, ast.Name)):
                        x.id = f"_c{k}"  # the variables are substituted in the element: their names carry no information
                    gens.append(ast.comprehension(target=tgt, iter=it, ifs=[t_if.visit(i) for i in g.ifs], is_async=g.is_async))
                t_el = T(s.d, s.skip)
                t_el.local = local
                if isinstance(n, ast.DictComp):
                    return ast.DictComp(key=t_el.visit(n.key), value=t_el.visit(n.value), generators=gens)
                return type(n)(elt=t_el.visit(n.elt), generators=gens)

            visit_ListComp = visit_SetComp = visit_GeneratorExp = visit_DictComp = _comp

            def visit_Lambda(s, n):
                return n

            def visit_Call(s, n):
                n = s.generic_visit(n)
                if self_.helpers is not None and s.d < maxd:
                    r = self_.helpers(n)
                    if r is not None:
                        inl = inline_simple_helper(r[0], n, r[1])
                        if inl is not None:
                            return T(s.d + 1, s.skip).visit(inl)
                return n

        self_ = self
        out = T(depth, skip).visit(copy.deepcopy(node))
        return _IndexToElem().visit(out)


class _IndexToElem(ast.NodeTransformer):
    """`Y[i]` with i the loop variable of `for i in range(len(X))` (expanded: `Y[__elem__(range(len(X)))]`) is the element of Y at the position the loop is at,
    i.e. what `for y in Y` / `zip(..., Y, ...)` binds: `__elem__(Y)`.  Index loops and zip loops over parallel sequences are then the same construct."""

    def visit_Subscript(self, n):
        self.generic_visit(n)
        s = n.slice
        if isinstance(s, ast.Call) and isinstance(s.func, ast.Name) and s.func.id == "__elem__" and len(s.args) == 1:
            r = s.args[0]
            if isinstance(r, ast.Call) and isinstance(r.func, ast.Name) and r.func.id == "range" and len(r.args) == 1:
                a = r.args[0]
                is_len = isinstance(a, ast.Call) and isinstance(a.func, ast.Name) and a.func.id == "len" and len(a.args) == 1
                is_shape0 = isinstance(a, ast.Subscript) and isinstance(a.value, ast.Attribute) and a.value.attr == "shape" and isinstance(a.slice, ast.Constant) and \
                    a.slice.value == 0
                if (is_len or is_shape0) and isinstance(n.ctx, ast.Load):
                    return ast.Call(func=ast.Name(id="__elem__", ctx=ast.Load()), args=[n.value], keywords=[])
        return n


def simple_helper(fd: ast.FunctionDef) -> bool:
    """A function whose body is (docstring) + single-name assignments + one final ``return <expr>``: it can be inlined as an expression."""
    if fd.args.vararg or fd.args.kwarg or fd.decorator_list and any(ast.unparse(d) not in ("staticmethod", "classmethod") for d in fd.decorator_list):
        return False
    body = list(fd.body)
    if body and isinstance(body[0], ast.Expr) and isinstance(body[0].value, ast.Constant) and isinstance(body[0].value.value, str):
        body = body[1:]
    if not body or not isinstance(body[-1], ast.Return) or body[-1].value is None:
        return False
    for st in body[:-1]:
        if isinstance(st, ast.Assign) and len(st.targets) == 1 and isinstance(st.targets[0], ast.Name):
            continue
        if isinstance(st, ast.AnnAssign) and isinstance(st.target, ast.Name) and st.value is not None:
            continue
        return False
    return not any(isinstance(x, (ast.Yield, ast.YieldFrom, ast.Await, ast.Lambda)) for x in ast.walk(fd))


def inline_simple_helper(fd: ast.FunctionDef, call: ast.Call, drop_first: bool):
    """The return expression of a simple helper with parameters replaced by the call's arguments (None if the call does not bind cleanly)."""
    params = [a.arg for a in fd.args.posonlyargs + fd.args.args]
    if drop_first and params:
        params = params[1:]
    kwonly = [a.arg for a in fd.args.kwonlyargs]
    env: dict[str, ast.expr] = {}
    if any(isinstance(a, ast.Starred) for a in call.args) or any(k.arg is None for k in call.keywords) or len(call.args) > len(params):
        return None
    for p, a in zip(params, call.args):
        env[p] = a
    for k in call.keywords:
        if k.arg not in params + kwonly or k.arg in env:
            return None
        env[k.arg] = k.value
    defaults = fd.args.defaults
    pos_all = [a.arg for a in fd.args.posonlyargs + fd.args.args]
    for p, d in zip(pos_all[len(pos_all) - len(defaults):], defaults):
        env.setdefault(p, d)
    for p, d in zip(kwonly, fd.args.kw_defaults):
        if d is not None:
            env.setdefault(p, d)
    if any(p not in env for p in params + kwonly):
        return None

    class S(ast.NodeTransformer):
        def visit_Name(self, n):
            if isinstance(n.ctx, ast.Load) and n.id in env:
                return copy.deepcopy(env[n.id])
            return n

    body = list(fd.body)
    if body and isinstance(body[0], ast.Expr) and isinstance(body[0].value, ast.Constant):
        body = body[1:]
    for st in body[:-1]:
        tgt = st.targets[0] if isinstance(st, ast.Assign) else st.target
        env[tgt.id] = S().visit(copy.deepcopy(st.value))
    return S().visit(copy.deepcopy(body[-1].value))


def helper_resolver(fn: "FuncInfo"):
    """Resolver of calls to *simple* helpers defined next to ``fn`` (same module, or same class through self./cls./ClassName.)."""
    mod = fn.module

    def resolve(call: ast.Call):
        f = call.func
        cands, drop = None, False
        if isinstance(f, ast.Name):
            cands = mod.functions.get(f.id)
        elif isinstance(f, ast.Attribute) and isinstance(f.value, ast.Name):
            owner = None
            if f.value.id in ("self", "cls") and fn.cls is not None:
                owner = fn.cls
            elif f.value.id in mod.classes:
                owner = mod.classes[f.value.id]
            if owner is not None:
                m = owner.find_method(f.attr) if hasattr(owner, "find_method") else None
                if m is not None and f.value.id in ("self", "cls") and hasattr(owner, "all_subclasses") and \
                        any(f.attr in getattr(sub, "methods", {}) for sub in owner.all_subclasses()):
                    m = None  # overridden in a subclass: the callee is not known statically
                if m is not None:
                    cands = [m]
                    decs = [ast.unparse(d) for d in m.node.decorator_list]
                    drop = "staticmethod" not in decs
        if not cands:
            return None
        fi = cands[-1]
        if fi.node is fn.node or not fi.name.startswith("_") or fi.name.startswith("__"):
            return None  # only private helpers: public functions are rule anchors of their own
        if not simple_helper(fi.node):
            return None
        return fi.node, drop

    return resolve


class Matcher:
    def __init__(self, fn):
        self.fn_node = fn.node if isinstance(fn, FuncInfo) else fn
        self._exp = Expander(self.fn_node, helpers=(helper_resolver(fn) if isinstance(fn, FuncInfo) else None))
        self._raw = None
        self._xp = None

    def _nodes(self, expanded: bool):
        if not expanded:
            if self._raw is None:
                self._raw = [n for n in walk_no_nested(self.fn_node)]
            return self._raw
        if self._xp is None:
            out = []
            for st in walk_no_nested(self.fn_node):
                if isinstance(st, ast.stmt) and not isinstance(st, (ast.FunctionDef, ast.AsyncFunctionDef, ast.ClassDef)):
                    if isinstance(st, (ast.Assign, ast.AnnAssign)) and (
                            (isinstance(st, ast.Assign) and len(st.targets) == 1 and isinstance(st.targets[0], ast.Name) and st.targets[0].id in self._exp.defs) or
                            (isinstance(st, ast.AnnAssign) and isinstance(st.target, ast.Name) and st.target.id in self._exp.defs)):
                        # the definition of a temporary: keep it (patterns may name it), expanded on the right
                        pass
                    x = self._expand_stmt(st)
                    out.append((st, x))
            self._xp = out
        return self._xp

    def _expand_stmt(self, st):
        # expand expression children only; nested statement bodies are expanded when visited themselves
        x = copy.copy(st)
        for f, v in ast.iter_fields(st):
            if f in ("body", "orelse", "finalbody", "handlers", "targets", "target", "cases"):
                continue
            if isinstance(v, ast.expr):
                setattr(x, f, self._exp.expand(v))
            elif isinstance(v, list) and v and all(isinstance(e, ast.expr) for e in v):
                setattr(x, f, [self._exp.expand(e) for e in v])
            elif isinstance(v, list) and v and all(isinstance(e, ast.withitem) for e in v):
                setattr(x, f, [ast.withitem(context_expr=self._exp.expand(e.context_expr), optional_vars=e.optional_vars) for e in v])
        if isinstance(st, ast.AugAssign):
            x.target = st.target
        return x

    def find(self, pattern, binds: dict | None = None, within: ast.AST | None = None):
        """All (node, bindings) matching the pattern.  ``binds`` (name -> (dump, node)) restricts metavariables already bound;
        the returned bindings extend it.  ``within``: only nodes inside this statement/expression."""
        pat = pattern if isinstance(pattern, Pattern) else Pattern(pattern)
        res = []
        seen = set()
        inside = None
        if within is not None:
            inside = {id(x) for x in ast.walk(within)}
        # raw
        for n in self._nodes(False):
            if inside is not None and id(n) not in inside:
                continue
            if pat.is_expr and not isinstance(n, ast.expr):
                continue
            if not pat.is_expr and not isinstance(n, ast.stmt):
                continue
            b = dict(binds or {})
            if match(pat.node, n, b, False, self._exp):
                res.append((n, b))
                seen.add(id(n))
        # expanded
        for st, x in self._nodes(True):
            if inside is not None and id(st) not in inside:
                continue
            if not pat.is_expr:
                if id(st) in seen:
                    continue
                b = dict(binds or {})
                if match(pat.node, x, b, True, self._exp):
                    res.append((st, b))
                    seen.add(id(st))
            else:
                if any(id(sub) in seen for f, v in ast.iter_fields(st) if f not in ("body", "orelse", "finalbody", "handlers", "cases")
                       for e in (v if isinstance(v, list) else [v]) if isinstance(e, (ast.AST,))
                       for sub in ast.walk(e.context_expr if isinstance(e, ast.withitem) else e)):
                    continue  # the statement as written already matches
                for f, v in ast.iter_fields(x):
                    if f in ("body", "orelse", "finalbody", "handlers", "cases"):
                        continue
                    vs = v if isinstance(v, list) else [v]
                    for e in vs:
                        if isinstance(e, ast.withitem):
                            e = e.context_expr
                        if not isinstance(e, ast.expr):
                            continue
                        for sub in ast.walk(e):
                            if not isinstance(sub, ast.expr):
                                continue
                            b = dict(binds or {})
                            if match(pat.node, sub, b, True, self._exp):
                                key = (id(st), _dump(sub))
                                if key in seen:
                                    continue
                                # skip if a raw match for the same statement exists
                                seen.add(key)
                                res.append((st, b))
        return res

    def has(self, pattern, binds: dict | None = None, within=None) -> bool:
        r = self.find(pattern, binds, within)
        if r and binds is not None:
            binds.update(r[0][1])
        return bool(r)

    def count(self, pattern, binds=None, within=None) -> int:
        sts = set()
        for n, b in self.find(pattern, binds, within):
            sts.add(id(n))
        return len(sts)

    def all_of(self, patterns, binds: dict | None = None, _depth: int = 0, _budget: list | None = None) -> tuple[bool, str]:
        """Every pattern occurs, with one consistent binding of the shared metavariables (backtracking over candidates)."""
        pats = [p if isinstance(p, Pattern) else Pattern(p) for p in patterns]

        def go(i, b):
            if i == len(pats):
                return b
            for n, b2 in self.find(pats[i], b):
                r = go(i + 1, b2)
                if r is not None:
                    return r
            return None

        r = go(0, dict(binds or {}))
        if r is not None:
            if binds is not None:
                binds.update(r)
            return True, ""
        # virtual temporaries: a pattern `$v = E` names an intermediate value.  When the code does not keep that value in a variable of its own
        # (`return tuple(a), tuple(b)` instead of `x = tuple(a); y = tuple(b); return x, y`) the other patterns are tried with `$v` replaced by `(E)`.
        if _budget is None:
            _budget = [16]  # virtual-temporary retries per top-level question (each retry is a full backtracking search; the recursion is otherwise exponential)
        if _depth < 6 and _budget[0] > 0 and all(isinstance(p, str) or isinstance(p, Pattern) for p in patterns):
            srcs = [p.src if isinstance(p, Pattern) else p for p in patterns]
            for i, ps in enumerate(srcs):
                # `$a, $b = ($X, $Y)` (an alias pair): the same with each target replaced by its component
                mt = re.match(r"^\$([A-Za-z_]\w*)\s*,\s*\$([A-Za-z_]\w*)\s*=\s*\(?\s*(\$\$?[A-Za-z_]\w*)\s*,\s*(\$\$?[A-Za-z_]\w*)\s*\)?$", ps)
                if mt and not self.find(pats[i], dict(binds or {})):
                    v1, v2, e1, e2 = mt.groups()
                    others = [re.sub(r"(?<!\$)\$" + v2 + r"\b", lambda _m: e2, re.sub(r"(?<!\$)\$" + v1 + r"\b", lambda _m: e1, q))
                              for j, q in enumerate(srcs) if j != i]
                    _budget[0] -= 1
                    if _budget[0] < 0:
                        break
                    try:
                        ok2, _w = self.all_of(others, binds, _depth=_depth + 1, _budget=_budget)
                    except (SyntaxError, ValueError):
                        ok2 = False
                    if ok2:
                        return True, ""
                    continue
                m = re.match(r"^\$([A-Za-z_][A-Za-z_0-9]*)\s*=\s*(?!=)(.+)$", ps, re.S)
                if not m or "\n" in ps:
                    continue
                v, e = m.group(1), m.group(2).strip()
                if (binds or {}).get(v) is not None or re.search(r"(?<!\$)\$" + v + r"\b", e):
                    continue
                if any(isinstance((b_.get(v) or (None, None))[1], ast.Name) for _n, b_ in self.find(pats[i], dict(binds or {}))):
                    continue  # the temporary exists as written (a variable of its own): the failure lies elsewhere
                others = [re.sub(r"(?<!\$)\$" + v + r"\b", lambda _m: "(" + e + ")", q) for j, q in enumerate(srcs) if j != i]
                if others == [q for j, q in enumerate(srcs) if j != i]:
                    continue  # nobody uses it
                _budget[0] -= 1
                if _budget[0] < 0:
                    break
                try:
                    ok2, why2 = self.all_of(others, binds, _depth=_depth + 1, _budget=_budget)
                except (SyntaxError, ValueError):
                    continue
                if ok2:
                    return True, ""
        # diagnose: first pattern that cannot be matched on its own / consistently
        b = dict(binds or {})
        for p in pats:
            got = self.find(p, b)
            if not got:
                alone = self.find(p)
                return False, (f"no construct matches `{p.src}`" if not alone else f"`{p.src}` occurs, but not on the same variables as the preceding constructs")
            b = got[0][1]
        return False, "constructs occur but not with one consistent assignment of variables"

    def expr(self, node, keep=()):
        """``node`` with temporaries expanded, except the variables named in ``keep``."""
        return self._exp.expand(node, skip=frozenset(keep))


def src(n) -> str:
    return ast.unparse(n)
