"""E0 - source model of the analysed package.

Parses every ``*.py`` under ``<root>/acryo`` (optionally with an in-memory overlay
``{relative path: source}`` used by the self-test mutants), and builds

* module table with import maps and re-export canonicalisation,
* function / class tables, class hierarchy (MRO, overriding subclasses),
* decorator facts,
* a call resolver (see ``Model.resolve_call``).

Nothing of the analysed package is imported or executed.
"""
from __future__ import annotations

import ast
import hashlib
import os
from dataclasses import dataclass, field
from typing import Iterable, Iterator

PKG = "acryo"


def _type_checking_split(st: ast.If):
    """(stub body, run-time body) of ``if TYPE_CHECKING: stubs else: runtime`` or its negated form; None otherwise."""
    if not st.orelse:
        return None
    t = st.test
    if dotted(t) in ("TYPE_CHECKING", "typing.TYPE_CHECKING"):
        return st.body, st.orelse
    if isinstance(t, ast.UnaryOp) and isinstance(t.op, ast.Not) and dotted(t.operand) in ("TYPE_CHECKING", "typing.TYPE_CHECKING"):
        return st.orelse, st.body
    return None


class AnalysisError(Exception):
    """The analysis cannot decide (vanished anchor, parse failure, floor not met...)."""


class AnchorMissing(AnalysisError):
    pass


@dataclass
class FuncInfo:
    module: "ModuleInfo"
    cls: "ClassInfo | None"
    name: str
    node: ast.FunctionDef
    parent: "FuncInfo | None" = None  # enclosing function for nested defs

    @property
    def qual(self) -> str:
        if self.parent is not None:
            return f"{self.parent.qual}.<locals>.{self.name}"
        if self.cls is not None:
            return f"{self.module.name}:{self.cls.name}.{self.name}"
        return f"{self.module.name}:{self.name}"

    @property
    def short(self) -> str:
        if self.parent is not None:
            return f"{self.parent.short}.<locals>.{self.name}"
        if self.cls is not None:
            return f"{self.cls.name}.{self.name}"
        return self.name

    @property
    def anchor(self) -> str:
        return f"{self.module.relpath}::{self.short}"

    @property
    def decorators(self) -> list[str]:
        out = []
        for d in self.node.decorator_list:
            out.append(dotted(d.func) if isinstance(d, ast.Call) else dotted(d))
        return out

    def has_decorator(self, *names: str) -> bool:
        for d in self.decorators:
            if d is None:
                continue
            last = d.split(".")[-1]
            if d in names or last in names:
                return True
        return False

    @property
    def is_property(self) -> bool:
        return self.has_decorator("property", "cached_property")

    @property
    def is_setter(self) -> bool:
        return any(d and d.endswith(".setter") for d in self.decorators)

    @property
    def is_classmethod(self) -> bool:
        return self.has_decorator("classmethod")

    @property
    def is_staticmethod(self) -> bool:
        return self.has_decorator("staticmethod")

    @property
    def is_overload(self) -> bool:
        return self.has_decorator("overload")

    @property
    def is_generator(self) -> bool:
        for n in walk_no_nested(self.node):
            if isinstance(n, (ast.Yield, ast.YieldFrom)):
                return True
        return False

    def params(self) -> list[ast.arg]:
        a = self.node.args
        return list(a.posonlyargs) + list(a.args) + list(a.kwonlyargs)

    def param_names(self) -> list[str]:
        return [p.arg for p in self.params()]

    def loc(self, node: ast.AST | None = None) -> str:
        n = node if node is not None else self.node
        return f"{self.module.relpath}:{getattr(n, 'lineno', 0)}"

    def __hash__(self) -> int:
        return id(self)

    def __eq__(self, other) -> bool:
        return self is other

    def __repr__(self) -> str:
        return f"<Func {self.qual}>"


@dataclass
class ClassInfo:
    module: "ModuleInfo"
    name: str
    node: ast.ClassDef
    methods: dict[str, list[FuncInfo]] = field(default_factory=dict)
    base_exprs: list[str] = field(default_factory=list)
    bases: list["ClassInfo"] = field(default_factory=list)
    subclasses: list["ClassInfo"] = field(default_factory=list)
    class_attrs: dict[str, ast.expr] = field(default_factory=dict)

    @property
    def qual(self) -> str:
        return f"{self.module.name}:{self.name}"

    def mro(self) -> list["ClassInfo"]:
        out: list[ClassInfo] = []
        seen: set[int] = set()

        def rec(c: ClassInfo):
            if id(c) in seen:
                return
            seen.add(id(c))
            out.append(c)
            for b in c.bases:
                rec(b)

        rec(self)
        return out

    def all_subclasses(self) -> list["ClassInfo"]:
        out: list[ClassInfo] = []
        seen: set[int] = set()

        def rec(c: ClassInfo):
            for s in c.subclasses:
                if id(s) not in seen:
                    seen.add(id(s))
                    out.append(s)
                    rec(s)

        rec(self)
        return out

    def find_method(self, name: str, kind: str = "any") -> FuncInfo | None:
        """Look up through the MRO.  kind: any|getter|setter|plain."""
        for c in self.mro():
            for f in c.methods.get(name, []):
                if f.is_overload:
                    continue
                if kind == "setter" and not f.is_setter:
                    continue
                if kind == "getter" and not f.is_property:
                    continue
                if kind == "plain" and (f.is_setter):
                    continue
                if kind == "any" and f.is_setter:
                    continue
                return f
        return None

    def is_subclass_of(self, other: "ClassInfo") -> bool:
        return any(c is other for c in self.mro())

    def __hash__(self) -> int:
        return id(self)

    def __eq__(self, other) -> bool:
        return self is other

    def __repr__(self) -> str:
        return f"<Class {self.qual}>"


@dataclass
class ModuleInfo:
    name: str
    relpath: str  # relative to repo root, e.g. acryo/_utils.py
    source: str
    tree: ast.Module
    is_pkg: bool
    imports: dict[str, str] = field(default_factory=dict)  # alias -> dotted target
    functions: dict[str, list[FuncInfo]] = field(default_factory=dict)
    classes: dict[str, ClassInfo] = field(default_factory=dict)
    assigns: dict[str, ast.expr] = field(default_factory=dict)

    def __hash__(self) -> int:
        return id(self)

    def __eq__(self, other) -> bool:
        return self is other


def dotted(node: ast.AST | None) -> str | None:
    """``a.b.c`` for Name/Attribute chains, else None."""
    parts: list[str] = []
    while isinstance(node, ast.Attribute):
        parts.append(node.attr)
        node = node.value
    if isinstance(node, ast.Name):
        parts.append(node.id)
        return ".".join(reversed(parts))
    return None


def walk_no_nested(node: ast.AST) -> Iterator[ast.AST]:
    """ast.walk that does not descend into nested function/class/lambda bodies
    (the root itself may be a function)."""
    stack = list(ast.iter_child_nodes(node))
    while stack:
        n = stack.pop()
        yield n
        if isinstance(n, (ast.FunctionDef, ast.AsyncFunctionDef, ast.ClassDef, ast.Lambda)):
            continue
        stack.extend(ast.iter_child_nodes(n))


def norm_src(node: ast.AST) -> str:
    """Whitespace/comment/quote-insensitive text of a node."""
    try:
        return ast.unparse(node)
    except Exception:  # pragma: no cover
        return ast.dump(node)


class Model:
    def __init__(self, root: str = "/repo", overlay: dict[str, str] | None = None):
        self.root = root
        self.overlay = dict(overlay or {})
        self.modules: dict[str, ModuleInfo] = {}
        self.by_relpath: dict[str, ModuleInfo] = {}
        self.all_functions: list[FuncInfo] = []
        self.all_classes: list[ClassInfo] = []
        self._load()
        self._link_classes()

    # ------------------------------------------------------------------ loading
    def _iter_sources(self) -> Iterable[tuple[str, str]]:
        base = os.path.join(self.root, PKG)
        if not os.path.isdir(base):
            raise AnalysisError(f"package directory {base} not found")
        seen = set()
        for dirpath, dirnames, filenames in os.walk(base):
            dirnames[:] = sorted(d for d in dirnames if d != "__pycache__")
            for fn in sorted(filenames):
                if not fn.endswith(".py"):
                    continue
                full = os.path.join(dirpath, fn)
                rel = os.path.relpath(full, self.root)
                seen.add(rel)
                if rel in self.overlay:
                    yield rel, self.overlay[rel]
                else:
                    with open(full, "r", encoding="utf-8") as f:
                        yield rel, f.read()
        for rel, src in self.overlay.items():
            if rel not in seen and rel.endswith(".py"):
                yield rel, src

    def _load(self) -> None:
        for rel, src in self._iter_sources():
            try:
                tree = ast.parse(src, filename=rel)
            except SyntaxError as e:
                raise AnalysisError(f"{rel} does not parse: {e}") from e
            parts = rel[:-3].split(os.sep)
            is_pkg = parts[-1] == "__init__"
            if is_pkg:
                parts = parts[:-1]
            name = ".".join(parts)
            mod = ModuleInfo(name=name, relpath=rel, source=src, tree=tree, is_pkg=is_pkg)
            self.modules[name] = mod
            self.by_relpath[rel] = mod
            self._index_module(mod)

    def _index_module(self, mod: ModuleInfo) -> None:
        pkg = mod.name if mod.is_pkg else mod.name.rpartition(".")[0]

        def handle_import(node: ast.AST):
            if isinstance(node, ast.Import):
                for a in node.names:
                    if a.asname:
                        mod.imports[a.asname] = a.name
                    else:
                        mod.imports[a.name.split(".")[0]] = a.name.split(".")[0]
            elif isinstance(node, ast.ImportFrom):
                if node.level:
                    base_parts = pkg.split(".") if pkg else []
                    if node.level > 1:
                        base_parts = base_parts[: len(base_parts) - (node.level - 1)]
                    base = ".".join(base_parts + ([node.module] if node.module else []))
                else:
                    base = node.module or ""
                for a in node.names:
                    if a.name == "*":
                        continue
                    mod.imports[a.asname or a.name] = f"{base}.{a.name}" if base else a.name

        def visit_body(body: list[ast.stmt], cls: ClassInfo | None, parent: FuncInfo | None):
            for st in body:
                if isinstance(st, (ast.Import, ast.ImportFrom)):
                    if cls is None and parent is None:
                        handle_import(st)
                elif isinstance(st, (ast.FunctionDef, ast.AsyncFunctionDef)):
                    fi = FuncInfo(module=mod, cls=cls, name=st.name, node=st, parent=parent)
                    self.all_functions.append(fi)
                    if parent is not None:
                        pass
                    elif cls is not None:
                        cls.methods.setdefault(st.name, []).append(fi)
                    else:
                        mod.functions.setdefault(st.name, []).append(fi)
                    self._index_nested(fi)
                elif isinstance(st, ast.ClassDef):
                    if cls is None and parent is None:
                        ci = ClassInfo(module=mod, name=st.name, node=st)
                        ci.base_exprs = [b for b in (dotted(_strip_subscript(x)) for x in st.bases) if b]
                        mod.classes[st.name] = ci
                        self.all_classes.append(ci)
                        visit_body(st.body, ci, None)
                elif isinstance(st, ast.If) and _type_checking_split(st) is not None:
                    # typing stubs shadowed at run time by the other branch: only the run-time definitions count
                    stubs, rt_body = _type_checking_split(st)
                    st = ast.If(test=st.test, body=stubs, orelse=rt_body)
                    runtime = set()
                    for x in st.orelse:
                        if isinstance(x, (ast.Import, ast.ImportFrom)):
                            runtime |= {(a.asname or a.name).split(".")[0] for a in x.names}
                        elif isinstance(x, (ast.FunctionDef, ast.ClassDef)):
                            runtime.add(x.name)
                    visit_body([x for x in st.body if not (isinstance(x, (ast.FunctionDef, ast.ClassDef)) and x.name in runtime)], cls, parent)
                    visit_body(st.orelse, cls, parent)
                elif isinstance(st, (ast.If, ast.Try)):
                    # `if TYPE_CHECKING:` imports, try/except imports
                    for sub in _sub_bodies(st):
                        visit_body(sub, cls, parent)
                elif isinstance(st, ast.Assign):
                    for t in st.targets:
                        if isinstance(t, ast.Name):
                            if cls is not None:
                                cls.class_attrs[t.id] = st.value
                            elif parent is None:
                                mod.assigns[t.id] = st.value
                elif isinstance(st, ast.AnnAssign) and isinstance(st.target, ast.Name):
                    if st.value is not None:
                        if cls is not None:
                            cls.class_attrs[st.target.id] = st.value
                        elif parent is None:
                            mod.assigns[st.target.id] = st.value

        visit_body(mod.tree.body, None, None)

    def _index_nested(self, fi: FuncInfo) -> None:
        for n in walk_no_nested(fi.node):
            if isinstance(n, (ast.FunctionDef, ast.AsyncFunctionDef)):
                sub = FuncInfo(module=fi.module, cls=None, name=n.name, node=n, parent=fi)
                self.all_functions.append(sub)
                self._index_nested(sub)

    def _link_classes(self) -> None:
        for ci in self.all_classes:
            for b in ci.base_exprs:
                tgt = self.resolve_dotted(ci.module, b)
                if isinstance(tgt, ClassInfo):
                    ci.bases.append(tgt)
                    tgt.subclasses.append(ci)

    # ------------------------------------------------------------------ lookup
    def canonical(self, dotted_name: str, _depth: int = 0):
        """Resolve a fully qualified dotted name (e.g. ``acryo.alignment.ZNCCAlignment``)
        to FuncInfo / ClassInfo / ModuleInfo / ('const', module, name) / str (external)."""
        if _depth > 12:
            return dotted_name
        if not (dotted_name == PKG or dotted_name.startswith(PKG + ".")):
            return dotted_name
        parts = dotted_name.split(".")
        # longest module prefix
        for i in range(len(parts), 0, -1):
            mname = ".".join(parts[:i])
            if mname in self.modules:
                mod = self.modules[mname]
                rest = parts[i:]
                if not rest:
                    return mod
                return self._member(mod, rest, _depth)
        return dotted_name

    def _member(self, mod: ModuleInfo, rest: list[str], _depth: int):
        head = rest[0]
        obj = None
        if head in mod.classes:
            obj = mod.classes[head]
        elif head in mod.functions:
            obj = _pick_impl(mod.functions[head])
        elif head in mod.imports:
            tgt = self.canonical(mod.imports[head], _depth + 1)
            if isinstance(tgt, ModuleInfo) and len(rest) > 1:
                return self._member(tgt, rest[1:], _depth + 1)
            obj = tgt
            if isinstance(obj, str) and len(rest) > 1:
                return obj + "." + ".".join(rest[1:])
        elif head in mod.assigns:
            val = mod.assigns[head]
            d = dotted(val)
            if d is not None and len(rest) == 1:
                r = self.resolve_dotted(mod, d)
                if r is not None and not isinstance(r, str):
                    return r
            obj = ("const", mod, head)
        else:
            return f"{mod.name}." + ".".join(rest)
        if len(rest) == 1:
            return obj
        if isinstance(obj, ClassInfo):
            m = obj.find_method(rest[1])
            if m is not None and len(rest) == 2:
                return m
            if rest[1] in obj.class_attrs and len(rest) == 2:
                return ("classattr", obj, rest[1])
        if isinstance(obj, ModuleInfo):
            return self._member(obj, rest[1:], _depth + 1)
        return None

    def resolve_dotted(self, mod: ModuleInfo, name: str):
        """Resolve a dotted name as written inside ``mod``."""
        parts = name.split(".")
        head = parts[0]
        if head in mod.classes or head in mod.functions or head in mod.assigns:
            return self._member(mod, parts, 0)
        if head in mod.imports:
            full = mod.imports[head] + ("." + ".".join(parts[1:]) if len(parts) > 1 else "")
            return self.canonical(full)
        return None

    def module(self, relpath: str) -> ModuleInfo:
        m = self.by_relpath.get(relpath)
        if m is None:
            raise AnchorMissing(f"module {relpath} not found")
        return m

    def func(self, anchor: str) -> FuncInfo:
        """``acryo/_utils.py::prepare_affine`` or ``acryo/loader/_base.py::LoaderBase.align``
        (``Class.name@setter`` selects a property setter)."""
        rel, _, q = anchor.partition("::")
        mod = self.module(rel)
        kind = "any"
        if q.endswith("@setter"):
            q, kind = q[: -len("@setter")], "setter"
        if "." in q:
            cname, fname = q.split(".", 1)
            ci = mod.classes.get(cname)
            if ci is None:
                raise AnchorMissing(f"class {rel}::{cname} not found")
            cands = [f for f in ci.methods.get(fname, []) if not f.is_overload]
            if kind == "setter":
                cands = [f for f in cands if f.is_setter]
            else:
                cands = [f for f in cands if not f.is_setter]
            if not cands:
                raise AnchorMissing(f"method {anchor} not found")
            return cands[-1]
        fs = mod.functions.get(q)
        if not fs:
            raise AnchorMissing(f"function {anchor} not found")
        return _pick_impl(fs)

    def cls(self, anchor: str) -> ClassInfo:
        rel, _, q = anchor.partition("::")
        ci = self.module(rel).classes.get(q)
        if ci is None:
            raise AnchorMissing(f"class {anchor} not found")
        return ci

    def const(self, anchor: str) -> ast.expr:
        rel, _, q = anchor.partition("::")
        mod = self.module(rel)
        if "." in q:
            cname, attr = q.split(".", 1)
            ci = mod.classes.get(cname)
            if ci is None or attr not in ci.class_attrs:
                raise AnchorMissing(f"class attribute {anchor} not found")
            return ci.class_attrs[attr]
        if q not in mod.assigns:
            raise AnchorMissing(f"module constant {anchor} not found")
        return mod.assigns[q]

    def functions_in(self, relpath: str) -> list[FuncInfo]:
        mod = self.module(relpath)
        return [f for f in self.all_functions if f.module is mod]

    # ------------------------------------------------------------------ class of self / receivers
    def methods_named(self, name: str) -> list[FuncInfo]:
        out = []
        for ci in self.all_classes:
            for f in ci.methods.get(name, []):
                if not f.is_overload:
                    out.append(f)
        return out

    def resolve_self_method(self, cls: ClassInfo, name: str, include_overrides: bool = True) -> list[FuncInfo]:
        """`self.name` as seen from a method of ``cls``: MRO lookup + every override in subclasses."""
        out: list[FuncInfo] = []
        m = cls.find_method(name)
        if m is not None:
            out.append(m)
        if include_overrides:
            for sub in cls.all_subclasses():
                for f in sub.methods.get(name, []):
                    if not f.is_overload and not f.is_setter and f not in out:
                        out.append(f)
        return out

    def annotation_class(self, mod: ModuleInfo, ann: ast.expr | None) -> ClassInfo | None:
        """Class named by a (possibly string / Optional / subscripted) annotation."""
        if ann is None:
            return None
        if isinstance(ann, ast.Constant) and isinstance(ann.value, str):
            try:
                ann = ast.parse(ann.value, mode="eval").body
            except SyntaxError:
                return None
        if isinstance(ann, ast.BinOp) and isinstance(ann.op, ast.BitOr):
            for side in (ann.left, ann.right):
                c = self.annotation_class(mod, side)
                if c is not None:
                    return c
            return None
        ann = _strip_subscript(ann)
        d = dotted(ann)
        if d is None:
            return None
        r = self.resolve_dotted(mod, d)
        return r if isinstance(r, ClassInfo) else None

    # ------------------------------------------------------------------ call resolution
    def resolve_call(self, fn: FuncInfo, call: ast.Call, local_types: dict[str, ClassInfo] | None = None):
        """Returns (kind, targets)
        kind 'repo'     -> targets: list[FuncInfo]  (precise)
        kind 'class'    -> targets: [ClassInfo]     (constructor call)
        kind 'fallback' -> targets: list[FuncInfo]  (attribute-name over-approximation)
        kind 'external' -> targets: dotted name or None
        """
        return self.resolve_callee(fn, call.func, local_types)

    def resolve_callee(self, fn: FuncInfo, f: ast.expr, local_types: dict[str, ClassInfo] | None = None):
        mod = fn.module
        local_types = local_types or {}
        if isinstance(f, ast.Name):
            # nested def in enclosing functions
            cur: FuncInfo | None = fn
            while cur is not None:
                for sub in self.all_functions:
                    if sub.parent is cur and sub.name == f.id:
                        return "repo", [sub]
                cur = cur.parent
            r = self.resolve_dotted(mod, f.id)
            return self._classify(r, f.id)
        if isinstance(f, ast.Attribute):
            base = f.value
            # super().m()
            if isinstance(base, ast.Call) and isinstance(base.func, ast.Name) and base.func.id == "super":
                owner = _owner_class(fn)
                if owner is not None:
                    for c in owner.mro()[1:]:
                        for m in c.methods.get(f.attr, []):
                            if not m.is_overload and not m.is_setter:
                                return "repo", [m]
                return "external", None
            if isinstance(base, ast.Name) and base.id in ("self", "cls"):
                owner = _owner_class(fn)
                if owner is not None and not _shadowed(fn, base.id):
                    ms = self.resolve_self_method(owner, f.attr)
                    if ms:
                        return "repo", ms
                    # attribute holding a callable (e.g. self._func) -> unknown
                    return "external", None
            d = dotted(f)
            if d is not None:
                head = d.split(".")[0]
                if head in local_types and "." in d:
                    ci = local_types[head]
                    rest = d.split(".")[1:]
                    if len(rest) == 1:
                        ms = self.resolve_self_method(ci, rest[0])
                        if ms:
                            return "repo", ms
                if not _is_local(fn, head):
                    r = self.resolve_dotted(mod, d)
                    if r is not None:
                        return self._classify(r, d)
            # receiver annotated parameter
            if isinstance(base, ast.Name):
                ci = self._param_class(fn, base.id)
                if ci is not None:
                    ms = self.resolve_self_method(ci, f.attr)
                    if ms:
                        return "repo", ms
            # fallback: attribute-name class-hierarchy
            ms = self.methods_named(f.attr)
            if ms and not f.attr.startswith("__"):
                return "fallback", ms
            return "external", d
        return "external", None

    def _classify(self, r, name: str):
        if isinstance(r, FuncInfo):
            return "repo", [r]
        if isinstance(r, ClassInfo):
            return "class", [r]
        if isinstance(r, str):
            return "external", r
        return "external", name if r is None else None

    def _param_class(self, fn: FuncInfo, pname: str) -> ClassInfo | None:
        cur: FuncInfo | None = fn
        while cur is not None:
            for p in cur.params():
                if p.arg == pname:
                    return self.annotation_class(cur.module, p.annotation)
            cur = cur.parent
        return None

    # ------------------------------------------------------------------ digest
    def digest(self) -> str:
        h = hashlib.sha1()
        for rel in sorted(self.by_relpath):
            h.update(rel.encode())
            h.update(self.by_relpath[rel].source.encode())
        return h.hexdigest()


def _strip_subscript(e: ast.expr) -> ast.expr:
    while isinstance(e, ast.Subscript):
        e = e.value
    return e


def _sub_bodies(st: ast.stmt) -> list[list[ast.stmt]]:
    if isinstance(st, ast.If):
        return [st.body, st.orelse]
    if isinstance(st, ast.Try):
        return [st.body, st.orelse, st.finalbody] + [h.body for h in st.handlers]
    return []


def _pick_impl(fs: list[FuncInfo]) -> FuncInfo:
    impl = [f for f in fs if not f.is_overload]
    return (impl or fs)[-1]


def _owner_class(fn: FuncInfo) -> ClassInfo | None:
    cur: FuncInfo | None = fn
    while cur is not None:
        if cur.cls is not None:
            return cur.cls
        cur = cur.parent
    return None


def _shadowed(fn: FuncInfo, name: str) -> bool:
    """True when ``name`` (self/cls) is not the first parameter of the enclosing method
    chain (e.g. a nested function with its own ``self``)."""
    cur: FuncInfo | None = fn
    while cur is not None:
        ps = cur.param_names()
        if cur.cls is not None:
            return not (ps and ps[0] == name)
        if name in ps:
            return True
        cur = cur.parent
    return True


def _is_local(fn: FuncInfo, name: str) -> bool:
    """Is ``name`` bound locally (parameter or assignment target) in fn or its parents?"""
    cur: FuncInfo | None = fn
    while cur is not None:
        if name in cur.param_names():
            return True
        a = cur.node.args
        if (a.vararg and a.vararg.arg == name) or (a.kwarg and a.kwarg.arg == name):
            return True
        for n in walk_no_nested(cur.node):
            if isinstance(n, ast.Name) and n.id == name and isinstance(n.ctx, ast.Store):
                return True
        cur = cur.parent
    return False


def calls_in(fn: FuncInfo, include_nested: bool = False) -> list[ast.Call]:
    it = ast.walk(fn.node) if include_nested else walk_no_nested(fn.node)
    return sorted((n for n in it if isinstance(n, ast.Call)), key=lambda n: (n.lineno, n.col_offset))
