"""E4 - write / mutate / iterate effect summaries, closed over the resolved call graph.

Per function a syntactic, flow-ordered walk classifies every store and in-place mutation by
the *root* it goes through:

  self      the receiver (``self.f = ..``, ``self.f[k] = ..``, ``self.f.append(..)``)
  param:p   a parameter (object handed in by the caller)
  fresh     an object created in this function (constructor / .copy() / replace() / numpy
            allocation results) - not an effect on shared state
  alias     a local bound to ``self.f`` / ``param.attr`` without copying -> counts as the
            aliased root

and records iterations over fields with or without an atomic snapshot.
"""
from __future__ import annotations

import ast
from dataclasses import dataclass, field

from .repo import FuncInfo, Model, dotted, norm_src, walk_no_nested, _owner_class

MUTATORS = {"append", "extend", "update", "pop", "popitem", "insert", "clear", "sort", "fill", "remove", "setdefault",
            "reverse", "add", "discard", "put", "resize", "itemset", "__setitem__", "__delitem__"}
SNAPSHOT_FUNCS = {"list", "tuple", "dict", "sorted", "set", "frozenset"}
FRESH_CALL_ATTRS = {"copy", "replace", "clone", "astype", "concat_with", "concat", "translate", "translate_internal", "rotate_by",
                    "rotate_by_rotvec", "rotate_by_rotvec_internal", "with_columns", "filter", "head", "tail", "sample", "sort",
                    "subset", "with_features", "drop_features", "from_dataframe", "to_dataframe", "select", "drop", "compute", "tolist",
                    "with_scale", "empty"}
NP_ALLOC = {"zeros", "ones", "empty", "array", "asarray", "stack", "concatenate", "full", "zeros_like", "ones_like", "empty_like",
            "arange", "eye", "atleast_2d", "atleast_1d"}


@dataclass
class Effect:
    kind: str  # store | mutate | iterate
    root: str  # self | param:<p> | global:<name> | class:<C>
    field: str  # attribute name ('' for the object itself)
    node: ast.AST
    fn: FuncInfo
    how: str = ""
    snapshot: bool = False

    def describe(self) -> str:
        return f"{self.kind} {self.root}{'.' + self.field if self.field else ''} via `{self.how}` at {self.fn.loc(self.node)}"


@dataclass
class Summary:
    fn: FuncInfo
    effects: list = field(default_factory=list)
    calls: list = field(default_factory=list)  # (callee FuncInfo list, receiver-root, arg roots, node)


class EffectAnalysis:
    def __init__(self, model: Model):
        self.model = model
        self._sum: dict[FuncInfo, Summary] = {}

    # ------------------------------------------------------------------ local summary
    def summary(self, fn: FuncInfo) -> Summary:
        s = self._sum.get(fn)
        if s is None:
            s = self._analyse(fn)
            self._sum[fn] = s
        return s

    def _analyse(self, fn: FuncInfo) -> Summary:
        S = Summary(fn)
        params = fn.param_names()
        selfname = params[0] if (fn.cls is not None and params and not fn.is_staticmethod and not fn.is_classmethod) else None
        # root of each local name: 'self', 'param:p', 'fresh', ('alias', root, field)
        roots: dict[str, object] = {}
        if selfname:
            roots[selfname] = "self"
        for p in params:
            if p != selfname:
                roots[p] = f"param:{p}"
        a = fn.node.args
        if a.vararg:
            roots[a.vararg.arg] = f"param:{a.vararg.arg}"
        if a.kwarg:
            roots[a.kwarg.arg] = f"param:{a.kwarg.arg}"
        globals_declared: set[str] = set()
        # aliases of fields of fresh objects: ('out','_images') -> ('self','_images')
        field_alias: dict[tuple, tuple] = {}

        def root_of(e: ast.expr):
            """(root, field) the expression's object is reachable from, or ('fresh','')."""
            if isinstance(e, ast.Name):
                r = roots.get(e.id)
                if r is None:
                    if e.id in globals_declared:
                        return (f"global:{e.id}", "")
                    res = self.model.resolve_dotted(fn.module, e.id)
                    if res is not None and not isinstance(res, str) and isinstance(res, tuple) and res[0] == "const":
                        return (f"global:{e.id}", "")
                    return ("unknown", "")
                if isinstance(r, tuple):
                    return (r[1], r[2])
                return (r, "")
            if isinstance(e, ast.Attribute):
                if isinstance(e.value, ast.Name):
                    key = (e.value.id, e.attr)
                    if key in field_alias:
                        return field_alias[key]
                base, f0 = root_of(e.value)
                if base in ("fresh", "unknown"):
                    return (base, "")
                return (base, f0 or e.attr)
            if isinstance(e, ast.Subscript):
                return root_of(e.value)
            if isinstance(e, ast.Call):
                return ("fresh", "") if self._is_fresh_call(fn, e) else ("unknown", "")
            if isinstance(e, (ast.List, ast.Tuple, ast.Dict, ast.Set, ast.ListComp, ast.DictComp, ast.SetComp, ast.GeneratorExp,
                              ast.Constant, ast.BinOp, ast.JoinedStr, ast.Compare, ast.BoolOp, ast.UnaryOp)):
                return ("fresh", "")
            if isinstance(e, ast.IfExp):
                a1, a2 = root_of(e.body), root_of(e.orelse)
                return a1 if a1[0] not in ("fresh", "unknown") else a2
            return ("unknown", "")

        def bind(target: ast.expr, value: ast.expr | None):
            if isinstance(target, ast.Name):
                if value is None:
                    roots[target.id] = "unknown"
                    return
                r, f0 = root_of(value)
                if r == "fresh":
                    roots[target.id] = "fresh"
                elif r == "unknown":
                    roots[target.id] = "unknown"
                else:
                    # plain alias of a shared object (self.f, param, param.attr)
                    roots[target.id] = ("alias", r, f0)
            elif isinstance(target, (ast.Tuple, ast.List)):
                for t in target.elts:
                    bind(t.value if isinstance(t, ast.Starred) else t, None)

        def record_store(target: ast.expr, value: ast.expr | None, node):
            if isinstance(target, ast.Attribute):
                base_root, base_field = root_of(target.value)
                if base_root in ("fresh",):
                    # field of a fresh object: remember aliasing of shared containers
                    if isinstance(target.value, ast.Name) and value is not None:
                        r, f0 = root_of(value)
                        if r not in ("fresh", "unknown"):
                            field_alias[(target.value.id, target.attr)] = (r, f0)
                        else:
                            field_alias.pop((target.value.id, target.attr), None)
                    return
                if base_root == "unknown":
                    return
                S.effects.append(Effect("store", base_root, base_field or target.attr, node, fn, norm_src(target) + " = ..."))
            elif isinstance(target, ast.Subscript):
                r, f0 = root_of(target.value)
                if r in ("fresh", "unknown"):
                    return
                S.effects.append(Effect("mutate", r, f0, node, fn, norm_src(target) + " = ..."))
            elif isinstance(target, (ast.Tuple, ast.List)):
                for t in target.elts:
                    record_store(t, None, node)

        def visit_expr(e: ast.AST):
            for n in ast.walk(e):
                if isinstance(n, ast.Call):
                    f = n.func
                    if isinstance(f, ast.Attribute) and f.attr in MUTATORS:
                        r, f0 = root_of(f.value)
                        if r not in ("fresh", "unknown"):
                            S.effects.append(Effect("mutate", r, f0, n, fn, norm_src(f) + "(...)"))
                    for k in n.keywords:
                        if k.arg == "out":
                            r, f0 = root_of(k.value)
                            if r not in ("fresh", "unknown"):
                                S.effects.append(Effect("mutate", r, f0, n, fn, "out=" + norm_src(k.value)))
                    if isinstance(f, ast.Name) and f.id == "iter" and n.args:
                        record_iter(n.args[0], n)
                    self._record_call(S, fn, n, root_of)
                elif isinstance(n, (ast.ListComp, ast.GeneratorExp, ast.SetComp, ast.DictComp)):
                    for g in n.generators:
                        record_iter(g.iter, n)
                elif isinstance(n, ast.NamedExpr):
                    bind(n.target, n.value)

        def record_iter(it: ast.expr, node):
            snap = False
            inner = it
            if isinstance(it, ast.Call) and isinstance(it.func, ast.Name) and it.func.id in SNAPSHOT_FUNCS and it.args:
                snap = True
                inner = it.args[0]
            if isinstance(it, ast.Call) and isinstance(it.func, ast.Attribute) and it.func.attr == "copy":
                snap = True
                inner = it.func.value
            if isinstance(inner, ast.Call) and isinstance(inner.func, ast.Name) and inner.func.id == "iter" and inner.args:
                inner = inner.args[0]
            if isinstance(inner, ast.Call) and isinstance(inner.func, ast.Attribute) and inner.func.attr in ("values", "items", "keys"):
                inner = inner.func.value
            r, f0 = root_of(inner)
            if r in ("fresh", "unknown") or not f0:
                return
            S.effects.append(Effect("iterate", r, f0, node, fn, norm_src(it), snapshot=snap))

        def visit_stmts(stmts):
            for st in stmts:
                if isinstance(st, (ast.FunctionDef, ast.AsyncFunctionDef, ast.ClassDef)):
                    continue
                if isinstance(st, ast.Global):
                    globals_declared.update(st.names)
                    continue
                if isinstance(st, ast.Assign):
                    visit_expr(st.value)
                    for t in st.targets:
                        record_store(t, st.value, st)
                        bind(t, st.value)
                    # store to a declared global
                    for t in st.targets:
                        if isinstance(t, ast.Name) and t.id in globals_declared:
                            S.effects.append(Effect("store", f"global:{t.id}", "", st, fn, norm_src(t) + " = ..."))
                elif isinstance(st, ast.AnnAssign):
                    if st.value is not None:
                        visit_expr(st.value)
                        record_store(st.target, st.value, st)
                        bind(st.target, st.value)
                elif isinstance(st, ast.AugAssign):
                    visit_expr(st.value)
                    t = st.target
                    if isinstance(t, ast.Name):
                        r = roots.get(t.id)
                        if isinstance(r, tuple):
                            S.effects.append(Effect("mutate", r[1], r[2], st, fn, norm_src(st)))
                        elif isinstance(r, str) and r.startswith("param:"):
                            S.effects.append(Effect("mutate", r, "", st, fn, norm_src(st)))
                        elif t.id in globals_declared:
                            S.effects.append(Effect("store", f"global:{t.id}", "", st, fn, norm_src(st)))
                    elif isinstance(t, ast.Attribute):
                        br, bf = root_of(t.value)
                        if br not in ("fresh", "unknown"):
                            S.effects.append(Effect("store", br, bf or t.attr, st, fn, norm_src(st)))
                    elif isinstance(t, ast.Subscript):
                        r, f0 = root_of(t.value)
                        if r not in ("fresh", "unknown"):
                            S.effects.append(Effect("mutate", r, f0, st, fn, norm_src(st)))
                elif isinstance(st, ast.For):
                    visit_expr(st.iter)
                    record_iter(st.iter, st)
                    bind(st.target, None)
                    if isinstance(st.target, ast.Name):
                        # elements of a shared container are shared too
                        r, f0 = root_of(st.iter) if not isinstance(st.iter, ast.Call) else ("unknown", "")
                        if r not in ("fresh", "unknown"):
                            roots[st.target.id] = ("alias", r, f0)
                    visit_stmts(st.body)
                    visit_stmts(st.orelse)
                elif isinstance(st, ast.While):
                    visit_expr(st.test)
                    visit_stmts(st.body)
                    visit_stmts(st.orelse)
                elif isinstance(st, ast.If):
                    visit_expr(st.test)
                    visit_stmts(st.body)
                    visit_stmts(st.orelse)
                elif isinstance(st, ast.With):
                    for it in st.items:
                        visit_expr(it.context_expr)
                        if it.optional_vars is not None:
                            bind(it.optional_vars, it.context_expr)
                    visit_stmts(st.body)
                elif isinstance(st, ast.Try):
                    visit_stmts(st.body)
                    for h in st.handlers:
                        visit_stmts(h.body)
                    visit_stmts(st.orelse)
                    visit_stmts(st.finalbody)
                elif isinstance(st, ast.Delete):
                    for t in st.targets:
                        if isinstance(t, ast.Subscript):
                            r, f0 = root_of(t.value)
                            if r not in ("fresh", "unknown"):
                                S.effects.append(Effect("mutate", r, f0, st, fn, norm_src(st)))
                else:
                    for ch in ast.iter_child_nodes(st):
                        if isinstance(ch, ast.expr):
                            visit_expr(ch)

        visit_stmts(fn.node.body)
        return S

    def _is_fresh_call(self, fn: FuncInfo, call: ast.Call) -> bool:
        f = call.func
        kind, tg = self.model.resolve_callee(fn, f)
        if kind == "class":
            return True
        if isinstance(f, ast.Attribute):
            if f.attr in FRESH_CALL_ATTRS:
                return True
            if f.attr == "__class__":
                return True
            d = dotted(f)
            if d and d.split(".")[0] in ("np", "numpy", "da", "pl", "xp") and f.attr in NP_ALLOC | {"DataFrame", "Series", "from_array"}:
                return True
        if isinstance(f, ast.Attribute) and isinstance(f.value, ast.Attribute) and f.value.attr == "__class__":
            return True
        if isinstance(f, ast.Name) and f.id in ("list", "dict", "tuple", "set", "sorted", "type"):
            return True
        if isinstance(f, ast.Call) and isinstance(f.func, ast.Name) and f.func.id == "type":
            return True
        return False

    def _record_call(self, S: Summary, fn: FuncInfo, call: ast.Call, root_of):
        kind, tg = self.model.resolve_call(fn, call)
        if kind not in ("repo", "fallback", "class"):
            return
        recv = None
        if isinstance(call.func, ast.Attribute):
            recv = root_of(call.func.value)
        args = [root_of(a.value if isinstance(a, ast.Starred) else a) for a in call.args]
        kwargs = {k.arg: root_of(k.value) for k in call.keywords if k.arg}
        targets = tg
        if kind == "class":
            init = tg[0].find_method("__init__")
            targets = [init] if init is not None else []
            recv = ("fresh", "")
        S.calls.append((kind, targets, recv, args, kwargs, call))

    # ------------------------------------------------------------------ closure
    def closed_effects(self, fn: FuncInfo, depth: int = 4, precise_only: bool = True, _seen=None) -> list[Effect]:
        """Effects of fn and of its callees, expressed in terms of fn's own roots."""
        _seen = _seen or set()
        if fn in _seen:
            return []
        _seen = _seen | {fn}
        S = self.summary(fn)
        out = list(S.effects)
        if depth <= 0:
            return out
        for kind, targets, recv, args, kwargs, call in S.calls:
            if kind == "fallback" and precise_only:
                continue
            for t in targets:
                if t is None or t.is_overload:
                    continue
                sub = self.closed_effects(t, depth - 1, precise_only, _seen)
                if not sub:
                    continue
                pn = t.param_names()
                is_method = t.cls is not None and not t.is_staticmethod and t.parent is None
                pmap: dict[str, tuple] = {}
                plist = pn[1:] if (is_method and (recv is not None or kind == "class")) else pn
                if is_method and not (recv is not None or kind == "class"):
                    plist = pn
                for i, a in enumerate(args):
                    if i < len(plist):
                        pmap[plist[i]] = a
                for k, v in kwargs.items():
                    pmap[k] = v
                for e in sub:
                    if e.root == "self":
                        if t.is_classmethod:
                            continue
                        r = recv if recv is not None else ("unknown", "")
                        if t.name == "__init__" and kind == "class":
                            continue
                        if r[0] in ("fresh", "unknown"):
                            continue
                        out.append(Effect(e.kind, r[0], r[1] or e.field, call, fn, f"{norm_src(call.func)}(...) -> {e.describe()}", e.snapshot))
                    elif e.root.startswith("param:"):
                        p = e.root[6:]
                        r = pmap.get(p)
                        if r is None or r[0] in ("fresh", "unknown"):
                            continue
                        out.append(Effect(e.kind, r[0], r[1] or e.field, call, fn, f"{norm_src(call.func)}(...) -> {e.describe()}", e.snapshot))
                    elif e.root.startswith(("global:", "class:")):
                        out.append(e)
        return out
