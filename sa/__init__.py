"""Static-analysis machinery for deciding properties C01-C20 of hanjinliu/acryo.

Everything here inspects the *source* of /repo/acryo (via ``ast``); nothing in this
package imports or executes the code under analysis.
"""
