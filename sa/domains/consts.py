"""Representative evaluation on constants: selected attributes / parameters are bound to concrete constants and comparisons, membership tests and boolean
operators on constants are evaluated; everything else is opaque.  Used to decide *dispatch tables* ("which callee handles which file suffix") independently
of how the test is spelled (`x in (a, b)`, `x == a or x == b`, `x != a and x != b` with swapped branches, a lookup in a set, ...)."""
from __future__ import annotations

import ast

from ..absint import TOP, Const, Domain, ListOf, Tup


class ConstDomain(Domain):
    name = "consts"

    def __init__(self, attr_values=None, param_values=None):
        self.attr_values = attr_values or {}   # attribute name -> python value (whatever the object)
        self.param_values = param_values or {}

    def seed_param(self, interp, fn, arg):
        if arg.arg in self.param_values:
            return Const(self.param_values[arg.arg])
        return TOP

    def attr(self, interp, val, name, node):
        if name in self.attr_values:
            return Const(self.attr_values[name])
        return NotImplemented

    def call_external(self, interp, name, recv, args, kwargs, node):
        last = (name or "").rsplit(".", 1)[-1]
        if last in ("lower", "upper", "strip") and isinstance(recv, Const) and isinstance(recv.value, str) and not args:
            return Const(getattr(recv.value, last)())
        if last in ("startswith", "endswith") and isinstance(recv, Const) and isinstance(recv.value, str) and args and isinstance(args[0], Const):
            return Const(getattr(recv.value, last)(args[0].value))
        return TOP

    @staticmethod
    def _py(v):
        if isinstance(v, Const):
            return True, v.value
        if isinstance(v, Tup) and all(isinstance(x, Const) for x in v.items):
            return True, tuple(x.value for x in v.items)
        return False, None

    def compare(self, interp, node, vals):
        if len(node.ops) != 1 or len(vals) != 2:
            return TOP
        (ka, a), (kb, b) = self._py(vals[0]), self._py(vals[1])
        if not (ka and kb):
            return TOP
        op = node.ops[0]
        try:
            if isinstance(op, ast.Eq):
                return Const(a == b)
            if isinstance(op, ast.NotEq):
                return Const(a != b)
            if isinstance(op, ast.In):
                return Const(a in b)
            if isinstance(op, ast.NotIn):
                return Const(a not in b)
            if isinstance(op, ast.Is):
                return Const(a is b)
            if isinstance(op, ast.IsNot):
                return Const(a is not b)
        except Exception:
            return TOP
        return TOP

    def unary(self, interp, op, val, node):
        if isinstance(op, ast.Not) and isinstance(val, Const):
            return Const(not val.value)
        return TOP

    def boolop(self, interp, node, vals):
        if all(isinstance(v, Const) for v in vals):
            out = vals[0].value
            for v in vals[1:]:
                out = (out and v.value) if isinstance(node.op, ast.And) else (out or v.value)
            return Const(out)
        return TOP


def dispatch_table(model, fn, attr_name, values, callee_names, depth=0):
    """{value: sorted callee names reached} - evaluate ``fn`` once per value with every ``<anything>.attr_name`` equal to that value and record which of the
    methods named in ``callee_names`` are called (on any receiver)."""
    from ..absint import Interp
    from ..repo import dotted, norm_src
    out = {}
    for v in values:
        dom = ConstDomain(attr_values={attr_name: v})
        it = Interp(model, dom, depth=depth)
        seen = []

        def on_call(interp, f, node, callee, args, kwargs, env):
            if f is fn:
                nm = (dotted(node.func) or norm_src(node.func)).rsplit(".", 1)[-1]
                if nm in callee_names:
                    seen.append(nm)

        it.on_call.append(on_call)
        try:
            it.run(fn)
        except Exception as e:  # pragma: no cover
            out[v] = ["<error %r>" % (e,)]
            continue
        out[v] = sorted(set(seen))
    return out
