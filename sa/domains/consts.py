"""Representative evaluation on constants: selected attributes / parameters are bound to concrete constants and comparisons, membership tests and boolean
operators on constants are evaluated; everything else is opaque.  Used to decide *dispatch tables* ("which callee handles which file suffix") independently
of how the test is spelled (`x in (a, b)`, `x == a or x == b`, `x != a and x != b` with swapped branches, a lookup in a set, ...)."""
from __future__ import annotations

import ast

from ..absint import TOP, Const, Domain, ListOf, Tup


class ConstDomain(Domain):
    name = "consts"

    def __init__(self, attr_values=None, param_values=None):
        self.attr_values = attr_values or {}   # attribute name -> python value (whatever the object)
        self.param_values = param_values or {}

    def seed_param(self, interp, fn, arg):
        if arg.arg in self.param_values:
            return Const(self.param_values[arg.arg])
        return TOP

    def attr(self, interp, val, name, node):
        if name in self.attr_values:
            return Const(self.attr_values[name])
        if isinstance(val, Const) and isinstance(val.value, str) and name in ("translate", "lower", "upper", "strip", "startswith", "endswith", "join"):
            from ..absint import ExtRef
            return ExtRef("value." + name, recv=val)
        return NotImplemented

    def call_external(self, interp, name, recv, args, kwargs, node):
        last = (name or "").rsplit(".", 1)[-1]
        if last == "range" and args and all(isinstance(a, Const) and isinstance(a.value, int) for a in args) and len(args) <= 3:
            try:
                r = range(*[a.value for a in args])
                if len(r) <= 16:
                    return Tup([Const(i) for i in r])
            except Exception:
                return TOP
        if last == "len" and args:
            ok, v = self._py(args[0])
            if ok and isinstance(v, (tuple, str)):
                return Const(len(v))
        if last in ("lower", "upper", "strip") and isinstance(recv, Const) and isinstance(recv.value, str) and not args:
            return Const(getattr(recv.value, last)())
        if last in ("startswith", "endswith") and isinstance(recv, Const) and isinstance(recv.value, str) and args and isinstance(args[0], Const):
            return Const(getattr(recv.value, last)(args[0].value))
        # translation tables on constant strings (constant folding with the analyser's own str type; nothing of the analysed program is executed)
        if last == "maketrans" and args:
            from ..absint import DictV
            if all(isinstance(a, Const) and isinstance(a.value, str) for a in args) and len(args) in (2, 3):
                try:
                    return Const(str.maketrans(*[a.value for a in args]))
                except Exception:
                    return TOP
            if len(args) == 1 and isinstance(args[0], DictV) and all(isinstance(v, Const) for v in args[0].items.values()):
                try:
                    return Const(str.maketrans({k: v.value for k, v in args[0].items.items() if not str(k).startswith("$")}))
                except Exception:
                    return TOP
        if last == "translate" and isinstance(recv, Const) and isinstance(recv.value, str) and args and isinstance(args[0], Const) and isinstance(args[0].value, dict):
            return Const(recv.value.translate(args[0].value))
        if last == "join" and isinstance(recv, Const) and isinstance(recv.value, str) and args:
            ok, v = self._py(args[0])
            if ok and all(isinstance(x, str) for x in v):
                return Const(recv.value.join(v))
        return TOP

    def subscript(self, interp, val, index_node, index_val, node):
        if isinstance(val, Const) and isinstance(val.value, (str, tuple)):
            if isinstance(index_node, ast.Slice):
                try:
                    parts = [None if p_ is None else ast.literal_eval(p_) for p_ in (index_node.lower, index_node.upper, index_node.step)]
                    return Const(val.value[slice(*parts)])
                except Exception:
                    return TOP
            if isinstance(index_val, Const) and isinstance(index_val.value, int):
                try:
                    return Const(val.value[index_val.value])
                except Exception:
                    return TOP
        return NotImplemented

    @staticmethod
    def _py(v):
        if isinstance(v, Const):
            return True, v.value
        if isinstance(v, Tup) and all(isinstance(x, Const) for x in v.items):
            return True, tuple(x.value for x in v.items)
        return False, None

    def compare(self, interp, node, vals):
        if len(node.ops) != 1 or len(vals) != 2:
            return TOP
        (ka, a), (kb, b) = self._py(vals[0]), self._py(vals[1])
        if not (ka and kb):
            return TOP
        op = node.ops[0]
        try:
            if isinstance(op, ast.Eq):
                return Const(a == b)
            if isinstance(op, ast.NotEq):
                return Const(a != b)
            if isinstance(op, ast.In):
                return Const(a in b)
            if isinstance(op, ast.NotIn):
                return Const(a not in b)
            if isinstance(op, ast.Is):
                return Const(a is b)
            if isinstance(op, ast.IsNot):
                return Const(a is not b)
        except Exception:
            return TOP
        return TOP

    def binop(self, interp, op, l, r, node):
        if isinstance(l, Const) and isinstance(r, Const) and all(isinstance(x.value, (int, float)) and not isinstance(x.value, bool) for x in (l, r)):
            import operator as _op
            tbl = {ast.Add: _op.add, ast.Sub: _op.sub, ast.Mult: _op.mul, ast.FloorDiv: _op.floordiv, ast.Mod: _op.mod, ast.Div: _op.truediv, ast.Pow: _op.pow}
            f = tbl.get(type(op))
            if f is not None:
                try:
                    return Const(f(l.value, r.value))
                except Exception:
                    return TOP
        return TOP

    def unary(self, interp, op, val, node):
        if isinstance(op, ast.Not) and isinstance(val, Const):
            return Const(not val.value)
        return TOP

    def boolop(self, interp, node, vals):
        if all(isinstance(v, Const) for v in vals):
            out = vals[0].value
            for v in vals[1:]:
                out = (out and v.value) if isinstance(node.op, ast.And) else (out or v.value)
            return Const(out)
        return TOP


def dispatch_table(model, fn, attr_name, values, callee_names, depth=0):
    """{value: sorted callee names reached} - evaluate ``fn`` once per value with every ``<anything>.attr_name`` equal to that value and record which of the
    methods named in ``callee_names`` are called (on any receiver)."""
    from ..absint import Interp
    from ..repo import dotted, norm_src
    out = {}
    for v in values:
        dom = ConstDomain(attr_values={attr_name: v})
        it = Interp(model, dom, depth=depth)
        seen = []

        def on_call(interp, f, node, callee, args, kwargs, env):
            if f is fn:
                nm = (dotted(node.func) or norm_src(node.func)).rsplit(".", 1)[-1]
                if nm in callee_names:
                    seen.append(nm)

        it.on_call.append(on_call)
        try:
            it.run(fn)
        except Exception as e:  # pragma: no cover
            out[v] = ["<error %r>" % (e,)]
            continue
        out[v] = sorted(set(seen))
    return out
