"""T - symbolic terms ("which value, computed from which element, ends up where").

Every value is a first-order term over the function's parameters:

    T("param", name)                         a parameter
    T("attr", base, name)                    base.name
    T("call", callee, args, kwargs)          callee(*args, **kwargs)        (callee: a term or T("ext", dotted name))
    T("elem", it)                            the generic element of iterating `it`
    T("item", v, k)                          component k of unpacking v
    T("sub", base, index)                    base[index]
    T("op", opname, l, r) / T("neg", v) ...  arithmetic

Lists are the interpreter's ListOf(generic element): a list built in a loop / comprehension over an iterable X is a term in T("elem", X), so "key and value
of one result entry derive from the same element of the same iterable" is a comparison of sub-terms - however the loop is spelled (append loop, comprehension,
list of pairs that is split again, helper function).  dask's compute is transparent element-wise (T("computed", e)).

Limits (stated in DESIGN): a generic element forgets order and filtering, so re-ordering / filtering one of two zipped lists is not seen here; the callers add
the syntactic necessary condition that no re-ordering operation occurs.
"""
from __future__ import annotations

import ast
from dataclasses import dataclass

from ..absint import TOP, Const, DictV, Domain, ListOf, Tup
from ..repo import norm_src


@dataclass(frozen=True)
class T:
    op: str
    args: tuple = ()

    @property
    def maybe_none(self):
        # parameters (seeded as given), constructed objects and arithmetic results are not None; the result of a call, an attribute or an element may be
        return self.op in ("call", "attr", "elem", "item", "sub", "computed", "ext", "opaque", "top")

    def __repr__(self):
        if self.op == "param":
            return str(self.args[0])
        if self.op == "ext":
            return str(self.args[0])
        if self.op == "attr":
            return f"{self.args[0]!r}.{self.args[1]}"
        if self.op == "call":
            kw = ", ".join(f"{k}={v!r}" for k, v in self.args[2])
            a = ", ".join(repr(x) for x in self.args[1])
            return f"{self.args[0]!r}({', '.join(x for x in (a, kw) if x)})"
        if self.op == "elem":
            return f"elem({self.args[0]!r})"
        if self.op == "item":
            return f"{self.args[0]!r}.{self.args[1]}"
        return f"{self.op}({', '.join(repr(a) for a in self.args)})"


def freeze(v):
    """Hashable form of an interpreter value."""
    if isinstance(v, T):
        return v
    if isinstance(v, Const):
        return T("const", (repr(v.value),))
    if isinstance(v, Tup):
        return T("tuple", tuple(freeze(x) for x in v.items))
    if isinstance(v, ListOf):
        return T("listof", (freeze(v.elem),))
    if isinstance(v, DictV):
        return T("dict", tuple(sorted((k, freeze(x)) for k, x in v.items.items())))
    if v is TOP:
        return T("top")
    nm = getattr(v, "name", None)
    if type(v).__name__ == "ExtRef" and isinstance(nm, str):
        return T("ext", (nm,))
    return T("opaque", (type(v).__name__,))


def subterms(t):
    if isinstance(t, T):
        yield t
        for a in t.args:
            if isinstance(a, T):
                yield from subterms(a)
            elif isinstance(a, tuple):
                for x in a:
                    if isinstance(x, T):
                        yield from subterms(x)
                    elif isinstance(x, tuple):
                        for y in x:
                            if isinstance(y, T):
                                yield from subterms(y)


def calls_of(t, attr_name=None, ext_suffix=None):
    out = []
    for s in subterms(t):
        if s.op == "call":
            c = s.args[0]
            if attr_name is not None and isinstance(c, T) and c.op == "attr" and c.args[1] == attr_name:
                out.append(s)
            if ext_suffix is not None and isinstance(c, T) and c.op == "ext" and str(c.args[0]).endswith(ext_suffix):
                out.append(s)
    return out


def callee_name(t):
    """Last name of the callee of a call term (`np.fft.ifftshift(x)`, `backend.ifftshift(x)` -> "ifftshift")."""
    if isinstance(t, T) and t.op == "call" and isinstance(t.args[0], T):
        c = t.args[0]
        if c.op == "ext":
            return str(c.args[0]).rsplit(".", 1)[-1]
        if c.op == "attr":
            return c.args[1]
    return None


METHOD_WRAPPERS = {"compute", "rechunk", "persist", "astype", "copy", "squeeze", "ravel", "tolist"}


def strip(t, wrappers=("computed",), ext_wrappers=("asnumpy", "asarray", "compute")):
    """Remove value-preserving wrappers at the top of a term."""
    while isinstance(t, T):
        if t.op in wrappers and t.args:
            t = t.args[0]
            continue
        if t.op == "call" and isinstance(t.args[0], T):
            c = t.args[0]
            nm = c.args[0] if c.op == "ext" else (c.args[1] if c.op == "attr" else None)
            last = str(nm).rsplit(".", 1)[-1] if nm is not None else None
            if last in ext_wrappers:
                if c.op == "attr" and last in METHOD_WRAPPERS:
                    t = c.args[0]  # x.compute(), x.rechunk(spec), x.astype(t): the value is the receiver
                    continue
                if len(t.args[1]) >= 1:
                    t = t.args[1][0]  # asnumpy(x), np.asarray(x)
                    continue
        break
    return t


class TermDomain(Domain):
    name = "terms"

    def __init__(self, transparent_compute=True, summarise=(), assume_isinstance=None):
        self.assume_isinstance = dict(assume_isinstance or {})  # parameter name -> class name the parameter is assumed to be an instance of
        self.transparent_compute = transparent_compute
        self.summarise = set(summarise)  # repo functions kept as uninterpreted symbols: f(args) -> T("call", ext f, args)

    def type_test(self, interp, name, args, node):
        """`isinstance(p, C)` for a parameter p assumed to be an instance of one class (a type case of the function under analysis)."""
        if name != "builtins.isinstance" or len(args) != 2 or not self.assume_isinstance:
            return NotImplemented
        v, c = args
        cname = getattr(getattr(c, "cls", None), "name", None) or (str(getattr(c, "name", "")).rsplit(".", 1)[-1] if getattr(c, "name", None) else None)
        if cname is None:
            return NotImplemented
        if isinstance(v, T) and v.op == "param" and v.args[0] in self.assume_isinstance:
            return Const(self.assume_isinstance[v.args[0]] == cname)
        if isinstance(v, (Tup, ListOf, Const, DictV)) and cname in self.assume_isinstance.values():
            return Const(False)
        return NotImplemented

    def call_repo(self, interp, funcs, bound, args, kwargs, node):
        names = {f.name for f in funcs}
        if len(names) == 1 and names <= self.summarise:
            a, kw = self._args(args, kwargs)
            return T("call", (T("ext", (next(iter(names)),)), a, kw))
        return NotImplemented

    def seed_param(self, interp, fn, arg):
        return T("param", (arg.arg,))

    def seed_field(self, interp, obj, name, node):
        return T("attr", (T("param", ("self",)), name))

    def attr(self, interp, val, name, node):
        if isinstance(val, T):
            return T("attr", (val, name))
        return NotImplemented

    def _args(self, args, kwargs):
        return tuple(freeze(a) for a in args), tuple(sorted((k, freeze(v)) for k, v in kwargs.items() if not k.startswith("$")))

    def call_value(self, interp, callee, args, kwargs, node):
        a, kw = self._args(args, kwargs)
        return T("call", (freeze(callee), a, kw))

    def call_external(self, interp, name, recv, args, kwargs, node):
        last = (name or "").rsplit(".", 1)[-1]
        if self.transparent_compute and last == "compute" and name and not name.startswith("value."):
            # dask.compute(a, b, ...) -> tuple of the computed arguments, element-wise on lists
            def comp(v):
                if isinstance(v, ListOf):
                    return ListOf(comp(v.elem))
                if isinstance(v, Tup):
                    return Tup([comp(x) for x in v.items])
                return T("computed", (freeze(v),))
            return Tup([comp(a) for a in args])
        if name == "builtins.sum" and args and isinstance(args[0], ListOf):
            init = freeze(args[1]) if len(args) > 1 else T("const", ("0",))
            return T("fold", ("Add", init, freeze(args[0].elem)))
        a, kw = self._args(args, kwargs)
        if name and name.startswith("value.") and recv is not None:
            return T("call", (T("attr", (freeze(recv), last)), a, kw))
        return T("call", (T("ext", (name or "?",)), a, kw))

    def construct(self, interp, cls, args, kwargs, node):
        a, kw = self._args(args, kwargs)
        return T("new", (cls.name, a, kw))

    def binop(self, interp, op, l, r, node):
        return T("op", (type(op).__name__, freeze(l), freeze(r)))

    def unary(self, interp, op, val, node):
        return T("un", (type(op).__name__, freeze(val)))

    def compare(self, interp, node, vals):
        # constants compare as in Python (`axis == "y"` with the default axis)
        if len(vals) == 2 and len(node.ops) == 1 and all(isinstance(v, Const) for v in vals):
            import operator as _op
            fn = {ast.Eq: _op.eq, ast.NotEq: _op.ne, ast.Lt: _op.lt, ast.LtE: _op.le, ast.Gt: _op.gt, ast.GtE: _op.ge}.get(type(node.ops[0]))
            if fn is not None:
                try:
                    return Const(bool(fn(vals[0].value, vals[1].value)))
                except Exception:
                    return TOP
        return TOP

    def boolop(self, interp, node, vals):
        return T("bool", (type(node.op).__name__,) + tuple(freeze(v) for v in vals))

    def truth(self, interp, val):
        if isinstance(val, T):
            return None
        return super().truth(interp, val)

    def subscript(self, interp, val, index_node, index_val, node):
        if isinstance(val, T):
            return T("sub", (val, norm_src(index_node)))
        return NotImplemented

    def elem(self, interp, val, node):
        if isinstance(val, T):
            return T("elem", (val,))
        return TOP

    def unpack(self, interp, val, n, node):
        if isinstance(val, T):
            return [T("item", (val, i)) for i in range(n)]
        return NotImplemented

    def join(self, interp, a, b):
        # accumulation in a loop: `acc = init; for ...: acc = acc OP x`  ->  fold(OP, init, x)   (the same value as `sum(x for ...)` for OP = Add, init = 0)
        fa, fb = freeze(a), freeze(b)
        if fa == fb:
            return a
        for x, y in ((fa, fb), (fb, fa)):
            if y.op == "op" and len(y.args) == 3 and y.args[1] == x and x.op != "fold":
                return T("fold", (y.args[0], x, y.args[2]))
            if x.op == "fold" and y.op == "op" and len(y.args) == 3 and y.args[0] == x.args[0] and y.args[1] == x and y.args[2] == x.args[2]:
                return x
        if isinstance(a, T) and isinstance(b, T):
            return TOP
        return super().join(interp, a, b)
