"""Array-shape layer on top of the affine domain (DESIGN 4.3/4.4).

``Arr``  an n-d array with a symbolic per-axis shape, the left padding accumulated since the
         base image (``lpad``), the index of zero displacement for correlation landscapes
         (``origin``) and an FFT layout tag.
``Vec3`` a small numpy vector with explicit per-axis components (forms).
``Seq``  a 1-d affine sequence first + k*step, k in [0, n)  (arange / linspace grids).
"""
from __future__ import annotations

import ast
from dataclasses import dataclass, replace
from fractions import Fraction

from ..absint import TOP, Const, DictV, ExtRef, FuncRef, ListOf, Obj, Tup
from ..repo import norm_src
from .affine import A, AffineDomain, BoolC, Poly, Sl, mkA


@dataclass(frozen=True)
class Arr:
    shape: tuple  # tuple[A,...]
    lpad: tuple | None = None  # accumulated left padding per axis (tuple[A]) or None
    origin: tuple | None = None  # index of zero displacement per axis
    layout: str | None = None  # 'real' | 'fft' | 'centred' | 'centred@c' | 'half' | None
    tag: str = ""
    maybe_none = False

    def __repr__(self):
        s = "Arr[" + " x ".join(repr(x)[2:-1] for x in self.shape)
        if self.origin is not None:
            s += "; origin " + ", ".join(repr(x)[2:-1] for x in self.origin)
        if self.layout:
            s += "; " + self.layout
        if self.tag:
            s += "; " + self.tag
        return s + "]"

    @property
    def ndim(self):
        return len(self.shape)


@dataclass(frozen=True)
class Vec3:
    items: tuple
    maybe_none = False

    def __repr__(self):
        return "Vec3(" + ", ".join(repr(x) for x in self.items) + ")"


@dataclass(frozen=True)
class Seq:
    first: A
    step: A
    n: A
    maybe_none = False

    def __repr__(self):
        return f"Seq[{self.first!r} + k*{self.step!r}, k<{self.n!r}]"


@dataclass(frozen=True)
class ArgIdx:
    arr: object


@dataclass(frozen=True)
class MaskV:
    """Element-wise comparison of two small vectors (kept symbolically)."""

    lhs: tuple
    op: str
    rhs: tuple


class ArrayDomain(AffineDomain):
    name = "A+shape"

    def __init__(self, model, **kw):
        super().__init__(model, **kw)
        self.ranges: dict[str, tuple] = {}
        self._fresh = 0

    # ------------------------------------------------------------------ helpers
    def fresh_index(self, label: str, n: A | None, integer=True) -> A:
        self._fresh += 1
        nm = f"{label}#{self._fresh}"
        if integer:
            self.integer.add(nm)
        self.ranges[nm] = (mkA(0), self.add(n, mkA(-1)) if n is not None else None)
        return self.sym(nm)

    def seed_param(self, interp, fn, arg):
        if arg.arg in ("backend", "xp", "_backend"):
            return ExtRef("numpy")
        return super().seed_param(interp, fn, arg)

    def items_of(self, interp, val):
        if isinstance(val, Vec3):
            return list(val.items)
        return None

    def vec(self, v):
        """Normalise Tup-of-A / Vec3 / A to a list of components or None."""
        if isinstance(v, Vec3):
            return list(v.items)
        if isinstance(v, Tup) and v.items and all(isinstance(x, A) for x in v.items):
            return list(v.items)
        return None

    # ------------------------------------------------------------------ attribute / subscript
    def attr(self, interp, val, name, node):
        if isinstance(val, Arr):
            if name == "shape":
                return Tup(list(val.shape))
            if name == "ndim":
                return mkA(len(val.shape))
            if name in ("real", "imag", "T"):
                return val
            if name == "size":
                return TOP
            return NotImplemented
        if isinstance(val, Vec3):
            if name == "shape":
                return Tup([mkA(len(val.items))])
            if name in ("real", "T"):
                return val
        return super().attr(interp, val, name, node)

    def slice_axis(self, interp, length: A, origin, sl, node):
        """Apply a 1-d slice (lo, hi) to an axis.  Returns (new_length, new_origin, lo_form)."""
        lo, hi, step = sl
        if step is not None and not (isinstance(step, Const) and step.value is None):
            st = self.lift(step)
            if st is not None and st.equals(mkA(-1)) and lo is None and hi is None:
                return length, origin, mkA(0)
            return None
        lo_f = mkA(0) if lo is None or (isinstance(lo, Const) and lo.value is None) else self.lift(lo)
        hi_f = None if hi is None or (isinstance(hi, Const) and hi.value is None) else self.lift(hi)
        if lo_f is None or (hi is not None and not (isinstance(hi, Const) and hi.value is None) and hi_f is None):
            return None
        # negative constants count from the end; symbolic bounds are taken as written (non-negative) unless provably negative
        def resolve(f: A, is_hi: bool):
            if f.is_poly() and f.poly().is_const():
                c = f.poly().const_value()
                if c < 0:
                    return self.add(length, f)
                return f
            clamped = f.is_poly() and any(a[0] in ("min", "max") for a in f.poly().atoms()) and not all(c < 0 for c in f.poly().t.values())
            if f.is_poly() and f.poly().t and not clamped:
                # clamped indices (max(x, 0), min(x, n)) are taken as written; other forms count from the end when provably negative
                neg = self.neg(f).poly()
                if self.prove_gt(neg, ()):  # provably negative: counts from the end
                    return self.add(length, f)
                if is_hi and self.prove_ge(neg, ()) and not self.prove_ge(f.poly(), ()):
                    # `-w` with w >= 0 (possibly 0): x[w:-0] would be empty - flagged by the caller via events
                    self.events.append(("maybe-empty-slice", interp.cur_fn, node, f"upper slice bound {f!r} may be -0 (empty slice) unless the width is >= 1"))
                    return self.add(length, f)
            return f

        lo_r = resolve(lo_f, False)
        hi_r = length if hi_f is None else resolve(hi_f, True)
        new_len = self.add(hi_r, self.neg(lo_r))
        new_org = None if origin is None else self.add(origin, self.neg(lo_r))
        return new_len, new_org, lo_r

    def subscript(self, interp, val, index_node, index_val, node):
        if isinstance(val, Arr):
            idx = index_val
            parts = list(idx.items) if isinstance(idx, Tup) else [idx]
            if isinstance(idx, Arr) or isinstance(idx, BoolC):
                return Arr(val.shape, val.lpad, val.origin, val.layout, "masked")
            if len(parts) == 1 and isinstance(parts[0], Tup) and all(isinstance(p, (Sl, tuple)) for p in parts[0].items):
                parts = list(parts[0].items)  # x[tuple_of_slices]
            shape, lpad, origin = list(val.shape), (list(val.lpad) if val.lpad else None), (list(val.origin) if val.origin else None)
            out_shape, out_lpad, out_origin = [], [], []
            ax = 0
            scalar_index = True
            for p in parts:
                if isinstance(p, Const) and p.value is None:  # np.newaxis
                    out_shape.append(mkA(1))
                    out_lpad.append(mkA(0))
                    out_origin.append(mkA(0))
                    scalar_index = False
                    continue
                if ax >= len(shape):
                    return TOP
                if isinstance(p, Sl):
                    p = ("slice", [p.start, p.stop, p.step])
                if isinstance(p, tuple) and p and p[0] == "slice":
                    r = self.slice_axis(interp, shape[ax], origin[ax] if origin else None, p[1], node)
                    if r is None:
                        return TOP
                    out_shape.append(r[0])
                    out_lpad.append(self.add(lpad[ax], self.neg(r[2])) if lpad else None)
                    out_origin.append(r[1])
                    scalar_index = False
                    ax += 1
                else:
                    ax += 1  # integer index: axis dropped
            for k in range(ax, len(shape)):
                out_shape.append(shape[k])
                out_lpad.append(lpad[k] if lpad else None)
                out_origin.append(origin[k] if origin else None)
                scalar_index = False
            if scalar_index and not out_shape:
                return self.sym("elem")
            return Arr(tuple(out_shape), tuple(out_lpad) if lpad else None, tuple(out_origin) if origin and all(o is not None for o in out_origin) else None,
                       val.layout if not any(isinstance(p, tuple) for p in parts) or val.layout in (None, "real") else val.layout, val.tag)
        if isinstance(val, Vec3):
            k = None
            if isinstance(index_node, ast.Constant) and isinstance(index_node.value, int):
                k = index_node.value
            if k is not None and -len(val.items) <= k < len(val.items):
                return val.items[k]
            if isinstance(index_val, (Vec3, BoolC, MaskV)):
                return val
            return TOP
        if isinstance(val, Seq):
            return val
        return super().subscript(interp, val, index_node, index_val, node)

    def store_sub(self, interp, container, index_node, index_val, value, node):
        if isinstance(container, Arr) and isinstance(value, Arr) and container.origin is None and value.origin is not None \
                and len(container.shape) == len(value.shape) and all(x.equals(y) for x, y in zip(container.shape, value.shape)):
            return replace(container, origin=value.origin)
        if isinstance(container, Vec3) and isinstance(index_val, MaskV) and isinstance(value, Vec3) and len(value.items) == len(container.items):
            return self.masked_store(interp, container, index_val, value, node)
        if isinstance(container, Vec3):
            return TOP
        if isinstance(container, Arr):
            return container
        return super().store_sub(interp, container, index_node, index_val, value, node)

    def masked_store(self, interp, c: Vec3, mask: MaskV, value: Vec3, node):
        """x[x > r] = x - n   (signed decoding of an FFT index):  result in [r + 1 - n, r] when x in [0, n-1]."""
        out = []
        for i, (ci, vi) in enumerate(zip(c.items, value.items)):
            ok = mask.op == ">" and mask.lhs[i].equals(ci)
            rng = None
            ats = [a for a in ci.num.atoms() if a[0] == "sym"]
            if ok and ci.is_poly() and len(ats) == 1 and ci.poly() == Poly.atom(ats[0]):
                rng = self.ranges.get(ats[0][1])
            if not ok or rng is None or rng[1] is None:
                return TOP
            n = self.add(rng[1], mkA(1))
            if not vi.equals(self.add(ci, self.neg(n))) or not rng[0].equals(mkA(0)):
                return TOP
            r = mask.rhs[i]
            self._fresh += 1
            nm = f"signed#{self._fresh}"
            if self.is_integer(ci):
                self.integer.add(nm)
            self.ranges[nm] = (self.add(self.add(r, mkA(1)), self.neg(n)), r)
            out.append(self.sym(nm))
        return Vec3(tuple(out))

    # ------------------------------------------------------------------ algebra
    def binop(self, interp, op, l, r, node):
        if isinstance(l, Arr) or isinstance(r, Arr):
            return self.arr_binop(interp, op, l, r, node)
        lv, rv = self.vec(l) if isinstance(l, Vec3) else None, self.vec(r) if isinstance(r, Vec3) else None
        if isinstance(l, Vec3) or isinstance(r, Vec3):
            if lv is None and isinstance(l, Tup):
                lv = self.vec(l)
            if rv is None and isinstance(r, Tup):
                rv = self.vec(r)
            n = len(lv) if lv is not None else len(rv)
            if lv is None:
                a = self.lift(l)
                if a is None:
                    return TOP
                lv = [a] * n
            if rv is None:
                a = self.lift(r)
                if a is None:
                    return TOP
                rv = [a] * n
            if len(lv) != len(rv):
                return TOP
            out = [super(ArrayDomain, self).binop(interp, op, x, y, node) for x, y in zip(lv, rv)]
            if any(o is TOP for o in out):
                return TOP
            return Vec3(tuple(out))
        if isinstance(l, Seq) or isinstance(r, Seq):
            return self.seq_binop(interp, op, l, r, node)
        return super().binop(interp, op, l, r, node)

    def seq_binop(self, interp, op, l, r, node):
        if isinstance(l, Seq) and not isinstance(r, Seq):
            a = self.lift(r)
            if a is None:
                return TOP
            if isinstance(op, ast.Add):
                return Seq(self.add(l.first, a), l.step, l.n)
            if isinstance(op, ast.Sub):
                return Seq(self.add(l.first, self.neg(a)), l.step, l.n)
            if isinstance(op, ast.Mult):
                return Seq(super().binop(interp, op, l.first, a, node), super().binop(interp, op, l.step, a, node), l.n)
            if isinstance(op, ast.Div):
                return Seq(self.div(l.first, a), self.div(l.step, a), l.n)
            return TOP
        if isinstance(r, Seq) and not isinstance(l, Seq):
            a = self.lift(l)
            if a is None:
                return TOP
            if isinstance(op, ast.Add):
                return Seq(self.add(r.first, a), r.step, r.n)
            if isinstance(op, ast.Mult):
                return Seq(super().binop(interp, op, r.first, a, node), super().binop(interp, op, r.step, a, node), r.n)
            if isinstance(op, ast.Sub):
                return Seq(self.add(a, self.neg(r.first)), self.neg(r.step), r.n)
        return TOP

    def arr_binop(self, interp, op, l, r, node):
        if isinstance(l, Arr) and isinstance(r, Arr):
            if len(l.shape) == len(r.shape):
                for i, (x, y) in enumerate(zip(l.shape, r.shape)):
                    if not x.equals(y) and not x.equals(mkA(1)) and not y.equals(mkA(1)):
                        self.events.append(("shape-mismatch", interp.cur_fn, node, f"operands have different lengths on axis {i}: {x!r} vs {y!r}"))
                        return TOP
            if l.layout and r.layout and l.layout != r.layout and "real" not in (l.layout, r.layout):
                self.events.append(("layout-mismatch", interp.cur_fn, node, f"element-wise product of arrays in different FFT layouts: {l.layout} vs {r.layout}"))
            return Arr(l.shape, l.lpad, l.origin if l.origin is not None else r.origin, l.layout or r.layout, l.tag or r.tag)
        arr = l if isinstance(l, Arr) else r
        return arr

    def unary(self, interp, op, val, node):
        if isinstance(val, Arr):
            return val
        if isinstance(val, Vec3):
            out = [super(ArrayDomain, self).unary(interp, op, x, node) for x in val.items]
            return TOP if any(o is TOP for o in out) else Vec3(tuple(out))
        return super().unary(interp, op, val, node)

    def compare(self, interp, node, vals):
        if any(isinstance(v, (Arr, Vec3)) for v in vals):
            for v in vals:
                if isinstance(v, Arr):
                    return v
            if len(vals) == 2 and len(node.ops) == 1:
                opn = {ast.Lt: "<", ast.LtE: "<=", ast.Gt: ">", ast.GtE: ">=", ast.Eq: "==", ast.NotEq: "!="}.get(type(node.ops[0]))
                l, r = self.vec(vals[0]), self.vec(vals[1])
                n = len(l) if l is not None else len(r)
                if l is None:
                    a = self.lift(vals[0])
                    l = [a] * n if a is not None else None
                if r is None:
                    a = self.lift(vals[1])
                    r = [a] * n if a is not None else None
                if opn and l is not None and r is not None and len(l) == len(r):
                    return MaskV(tuple(l), opn, tuple(r))
            return TOP
        return super().compare(interp, node, vals)

    def join(self, interp, a, b):
        if isinstance(a, Arr) and isinstance(b, Arr):
            if len(a.shape) == len(b.shape) and all(x.equals(y) for x, y in zip(a.shape, b.shape)):
                return a
            return TOP
        if isinstance(a, Vec3) and isinstance(b, Vec3) and len(a.items) == len(b.items):
            if all(x.equals(y) for x, y in zip(a.items, b.items)):
                return a
            return TOP
        if isinstance(a, Seq) and isinstance(b, Seq):
            return a if a == b else TOP
        return super().join(interp, a, b)

    def elem(self, interp, val, node):
        if isinstance(val, Arr):
            if len(val.shape) > 1:
                return Arr(val.shape[1:], val.lpad[1:] if val.lpad else None, val.origin[1:] if val.origin else None, val.layout, val.tag)
            return self.sym("elem")
        if isinstance(val, Seq):
            k = self.fresh_index("k", val.n)
            return self.add(val.first, A(k.num * val.step.num, k.den * val.step.den))
        return super().elem(interp, val, node)

    def unpack(self, interp, val, n, node):
        if isinstance(val, Vec3) and len(val.items) == n:
            return list(val.items)
        return super().unpack(interp, val, n, node)

    def to_sequence(self, interp, name, v, node):
        if isinstance(v, Vec3):
            return Tup(list(v.items))
        return super().to_sequence(interp, name, v, node)

    def truth(self, interp, val):
        if isinstance(val, (Arr, Vec3, Seq)):
            return None
        return super().truth(interp, val)

    # ------------------------------------------------------------------ repo summaries
    def call_repo(self, interp, funcs, bound, args, kwargs, node):
        names = {f.name for f in funcs}
        if names == {"_upsampled_dft"} and len(args) >= 2:
            # trusted summary (reason: matrix-multiply DFT evaluated at `arange(size) - axis_offsets`): output of size `upsampled_region_size`
            # per axis whose zero-displacement index is `axis_offsets` (dftshift - shifts*upsample), i.e. NOT in FFT layout
            n = self.lift(args[1])
            if n is not None and isinstance(args[0], Arr):
                return Arr(tuple(n for _ in args[0].shape), None, None, "centred@dftshift", "upsampled-dft")
            return TOP
        if names == {"fftconvolve"} and len(args) >= 2 and isinstance(args[0], Arr) and isinstance(args[1], Arr):
            # valid-mode correlation/convolution (summary justified by _apply_conv_mode: shape_valid = s1 - s2 + 1, centred slice)
            a, b = args[0], args[1]
            shape = tuple(self.add(self.add(x, self.neg(y)), mkA(1)) for x, y in zip(a.shape, b.shape))
            origin = tuple(a.lpad) if a.lpad is not None else None
            return Arr(shape, None, origin, "real", "valid-corr")
        return NotImplemented

    # ------------------------------------------------------------------ calls
    ELEMENTWISE = {"sqrt", "exp", "abs", "conj", "real", "imag", "asarray", "asnumpy", "array", "ascontiguousarray", "copy", "cumsum",
                   "float32", "nan_to_num", "square", "negative"}

    def call_external(self, interp, name, recv, args, kwargs, node):
        if name is None:
            return TOP
        last = name.rsplit(".", 1)[-1]
        if name.startswith("value."):
            if isinstance(recv, Arr):
                return self.arr_method(interp, recv, last, args, kwargs, node)
            if isinstance(recv, Vec3):
                if last in ("astype",):
                    t = norm_src(node.args[0]) if node.args else ""
                    if "int" in t:
                        out = [self.opaque("int", x) for x in recv.items]
                        return Vec3(tuple(out))
                    return recv
                if last in ("copy", "tolist", "ravel", "squeeze"):
                    return recv if last != "tolist" else Tup(list(recv.items))
                return TOP
            if isinstance(recv, Seq):
                if last in ("astype", "copy"):
                    return recv
                return TOP
            return super().call_external(interp, name, recv, args, kwargs, node)
        a0 = args[0] if args else None
        if name.startswith("numpy.") or name.startswith("scipy.") or name.startswith("acryo."):
            # numpy-like functions over Arr / Vec3 / Seq
            if last in ("asarray", "array", "asnumpy", "ascontiguousarray") and a0 is not None:
                if isinstance(a0, (Arr, Vec3, Seq)):
                    return a0
                if isinstance(a0, Tup) and a0.items and all(isinstance(x, A) for x in a0.items):
                    return Vec3(tuple(a0.items))
                if isinstance(a0, ListOf) and isinstance(a0.elem, A):
                    return a0.elem
            if isinstance(a0, Arr):
                if last in self.ELEMENTWISE or last in ("fftshift", "ifftshift", "fftn", "ifftn", "rfftn", "irfftn"):
                    return self.arr_func(interp, last, a0, args, kwargs, node)
                if last in ("pad",):
                    return self.pad(interp, a0, kwargs.get("pad_width", args[1] if len(args) > 1 else None), node)
                if last in ("sum", "mean", "max", "min", "prod", "percentile", "std"):
                    if "axis" in kwargs:
                        return TOP
                    return self.sym(f"{last}(arr)")
                if last in ("argmax", "argmin"):
                    return ArgIdx(a0)
                if last in ("zeros_like", "ones_like", "empty_like"):
                    return Arr(a0.shape)
                if last in ("stack",):
                    return a0
                if last in ("map_coordinates",):
                    coords = args[1] if len(args) > 1 else kwargs.get("coordinates")
                    if isinstance(coords, (Tup, ListOf)):
                        seqs = interp.items_of(coords)
                        if seqs is not None and all(isinstance(q, Seq) for q in seqs):
                            return Arr(tuple(q.n for q in seqs), tag="sampled")
                    return TOP
                return TOP
            if isinstance(a0, ArgIdx) and last == "unravel_index":
                arr = a0.arr
                comps = [self.fresh_index("argmax", n) for n in arr.shape]
                return Vec3(tuple(comps))
            if last in ("zeros", "ones", "empty", "full") and a0 is not None:
                v = self.vec(a0)
                if v is not None:
                    return Arr(tuple(v))
                return TOP
            if last in ("arange",):
                vals = [self.lift(x) for x in args]
                if any(v is None for v in vals) or not vals:
                    return TOP
                if len(vals) == 1:
                    return Seq(mkA(0), mkA(1), vals[0])
                return Seq(vals[0], mkA(1), self.add(vals[1], self.neg(vals[0])))
            if last == "linspace" and len(args) >= 3:
                lo, hi, n = (self.lift(x) for x in args[:3])
                if lo is None or hi is None or n is None:
                    return TOP
                step = self.div(self.add(hi, self.neg(lo)), self.add(n, mkA(-1)))
                return Seq(lo, step, n)
            if last == "meshgrid":
                seqs = [x for x in args]
                if len(seqs) == 1 and isinstance(seqs[0], (Tup, ListOf)):
                    return seqs[0]
                return Tup(seqs)
            if last == "stack" and a0 is not None:
                return a0
            if last in ("maximum", "minimum") and len(args) == 2 and (isinstance(args[0], Vec3) or isinstance(args[1], Vec3)):
                l, r = self.vec(args[0]), self.vec(args[1])
                n = len(l) if l is not None else len(r)
                if l is None:
                    a = self.lift(args[0])
                    l = [a] * n if a is not None else None
                if r is None:
                    a = self.lift(args[1])
                    r = [a] * n if a is not None else None
                if l is None or r is None:
                    return TOP
                nm = "builtins.max" if last == "maximum" else "builtins.min"
                return Vec3(tuple(super(ArrayDomain, self).call_external(interp, nm, None, [x, y], {}, node) for x, y in zip(l, r)))
            if last == "clip" and a0 is not None and (len(args) >= 2 or "a_min" in kwargs or "a_max" in kwargs or "min" in kwargs or "max" in kwargs):
                # np.clip(x, lo, hi) == minimum(maximum(x, lo), hi); a bound given as None is absent
                lo = args[1] if len(args) > 1 else kwargs.get("a_min", kwargs.get("min"))
                hi = args[2] if len(args) > 2 else kwargs.get("a_max", kwargs.get("max"))
                out = a0
                for b_, fn_ in ((lo, "numpy.maximum"), (hi, "numpy.minimum")):
                    if b_ is None or (isinstance(b_, Const) and b_.value is None):
                        continue
                    out = self.call_external(interp, fn_, None, [out, b_], {}, node)
                    if out is TOP:
                        return TOP
                return out
            if last in ("fix", "trunc") and a0 is not None:
                v = self.vec(a0)
                if v is not None:
                    return Vec3(tuple(self.opaque("int", x) for x in v))
                a = self.lift(a0)
                return self.opaque("int", a) if a is not None else TOP
            if last in ("ceil", "floor", "round", "rint") and isinstance(a0, Tup) and self.vec(a0) is not None:
                a0 = Vec3(tuple(self.vec(a0)))
            if last in ("ceil", "floor", "round", "rint") and isinstance(a0, Vec3):
                kind = {"rint": "round"}.get(last, last)
                return Vec3(tuple(self.opaque(kind, x) for x in a0.items))
        if name in ("builtins.tuple", "builtins.list") and isinstance(a0, Vec3):
            return Tup(list(a0.items))
        if name in ("builtins.float", "builtins.int") and isinstance(a0, Arr):
            return self.sym("elem")
        return super().call_external(interp, name, recv, args, kwargs, node)

    def arr_func(self, interp, fname, a: Arr, args, kwargs, node):
        if fname in ("fftn", "ifftn"):
            return Arr(a.shape, None, None, "fft", a.tag)
        if fname == "rfftn":
            return Arr(a.shape[:-1] + (self.add(self.floordiv(a.shape[-1], mkA(2)), mkA(1)),), None, None, "half", a.tag)
        if fname == "irfftn":
            s = args[1] if len(args) > 1 else kwargs.get("s")
            v = self.vec(s) if s is not None else None
            if v is not None:
                return Arr(tuple(v), None, None, "real", a.tag)
            last = a.shape[-1]
            return Arr(a.shape[:-1] + (self.add(self.add(last, last), mkA(-2)),), None, None, "real", a.tag)
        if fname == "fftshift":
            if a.layout == "centred":
                self.events.append(("layout", interp.cur_fn, node, "fftshift applied to an array that is already centred"))
            if a.layout and a.layout.startswith("centred@"):
                self.events.append(("layout", interp.cur_fn, node, f"fftshift applied to an array whose origin is at an explicit index ({a.layout}), not in FFT layout"))
            org = tuple(self.floordiv(n, mkA(2)) for n in a.shape)
            return Arr(a.shape, a.lpad, org if a.layout in ("fft", None) else a.origin, "centred" if a.layout in ("fft", None) else a.layout, a.tag)
        if fname == "ifftshift":
            if a.layout == "fft":
                self.events.append(("layout", interp.cur_fn, node, "ifftshift applied to an array already in FFT layout"))
            return Arr(a.shape, a.lpad, None, "fft" if a.layout == "centred" else a.layout, a.tag)
        return a

    def arr_method(self, interp, a: Arr, meth, args, kwargs, node):
        if meth in ("mean", "sum", "max", "min", "std"):
            if "axis" in kwargs or args:
                return TOP
            return self.sym(f"{meth}(arr)")
        if meth in ("astype", "copy", "conj", "compute", "squeeze"):
            return a
        if meth in ("ravel", "flatten", "reshape"):
            return TOP
        return TOP

    def pad(self, interp, a: Arr, pw, node):
        pairs = interp.items_of(pw) if pw is not None else None
        if pairs is None or len(pairs) != len(a.shape):
            return TOP
        shape, lpad = [], []
        for n, p, lp in zip(a.shape, pairs, a.lpad or [mkA(0)] * len(a.shape)):
            if not (isinstance(p, Tup) and len(p.items) == 2 and all(isinstance(x, A) for x in p.items)):
                return TOP
            shape.append(self.add(self.add(n, p.items[0]), p.items[1]))
            lpad.append(self.add(lp, p.items[0]))
        return Arr(tuple(shape), tuple(lpad), None, a.layout, a.tag)
